"""Self-test corpus: (name, property, edits, expectation[, rule])."""
CASES = []


def fire(name, prop, edits, rule=None):
    CASES.append({"name": name, "prop": prop, "edits": edits, "expect": "fire", "rule": rule})


def silent(name, prop, edits):
    CASES.append({"name": name, "prop": prop, "edits": edits, "expect": "silent"})


SER = "src/pyoak/serialize.py"
NODE = "src/pyoak/node.py"
ORIGIN = "src/pyoak/origin.py"
CODEGEN = "src/pyoak/codegen.py"
TYPING = "src/pyoak/typing.py"
TREE = "src/pyoak/tree.py"
VISITOR = "src/pyoak/visitor.py"
XPATH = "src/pyoak/match/xpath.py"
PATTERN = "src/pyoak/match/pattern.py"
LNODE = "src/pyoak/legacy/node.py"
LXPATH = "src/pyoak/legacy/match/xpath.py"

# ---------------------------------------------------------------- C16
fire("c16_ser_opts_no_finally", "C16", [(SER, '''        try:
            ret = self._serialize()
        finally:
            # Clear the kwargs and dialect
            DataClassSerializeMixin.__serialization_options = {}
            DataClassSerializeMixin.__mashumaro_dialect = None

        return ret
''', '''        ret = self._serialize()
        # Clear the kwargs and dialect
        DataClassSerializeMixin.__serialization_options = {}
        DataClassSerializeMixin.__mashumaro_dialect = None

        return ret
''')], "R-OPT-PAIR")
fire("c16_ser_opts_not_cleared_on_deser", "C16", [(SER, '''        try:
            ret = cls._deserialize(value)
        finally:
            # Clear the kwargs and dialect
            DataClassSerializeMixin.__serialization_options = {}
            DataClassSerializeMixin.__mashumaro_dialect = None
''', '''        try:
            ret = cls._deserialize(value)
        finally:
            pass
''')], "R-OPT-PAIR")
fire("c16_reset_one_slot_only", "C16", [(SER, '''            ret = cls._deserialize(value)
        finally:
            # Clear the kwargs and dialect
            DataClassSerializeMixin.__serialization_options = {}
            DataClassSerializeMixin.__mashumaro_dialect = None
''', '''            ret = cls._deserialize(value)
        finally:
            # Clear the kwargs and dialect
            DataClassSerializeMixin.__mashumaro_dialect = None
''')], "R-OPT-PAIR")
fire("c16_except_without_reraise_path", "C16", [(SER, '''        try:
            ret = self._serialize()
        finally:
            # Clear the kwargs and dialect
            DataClassSerializeMixin.__serialization_options = {}
            DataClassSerializeMixin.__mashumaro_dialect = None
''', '''        try:
            ret = self._serialize()
        except ValueError:
            DataClassSerializeMixin.__serialization_options = {}
            DataClassSerializeMixin.__mashumaro_dialect = None
            raise
        DataClassSerializeMixin.__serialization_options = {}
        DataClassSerializeMixin.__mashumaro_dialect = None
''')], "R-OPT-PAIR")
silent("c16_except_reraise_idiom", "C16", [(SER, '''        try:
            ret = self._serialize()
        finally:
            # Clear the kwargs and dialect
            DataClassSerializeMixin.__serialization_options = {}
            DataClassSerializeMixin.__mashumaro_dialect = None
''', '''        try:
            ret = self._serialize()
        except BaseException:
            DataClassSerializeMixin.__serialization_options = {}
            DataClassSerializeMixin.__mashumaro_dialect = None
            raise
        DataClassSerializeMixin.__serialization_options = {}
        DataClassSerializeMixin.__mashumaro_dialect = None
''')])
fire("c16_foreign_writer", "C16", [(ORIGIN, '''        d = super().__post_serialize__(d)
        d.pop("_raw", None)
''', '''        d = super().__post_serialize__(d)
        d.pop("_raw", None)
        DataClassSerializeMixin._DataClassSerializeMixin__serialization_options = {}
''')], "R-OPT-OWN")
fire("c16_reentry_from_hook", "C16", [(ORIGIN, '''            return {"idx": Source._sources[self]}
        return super()._serialize()
''', '''            return {"idx": Source._sources[self]}
        Source.all_as_dict()
        return super()._serialize()
''')], "R-OPT-REENTRY")
fire("c16_tag_after_keys", "C16", [(SER, '''        out = {}

        if not skip_class:
            # Add class name
            out[TYPE_KEY] = self.__class__.__name__

        if sort_keys:
            # Output keys in sorted order for stable serialization
            for k, v in sorted(d.items(), key=itemgetter(0)):
                out[k] = v
        else:
            out.update(d)
''', '''        out = {}

        if sort_keys:
            # Output keys in sorted order for stable serialization
            for k, v in sorted(d.items(), key=itemgetter(0)):
                out[k] = v
        else:
            out.update(d)

        if not skip_class:
            # Add class name
            out[TYPE_KEY] = self.__class__.__name__
''')], "R-TAG-FIRST")
fire("c16_skip_class_inverted", "C16", [(SER, "        if not skip_class:\n            # Add class name", "        if skip_class:\n            # Add class name")], "R-TAG-FIRST")
fire("c16_sort_reverse", "C16", [(SER, "sorted(d.items(), key=itemgetter(0))", "sorted(d.items(), key=itemgetter(0), reverse=True)")], "R-SORTED")
fire("c16_children_after_fill", "C16", [(NODE, '''            d["_children"] = [f.name for f in get_cls_child_fields(self.__class__)]

        out = super(ASTNode, self).__post_serialize__(d)
''', '''            pass

        out = super(ASTNode, self).__post_serialize__(d)
        out["_children"] = [f.name for f in get_cls_child_fields(self.__class__)]
''')], "R-SORTED-OVERRIDE")
fire("c16_untagged_serialize", "C16", [(ORIGIN, '''    def _serialize(self) -> dict[str, t.Any]:
        if self._get_serialization_options().get(SOURCE_OPTIMIZED_SERIALIZATION_KEY, False):
            return {"idx": Source._sources[self]}
        return super()._serialize()
''', '''    def _serialize(self) -> dict[str, t.Any]:
        if self._get_serialization_options().get(SOURCE_OPTIMIZED_SERIALIZATION_KEY, False):
            return {"idx": Source._sources[self]}
        return {"source_uri": self.source_uri, "source_type": self.source_type}
''')], "R-DEFAULT-TAG")
silent("c16_rename_local_and_lambda_key", "C16", [(SER, '''            for k, v in sorted(d.items(), key=itemgetter(0)):
                out[k] = v
''', '''            for key, val in sorted(d.items(), key=lambda kv: kv[0]):
                out[key] = val
''')])

# ---------------------------------------------------------------- C10
fire("c10_not_frozen", "C10", [(XPATH, "@dataclass(frozen=True)\nclass _DUMMY_XPATH_ROOT", "@dataclass\nclass _DUMMY_XPATH_ROOT")], "R-FROZEN")
fire("c10_replace_mutates_self", "C10", [(NODE, '''        ori_n = self if _unregister(self) else None
''', '''        ori_n = self if _unregister(self) else None
        object.__setattr__(self, "id", self.id + "_old")
''')], "R-BYPASS-WRITE")
fire("c10_deser_forces_id_on_existing", "C10", [(NODE, '''        if existing_node is not None:
            return existing_node
''', '''        if existing_node is not None:
            object.__setattr__(existing_node, "origin", existing_node.origin)
            return existing_node
''')], "R-BYPASS-WRITE")
fire("c10_visitor_patches_child", "C10", [(VISITOR, '''                new_child = self.visit(child)

                changes[fname] = new_child
''', '''                new_child = self.visit(child)
                if new_child is not None:
                    object.__setattr__(new_child, "origin", child.origin)

                changes[fname] = new_child
''')], "R-BYPASS-WRITE")
fire("c10_tree_marks_nodes", "C10", [(TREE, '''        for n in root.dfs():
            self._node_to_parent_info[n.node] = ParentInfo(n.parent, n.field, n.findex)
''', '''        for n in root.dfs():
            n.node.__dict__["_tree"] = self
            self._node_to_parent_info[n.node] = ParentInfo(n.parent, n.field, n.findex)
''')], "R-BYPASS-WRITE")
fire("c10_generated_store", "C10", [(CODEGEN, '''                body += f"{_IND}for o in self.{f.name}:\\n"
                body += f"{_IND*2}yield o\\n"
''', '''                body += f"{_IND}for o in self.{f.name}:\\n"
                body += f"{_IND*2}object.__setattr__(o, '_seen', True)\\n"
                body += f"{_IND*2}yield o\\n"
''')], "R-GEN-PURE")
silent("c10_new_non_node_attr", "C10", [(TREE, "        self._root = root\n", "        self._root = root\n        self._size = 0\n")])

# ---------------------------------------------------------------- C12
fire("c12_F03_truthiness", "C12", [(CODEGEN, '''                body += f"{_IND}if self.{f.name} is not None:\\n"
                body += f"{_IND*2}yield self.{f.name}\\n"
''', '''                body += f"{_IND}if self.{f.name}:\\n"
                body += f"{_IND*2}yield self.{f.name}\\n"
''')], "R-PRESENCE")
fire("c12_F12_reverted", "C12", [(CODEGEN, '''        if not f.compare and not f.init:
            body += f"{_IND}if not skip_non_compare and not skip_non_init:\\n"
            body += f"{_IND*2}yield self.{f.name}, _fld_{f.name}\\n"
            return

''', "")], "R-FLAGS-TT")
fire("c12_F13_reverted", "C12", [(NODE, '''            if f.name == "id":
                if not skip_id:
                    yield f
                continue
''', '''            if f.name == "id" and skip_id:
                continue
''')], "R-ACCESSOR-SIBLING")
fire("c12_enumerate_from_1", "C12", [(CODEGEN, 'for i, o in enumerate(self.{f.name}):', 'for i, o in enumerate(self.{f.name}, 1):')], "R-ENUM-SHAPE")
fire("c12_sorted_by_reverse", "C12", [(CODEGEN, '''    for f in sorted(props.keys(), key=lambda f: f.name):''', '''    for f in sorted(props.keys(), key=lambda f: f.name, reverse=True):''')], "R-ORDER-KEY")
fire("c12_unsorted_branch_sorted", "C12", [(CODEGEN, '''        for f in child_fields.keys():
            _build_body(f)''', '''        for f in reversed(child_fields.keys()):
            _build_body(f)''')], "R-ORDER-KEY")
fire("c12_wrong_field_var", "C12", [(CODEGEN, '''                body += f"{_IND*2}yield o, _fld_{f.name}, i\\n"''', '''                body += f"{_IND*2}yield o, _fld_{f.name}, None\\n"''')], "R-ENUM-SHAPE")
fire("c12_install_on_base", "C12", [(CODEGEN, "    setattr(clz, new_f.__name__, new_f)", "    setattr(clz.__mro__[1], new_f.__name__, new_f)")], "R-REINSTALL")
fire("c12_no_reinstall", "C12", [(NODE, "        cls.get_child_nodes = gen_and_yield_get_child_nodes  # type: ignore[method-assign]\n", "")], "R-REINSTALL")
fire("c12_origin_follows_compare", "C12", [(CODEGEN, '''        if f.name == "origin":
            body += f"{_IND}if not skip_origin:\\n"''', '''        if f.name == "origin":
            body += f"{_IND}if not skip_origin and not skip_non_init:\\n"''')], "R-FLAGS-TT")
silent("c12_guard_equivalent_form", "C12", [(CODEGEN, '''                body += f"{_IND}if self.{f.name} is not None:\\n"
                body += f"{_IND*2}yield self.{f.name}\\n"
''', '''                body += f"{_IND}if not (self.{f.name} is None):\\n"
                body += f"{_IND*2}yield self.{f.name}\\n"
''')])
silent("c12_flags_demorgan", "C12", [(CODEGEN, 'body += f"{_IND}if not skip_non_compare and not skip_non_init:\\n"', 'body += f"{_IND}if not (skip_non_compare or skip_non_init):\\n"')])
