"""Self-test corpus: (name, property, edits, expectation[, rule])."""
CASES = []


def fire(name, prop, edits, rule=None):
    CASES.append({"name": name, "prop": prop, "edits": edits, "expect": "fire", "rule": rule})


def silent(name, prop, edits):
    CASES.append({"name": name, "prop": prop, "edits": edits, "expect": "silent"})


SER = "src/pyoak/serialize.py"
NODE = "src/pyoak/node.py"
ORIGIN = "src/pyoak/origin.py"
CODEGEN = "src/pyoak/codegen.py"
TYPING = "src/pyoak/typing.py"
TREE = "src/pyoak/tree.py"
VISITOR = "src/pyoak/visitor.py"
XPATH = "src/pyoak/match/xpath.py"
PATTERN = "src/pyoak/match/pattern.py"
LNODE = "src/pyoak/legacy/node.py"
LXPATH = "src/pyoak/legacy/match/xpath.py"

# ---------------------------------------------------------------- C16
fire("c16_ser_opts_no_finally", "C16", [(SER, '''        try:
            ret = self._serialize()
        finally:
            # Clear the kwargs and dialect
            DataClassSerializeMixin.__serialization_options = {}
            DataClassSerializeMixin.__mashumaro_dialect = None

        return ret
''', '''        ret = self._serialize()
        # Clear the kwargs and dialect
        DataClassSerializeMixin.__serialization_options = {}
        DataClassSerializeMixin.__mashumaro_dialect = None

        return ret
''')], "R-OPT-PAIR")
fire("c16_ser_opts_not_cleared_on_deser", "C16", [(SER, '''        try:
            ret = cls._deserialize(value)
        finally:
            # Clear the kwargs and dialect
            DataClassSerializeMixin.__serialization_options = {}
            DataClassSerializeMixin.__mashumaro_dialect = None
''', '''        try:
            ret = cls._deserialize(value)
        finally:
            pass
''')], "R-OPT-PAIR")
fire("c16_reset_one_slot_only", "C16", [(SER, '''            ret = cls._deserialize(value)
        finally:
            # Clear the kwargs and dialect
            DataClassSerializeMixin.__serialization_options = {}
            DataClassSerializeMixin.__mashumaro_dialect = None
''', '''            ret = cls._deserialize(value)
        finally:
            # Clear the kwargs and dialect
            DataClassSerializeMixin.__mashumaro_dialect = None
''')], "R-OPT-PAIR")
fire("c16_except_without_reraise_path", "C16", [(SER, '''        try:
            ret = self._serialize()
        finally:
            # Clear the kwargs and dialect
            DataClassSerializeMixin.__serialization_options = {}
            DataClassSerializeMixin.__mashumaro_dialect = None
''', '''        try:
            ret = self._serialize()
        except ValueError:
            DataClassSerializeMixin.__serialization_options = {}
            DataClassSerializeMixin.__mashumaro_dialect = None
            raise
        DataClassSerializeMixin.__serialization_options = {}
        DataClassSerializeMixin.__mashumaro_dialect = None
''')], "R-OPT-PAIR")
silent("c16_except_reraise_idiom", "C16", [(SER, '''        try:
            ret = self._serialize()
        finally:
            # Clear the kwargs and dialect
            DataClassSerializeMixin.__serialization_options = {}
            DataClassSerializeMixin.__mashumaro_dialect = None
''', '''        try:
            ret = self._serialize()
        except BaseException:
            DataClassSerializeMixin.__serialization_options = {}
            DataClassSerializeMixin.__mashumaro_dialect = None
            raise
        DataClassSerializeMixin.__serialization_options = {}
        DataClassSerializeMixin.__mashumaro_dialect = None
''')])
fire("c16_foreign_writer", "C16", [(ORIGIN, '''        d = super().__post_serialize__(d)
        d.pop("_raw", None)
''', '''        d = super().__post_serialize__(d)
        d.pop("_raw", None)
        DataClassSerializeMixin._DataClassSerializeMixin__serialization_options = {}
''')], "R-OPT-OWN")
fire("c16_reentry_from_hook", "C16", [(ORIGIN, '''            return {"idx": Source._sources[self]}
        return super()._serialize()
''', '''            return {"idx": Source._sources[self]}
        Source.all_as_dict()
        return super()._serialize()
''')], "R-OPT-REENTRY")
fire("c16_tag_after_keys", "C16", [(SER, '''        out = {}

        if not skip_class:
            # Add class name
            out[TYPE_KEY] = self.__class__.__name__

        if sort_keys:
            # Output keys in sorted order for stable serialization
            for k, v in sorted(d.items(), key=itemgetter(0)):
                out[k] = v
        else:
            out.update(d)
''', '''        out = {}

        if sort_keys:
            # Output keys in sorted order for stable serialization
            for k, v in sorted(d.items(), key=itemgetter(0)):
                out[k] = v
        else:
            out.update(d)

        if not skip_class:
            # Add class name
            out[TYPE_KEY] = self.__class__.__name__
''')], "R-TAG-FIRST")
fire("c16_skip_class_inverted", "C16", [(SER, "        if not skip_class:\n            # Add class name", "        if skip_class:\n            # Add class name")], "R-TAG-FIRST")
fire("c16_sort_reverse", "C16", [(SER, "sorted(d.items(), key=itemgetter(0))", "sorted(d.items(), key=itemgetter(0), reverse=True)")], "R-SORTED")
fire("c16_children_after_fill", "C16", [(NODE, '''            d["_children"] = [f.name for f in get_cls_child_fields(self.__class__)]

        out = super(ASTNode, self).__post_serialize__(d)
''', '''            pass

        out = super(ASTNode, self).__post_serialize__(d)
        out["_children"] = [f.name for f in get_cls_child_fields(self.__class__)]
''')], "R-SORTED-OVERRIDE")
fire("c16_untagged_serialize", "C16", [(ORIGIN, '''    def _serialize(self) -> dict[str, t.Any]:
        if self._get_serialization_options().get(SOURCE_OPTIMIZED_SERIALIZATION_KEY, False):
            return {"idx": Source._sources[self]}
        return super()._serialize()
''', '''    def _serialize(self) -> dict[str, t.Any]:
        if self._get_serialization_options().get(SOURCE_OPTIMIZED_SERIALIZATION_KEY, False):
            return {"idx": Source._sources[self]}
        return {"source_uri": self.source_uri, "source_type": self.source_type}
''')], "R-DEFAULT-TAG")
silent("c16_rename_local_and_lambda_key", "C16", [(SER, '''            for k, v in sorted(d.items(), key=itemgetter(0)):
                out[k] = v
''', '''            for key, val in sorted(d.items(), key=lambda kv: kv[0]):
                out[key] = val
''')])

# ---------------------------------------------------------------- C10
fire("c10_not_frozen", "C10", [(XPATH, "@dataclass(frozen=True)\nclass _DUMMY_XPATH_ROOT", "@dataclass\nclass _DUMMY_XPATH_ROOT")], "R-FROZEN")
fire("c10_replace_mutates_self", "C10", [(NODE, '''        ori_n = self if _unregister(self) else None
''', '''        ori_n = self if _unregister(self) else None
        object.__setattr__(self, "id", self.id + "_old")
''')], "R-BYPASS-WRITE")
fire("c10_deser_forces_id_on_existing", "C10", [(NODE, '''        if existing_node is not None:
            return existing_node
''', '''        if existing_node is not None:
            object.__setattr__(existing_node, "origin", existing_node.origin)
            return existing_node
''')], "R-BYPASS-WRITE")
fire("c10_visitor_patches_child", "C10", [(VISITOR, '''                new_child = self.visit(child)

                changes[fname] = new_child
''', '''                new_child = self.visit(child)
                if new_child is not None:
                    object.__setattr__(new_child, "origin", child.origin)

                changes[fname] = new_child
''')], "R-BYPASS-WRITE")
fire("c10_tree_marks_nodes", "C10", [(TREE, '''        for n in root.dfs():
            self._node_to_parent_info[n.node] = ParentInfo(n.parent, n.field, n.findex)
''', '''        for n in root.dfs():
            n.node.__dict__["_tree"] = self
            self._node_to_parent_info[n.node] = ParentInfo(n.parent, n.field, n.findex)
''')], "R-BYPASS-WRITE")
fire("c10_generated_store", "C10", [(CODEGEN, '''                body += f"{_IND}for o in self.{f.name}:\\n"
                body += f"{_IND*2}yield o\\n"
''', '''                body += f"{_IND}for o in self.{f.name}:\\n"
                body += f"{_IND*2}object.__setattr__(o, '_seen', True)\\n"
                body += f"{_IND*2}yield o\\n"
''')], "R-GEN-PURE")
silent("c10_new_non_node_attr", "C10", [(TREE, "        self._root = root\n", "        self._root = root\n        self._size = 0\n")])

# ---------------------------------------------------------------- C12
fire("c12_F03_truthiness", "C12", [(CODEGEN, '''                body += f"{_IND}if self.{f.name} is not None:\\n"
                body += f"{_IND*2}yield self.{f.name}\\n"
''', '''                body += f"{_IND}if self.{f.name}:\\n"
                body += f"{_IND*2}yield self.{f.name}\\n"
''')], "R-PRESENCE")
fire("c12_F12_reverted", "C12", [(CODEGEN, '''        if not f.compare and not f.init:
            body += f"{_IND}if not skip_non_compare and not skip_non_init:\\n"
            body += f"{_IND*2}yield self.{f.name}, _fld_{f.name}\\n"
            return

''', "")], "R-FLAGS-TT")
fire("c12_F13_reverted", "C12", [(NODE, '''            if f.name == "id":
                if not skip_id:
                    yield f
                continue
''', '''            if f.name == "id" and skip_id:
                continue
''')], "R-ACCESSOR-SIBLING")
fire("c12_enumerate_from_1", "C12", [(CODEGEN, 'for i, o in enumerate(self.{f.name}):', 'for i, o in enumerate(self.{f.name}, 1):')], "R-ENUM-SHAPE")
fire("c12_sorted_by_reverse", "C12", [(CODEGEN, '''    for f in sorted(props.keys(), key=lambda f: f.name):''', '''    for f in sorted(props.keys(), key=lambda f: f.name, reverse=True):''')], "R-ORDER-KEY")
fire("c12_unsorted_branch_sorted", "C12", [(CODEGEN, '''        for f in child_fields.keys():
            _build_body(f)''', '''        for f in reversed(child_fields.keys()):
            _build_body(f)''')], "R-ORDER-KEY")
fire("c12_wrong_field_var", "C12", [(CODEGEN, '''                body += f"{_IND*2}yield o, _fld_{f.name}, i\\n"''', '''                body += f"{_IND*2}yield o, _fld_{f.name}, None\\n"''')], "R-ENUM-SHAPE")
fire("c12_install_on_base", "C12", [(CODEGEN, "    setattr(clz, new_f.__name__, new_f)", "    setattr(clz.__mro__[1], new_f.__name__, new_f)")], "R-REINSTALL")
fire("c12_no_reinstall", "C12", [(NODE, "        cls.get_child_nodes = gen_and_yield_get_child_nodes  # type: ignore[method-assign]\n", "")], "R-REINSTALL")
fire("c12_origin_follows_compare", "C12", [(CODEGEN, '''        if f.name == "origin":
            body += f"{_IND}if not skip_origin:\\n"''', '''        if f.name == "origin":
            body += f"{_IND}if not skip_origin and not skip_non_init:\\n"''')], "R-FLAGS-TT")
silent("c12_guard_equivalent_form", "C12", [(CODEGEN, '''                body += f"{_IND}if self.{f.name} is not None:\\n"
                body += f"{_IND*2}yield self.{f.name}\\n"
''', '''                body += f"{_IND}if not (self.{f.name} is None):\\n"
                body += f"{_IND*2}yield self.{f.name}\\n"
''')])
silent("c12_flags_demorgan", "C12", [(CODEGEN, 'body += f"{_IND}if not skip_non_compare and not skip_non_init:\\n"', 'body += f"{_IND}if not (skip_non_compare or skip_non_init):\\n"')])

# ---------------------------------------------------------------- C05
_DFS_LOOP_REV = '''            children_info = list(child_info.node.get_child_nodes_with_field())

            if not bottom_up:
                children_info.reverse()
'''
fire("c05_no_reverse_in_loop", "C05", [(NODE, _DFS_LOOP_REV, '''            children_info = list(child_info.node.get_child_nodes_with_field())
''')], "R-WORKLIST")
fire("c05_dfs_fifo", "C05", [(NODE, "            child_info = build_stack.pop()\n", "            child_info = build_stack.pop(0)\n")], "R-WORKLIST")
fire("c05_bfs_lifo", "C05", [(NODE, "            child = queue.popleft()\n", "            child = queue.pop()\n")], "R-WORKLIST")
fire("c05_appender_swapped", "C05", [(NODE, '''        if bottom_up:
            appender = yield_queue.appendleft
        else:
            appender = yield_queue.append
''', '''        if bottom_up:
            appender = yield_queue.append
        else:
            appender = yield_queue.appendleft
''')], "R-WORKLIST")
fire("c05_seed_not_reversed", "C05", [(NODE, '''        children_info = list(self.get_child_nodes_with_field())

        if not bottom_up:
            children_info.reverse()
''', '''        children_info = list(self.get_child_nodes_with_field())
''')], "R-WORKLIST")
fire("c05_wrong_parent_in_record", "C05", [(NODE, "                build_stack.append(NodeTraversalInfo(c, child_info.node, f, i))", "                build_stack.append(NodeTraversalInfo(c, self, f, i))")], "R-WORKLIST")
fire("c05_bfs_wrong_parent", "C05", [(NODE, '''                NodeTraversalInfo(c, child.node, f, i)
                for c, f, i in child.node.get_child_nodes_with_field()''', '''                NodeTraversalInfo(c, child.parent, f, i)
                for c, f, i in child.node.get_child_nodes_with_field()''')], "R-WORKLIST")
fire("c05_prune_before_filter", "C05", [(NODE, '''            if filter is None or filter(child_info):
                appender(child_info)

            if prune and prune(child_info):
                continue
''', '''            if prune and prune(child_info):
                continue

            if filter is None or filter(child_info):
                appender(child_info)
''')], "R-CTRLDEP")
fire("c05_filter_stops_descent", "C05", [(NODE, '''            if filter is None or filter(child):
                yield child

            if prune and prune(child):
                continue
''', '''            if filter is None or filter(child):
                yield child
            else:
                continue

            if prune and prune(child):
                continue
''')], "R-CTRLDEP")
fire("c05_prune_inverted", "C05", [(NODE, '''            if prune and prune(child):
                continue

            # Walk through children''', '''            if prune and not prune(child):
                continue

            # Walk through children''')], "R-CTRLDEP")
fire("c05_bfs_yields_parent", "C05", [(NODE, '''            if filter is None or filter(child):
                yield child
''', '''            if filter is None or filter(child):
                yield child._replace(node=child.parent)
''')], "R-CTRLDEP")
fire("c05_sorted_children_in_bfs", "C05", [(NODE, '''                for c, f, i in child.node.get_child_nodes_with_field()
            )''', '''                for c, f, i in child.node.get_child_nodes_with_field(sort_keys=True)
            )''')])
fire("c05_gather_exact_ignored", "C05", [(NODE, '''                return type(node_info.node) in obj_classes and (''', '''                return isinstance(node_info.node, obj_classes) and (''')], "R-GATHER")
fire("c05_gather_extra_filter_or", "C05", [(NODE, '''                return isinstance(node_info.node, obj_classes) and (
                    extra_filter is None or extra_filter(node_info)
                )''', '''                return isinstance(node_info.node, obj_classes) or (
                    extra_filter is None or extra_filter(node_info)
                )''')], "R-GATHER")
fire("c05_gather_bottom_up", "C05", [(NODE, "self.dfs(prune=prune, filter=filter_fn, bottom_up=False)", "self.dfs(prune=prune, filter=filter_fn, bottom_up=True)")], "R-GATHER")
fire("c05_gather_drops_prune", "C05", [(NODE, "self.dfs(prune=prune, filter=filter_fn, bottom_up=False)", "self.dfs(filter=filter_fn, bottom_up=False)")], "R-GATHER")
silent("c05_equivalent_rewrites", "C05", [(NODE, _DFS_LOOP_REV + '''
            for c, f, i in children_info:
                build_stack.append(NodeTraversalInfo(c, child_info.node, f, i))
''', '''            kids = list(child_info.node.get_child_nodes_with_field())

            if not bottom_up:
                kids = list(reversed(kids))

            for c, f, i in kids:
                build_stack.append(NodeTraversalInfo(c, child_info.node, f, i))
'''), (NODE, "        while build_stack:\n", "        while len(build_stack) > 0:\n")])
silent("c05_prune_is_not_none", "C05", [(NODE, '''            if prune and prune(child_info):
                continue
''', '''            if prune is not None and prune(child_info):
                continue
''')])

# ---------------------------------------------------------------- C01
fire("c01_cid_drop_class", "C01", [(NODE, "        cid_data = self.__class__.__name__ + cid_data\n", "        cid_data = \"\" + cid_data\n")], "R-DIGEST-DEP")
fire("c01_cid_child_unordered", "C01", [(NODE, '''            cid_data += f":{f.name}[{resolved_index}]="
            cid_data += f"{c.content_id}"
''', '''            cid_data += f":{f.name}[]="
            cid_data += f"{c.content_id}"
''')], "R-DIGEST-DEP")
fire("c01_cid_fname_initial", "C01", [(NODE, '''            cid_data += f":{f.name}="
''', '''            cid_data += f":{f.name[0]}="
''')], "R-DIGEST-DEP")
fire("c01_cid_truncate_val", "C01", [(NODE, '''            cid_data += f"{type(val)}({val!s})"
''', '''            cid_data += f"{type(val)}({val!s:.32})"
''')], "R-DIGEST-DEP")
fire("c01_cid_truncate_val_slice", "C01", [(NODE, '''            cid_data += f"{type(val)}({val!s})"
''', '''            cid_data += f"{type(val)}({str(val)[:64]})"
''')], "R-DIGEST-DEP")
fire("c01_cid_no_type_tag", "C01", [(NODE, '''            cid_data += f"{type(val)}({val!s})"
''', '''            cid_data += f"({val!s})"
''')], "R-DIGEST-DEP")
fire("c01_cid_includes_origin", "C01", [(NODE, "        cid_data = self.__class__.__name__ + cid_data\n", "        cid_data = self.__class__.__name__ + self.origin.fqn + cid_data\n")], "R-DIGEST-DEP")
fire("c01_cid_noncompare_included", "C01", [(NODE, '''            skip_content_id=True,
            skip_non_compare=True,
            sort_keys=True,
        ):
            cid_data += f":{f.name}="''', '''            skip_content_id=True,
            skip_non_compare=False,
            sort_keys=True,
        ):
            cid_data += f":{f.name}="''')], "R-DIGEST-DEP")
fire("c01_cid_unsorted_children", "C01", [(NODE, "        for c, f, i in self.get_child_nodes_with_field(sort_keys=True):\n            resolved_index", "        for c, f, i in self.get_child_nodes_with_field():\n            resolved_index")], "R-DIGEST-DEP")
fire("c01_cid_index_or_1", "C01", [(NODE, "            resolved_index = i or -1\n", "            resolved_index = i or 1\n")], "R-DIGEST-DEP")
fire("c01_cid_child_id_instead", "C01", [(NODE, '''            cid_data += f"{c.content_id}"
''', '''            cid_data += f"{c.id}"
''')], "R-DIGEST-DEP")
fire("c01_isequal_isinstance", "C01", [(NODE, "        if type(other) is not type(self):\n            return False\n", "        if not isinstance(other, type(self)):\n            return False\n")], "R-ISEQUAL-FORM")
fire("c01_isequal_no_type", "C01", [(NODE, "        if type(other) is not type(self):\n            return False\n\n        return self.content_id", "        return self.content_id")], "R-ISEQUAL-FORM")
fire("c01_second_cid_write", "C01", [(NODE, "        return new_node\n", "        object.__setattr__(new_node, \"content_id\", self.content_id)\n        return new_node\n")], "R-CID-WRITE-ONCE")
silent("c01_equivalent_forms", "C01", [(NODE, '''            cid_data += f":{f.name}="
            cid_data += f"{type(val)}({val!s})"
''', '''            cid_data = cid_data + ":" + str(f.name) + "=" + f"{type(val)}" + "(" + str(val) + ")"
'''), (NODE, "        if type(other) is not type(self):\n            return False\n", "        if not (type(self) is type(other)):\n            return False\n")])

# ---------------------------------------------------------------- C02
fire("c02_eq_children_only_direct", "C02", [(NODE, "            for si, oi in zip(self.dfs(), other.dfs(), strict=True):\n                if si.node.origin != oi.node.origin:",
      "            for si, oi in zip(self.get_child_nodes_with_field(), other.get_child_nodes_with_field(), strict=True):\n                if si[0].origin != oi[0].origin:")], "R-FULLTRAV")
fire("c02_eq_pruned_traversal", "C02", [(NODE, "zip(self.dfs(), other.dfs(), strict=True)", "zip(self.dfs(prune=lambda n: True), other.dfs(prune=lambda n: True), strict=True)")], "R-FULLTRAV")
fire("c02_eq_no_root_origin", "C02", [(NODE, "        if self.content_id == other.content_id and self.origin == other.origin:", "        if self.content_id == other.content_id:")], "R-EQ-FORM")
fire("c02_eq_isinstance", "C02", [(NODE, "    if other.__class__ is self.__class__:\n        if self.content_id", "    if isinstance(other, self.__class__):\n        if self.content_id")], "R-EQ-FORM")
fire("c02_eq_origin_identity", "C02", [(NODE, "                if si.node.origin != oi.node.origin:", "                if si.node.origin is not oi.node.origin:")], "R-EQ-FORM")
fire("c02_eq_reads_other_first", "C02", [(NODE, "    if other.__class__ is self.__class__:\n        if self.content_id == other.content_id and self.origin == other.origin:",
      "    if self.content_id == other.content_id and other.__class__ is self.__class__:\n        if self.origin == other.origin:")], "R-EQ-FORM")
fire("c02_eq_loop_polarity", "C02", [(NODE, "                if si.node.origin != oi.node.origin:\n                    return False", "                if si.node.origin == oi.node.origin:\n                    return False")], "R-EQ-FORM")
fire("c02_hash_content", "C02", [(NODE, "    return hash(node.id)", "    return hash(node.content_id)")], "R-HASH-CONST")
fire("c02_no_eq_install", "C02", [(NODE, "        cls.__eq__ = _eq_fn  # type: ignore[assignment]\n", "")], "R-EQ-INSTALL")
fire("c02_origin_custom_eq", "C02", [(ORIGIN, "    def get_raw(self) -> str | None:\n        \"\"\"Returns the code chunk inside this range.\"\"\"", "    def __eq__(self, other: object) -> bool:\n        return isinstance(other, CodeOrigin) and self.source == other.source\n\n    def get_raw(self) -> str | None:\n        \"\"\"Returns the code chunk inside this range.\"\"\"")], "R-ORIGIN-EQ")
silent("c02_equivalent", "C02", [(NODE, '''    if other.__class__ is self.__class__:
        if self.content_id == other.content_id and self.origin == other.origin:
            # If content matches and origin matches, we only need to check
            # children origins. Content is guaranteed to be the same
            for si, oi in zip(self.dfs(), other.dfs(), strict=True):
                if si.node.origin != oi.node.origin:
                    return False

            return True

    return False
''', '''    if type(self) is not type(other):
        return False
    if self.content_id != other.content_id:
        return False
    if not (self.origin == other.origin):
        return False
    for a, b in zip(self.bfs(), other.bfs()):
        if not (a.node.origin == b.node.origin):
            return False
    return True
''')])

# ---------------------------------------------------------------- C03 / C14
fire("c03_detach_direct_only", "C03", [(NODE, "        for ni in self.dfs():\n            _unregister(ni.node)\n", "        for c in self.get_child_nodes():\n            _unregister(c)\n")], "R-DETACH-ALL")
fire("c03_F04_reverted_helper", ["C03", "C14"], [(NODE, '''    if NODE_REGISTRY.get(node.id) is node:
        del NODE_REGISTRY[node.id]
        return True

    return False
''', '''    return NODE_REGISTRY.pop(node.id, None) is not None
''')], "R-REG-IDENT")
fire("c03_replace_no_restore", ["C03", "C14"], [(NODE, '''            if ori_n is not None:
                NODE_REGISTRY[ori_n.id] = ori_n

            raise e
''', '''            raise e
''')], "R-REG-PAIR")
fire("c03_replace_narrow_except", "C03", [(NODE, "            new_node = replace(self, **kwargs)\n        except Exception as e:", "            new_node = replace(self, **kwargs)\n        except ValueError as e:")], "R-REG-PAIR")
fire("c03_replace_restores_on_success", "C03", [(NODE, '''            raise e

        return new_node
''', '''            raise e

        if ori_n is not None:
            NODE_REGISTRY[ori_n.id] = ori_n
        return new_node
''')])
fire("c03_register_without_freshness", "C03", [(NODE, '''        if new_id in NODE_REGISTRY:
            # Node with the same ID already exists
            # This may mean two things:
            # 1. The same node (equality wise) is already in the registry
            # 2. Hash collision
            # In either case, we need to generate a new ID
            new_id = _get_next_unique_id(new_id)
''', '')], "R-REG-FRESH")
fire("c03_unique_id_loop_broken", "C03", [(NODE, "    while NODE_REGISTRY.get(id_) is not None:", "    while NODE_REGISTRY.get(original_id) is None:")], "R-REG-FRESH")
fire("c03_strong_cache", "C03", [(NODE, "NODE_REGISTRY: weakref.WeakValueDictionary[str, ASTNode] = weakref.WeakValueDictionary()", "NODE_REGISTRY: dict[str, ASTNode] = {}")], "R-REG-WEAK")
fire("c03_strong_side_cache", "C03", [(NODE, "        # Register in the registry\n        NODE_REGISTRY[new_id] = self\n", "        # Register in the registry\n        NODE_REGISTRY[new_id] = self\n        _ALL.append(self)\n"), (NODE, "def _get_next_unique_id(", "_ALL: list = []\n\n\ndef _get_next_unique_id(")], "R-REG-WEAK")
fire("c03_foreign_registry_writer", "C03", [(TREE, "        self._root = root\n", "        self._root = root\n        from .node import NODE_REGISTRY\n        NODE_REGISTRY.pop(root.id, None)\n")], "R-REG-OWN")
fire("c03_id_counter", "C03", [(NODE, '        id_data = f"{self.__class__.__name__}@{self.origin.fqn}{cid_data}"', '        id_data = f"{self.__class__.__name__}@{self.origin.fqn}{id(self)}{cid_data}"')], "R-ID-DET")
fire("c03_id_without_origin", "C03", [(NODE, '        id_data = f"{self.__class__.__name__}@{self.origin.fqn}{cid_data}"', '        id_data = f"{self.__class__.__name__}@{cid_data}"')], "R-ID-DET")
fire("c03_get_strict_ignored", "C03", [(NODE, "        elif strict and not type(ret) == cls:\n            return default\n        elif not strict and not isinstance(ret, cls):", "        elif not isinstance(ret, cls):")], "R-GET-FORM")
fire("c03_get_returns_none_not_default", "C03", [(NODE, "        if ret is None:\n            return default\n        elif strict", "        if ret is None:\n            return None\n        elif strict")], "R-GET-FORM")
silent("c03_equivalent_guard", ["C03", "C14"], [(NODE, '''    if NODE_REGISTRY.get(node.id) is node:
        del NODE_REGISTRY[node.id]
        return True

    return False
''', '''    if not (NODE_REGISTRY.get(node.id) is node):
        return False
    NODE_REGISTRY.pop(node.id)
    return True
''')])
fire("c14_duplicate_shallow_tuple", "C14", [(NODE, "                changes[f.name] = tuple(c.duplicate() for c in obj)", "                changes[f.name] = tuple(c for c in obj)")], "R-DUP-SANITIZE")
fire("c14_duplicate_no_tuple_branch", "C14", [(NODE, "            elif isinstance(obj, tuple):\n                changes[f.name] = tuple(c.duplicate() for c in obj)\n", "")], "R-DUP-SANITIZE")
fire("c14_replace_no_unregister", "C14", [(NODE, "        ori_n = self if _unregister(self) else None\n", "        ori_n = None\n")])
fire("c14_duplicate_detaches_original", "C14", [(NODE, "        changes: dict[str, Any] = {}\n        for obj, f in self.iter_child_fields():", "        _unregister(self)\n        changes: dict[str, Any] = {}\n        for obj, f in self.iter_child_fields():")], "R-REPLACE-FORM")

# ---------------------------------------------------------------- C15
fire("c15_origin_contains", "C15", [(ORIGIN, "        return self.start <= other.start and other.end <= self.end", "        return self.start <= other.start")], "R-INTERVAL-LAWS")
fire("c15_overlap_strict", "C15", [(ORIGIN, "        return self.end >= other.start and self.start <= other.end", "        return self.end > other.start and self.start < other.end")], "R-INTERVAL-LAWS")
fire("c15_hull_min_end", "C15", [(ORIGIN, "CodeRange(start=min(self.start, other.start), end=max(self.end, other.end))", "CodeRange(start=min(self.start, other.start), end=max(self.start, other.end))")], "R-INTERVAL-LAWS")
fire("c15_lt_le", "C15", [(ORIGIN, "        return self.end < other.start\n", "        return self.end <= other.start\n")], "R-INTERVAL-LAWS")
fire("c15_ctor_guard_off", "C15", [(ORIGIN, "        if self.start > self.end:\n            raise ValueError", "        if self.start >= self.end:\n            raise ValueError")], "R-INTERVAL-LAWS")
fire("c15_point_guard", "C15", [(ORIGIN, "        if self.line < 1:", "        if self.line < 0:")], "R-INTERVAL-LAWS")
fire("c15_point_lt_by_line", "C15", [(ORIGIN, "        return self.index < other.index", "        return self.line < other.line")])
fire("c15_add_ignores_source", "C15", [(ORIGIN, "        if self.source != other.source or not self.position.overlaps(other.position):", "        if not self.position.overlaps(other.position):")], "R-ADD-FORM")
fire("c15_add_other_source", "C15", [(ORIGIN, "        return CodeOrigin(source=self.source, position=self.position + other.position)", "        return CodeOrigin(source=other.source, position=self.position)")], "R-ADD-FORM")
fire("c15_merge_keeps_noorigin", "C15", [(ORIGIN, "        if isinstance(origin, NoOrigin):\n            continue\n        elif isinstance(origin, MultiOrigin):", "        if isinstance(origin, MultiOrigin):")], "R-MERGE-FLAT")
fire("c15_merge_nests", "C15", [(ORIGIN, "            new_origins.extend(origin.origins)", "            new_origins.append(origin)")], "R-MERGE-FLAT")
fire("c15_merge_single_wrapped", "C15", [(ORIGIN, "    if len(new_origins) == 1:\n        return new_origins[0]\n", "")], "R-MERGE-FLAT")
fire("c15_multi_sorted_sources", "C15", [(ORIGIN, "SourceSet(tuple([origin.source for origin in self.origins]))", "SourceSet(tuple(sorted([origin.source for origin in self.origins], key=str)))")], "R-MERGE-FLAT")
fire("c15_slice_off_by_one", "C15", [(ORIGIN, "code[self.position.start.index : self.position.end.index]", "code[self.position.start.index : self.position.end.index + 1]")], "R-SLICE")
fire("c15_foreign_multiorigin", "C15", [(ORIGIN, "        return merge_origins(self, other)\n", "        if isinstance(other, MultiOrigin):\n            return MultiOrigin(origins=[self, other])\n        return merge_origins(self, other)\n")])
silent("c15_equivalent", "C15", [(ORIGIN, "        return self.start <= other.start and other.end <= self.end", "        return not (other.start < self.start) and not (self.end < other.end)"),
                                  (ORIGIN, "        return self.end >= other.start and self.start <= other.end", "        return other.start <= self.end and other.end >= self.start")])

# ---------------------------------------------------------------- C13
fire("c13_F14_reverted", "C13", [(TYPING, "    if type_ is int and (value is True or value is False):", "    if type_ is int and value is True or value is False:")], "R-BOOLGUARD-TT")
fire("c13_guard_only_true", "C13", [(TYPING, "    if type_ is int and (value is True or value is False):", "    if type_ is int and value is True:")], "R-BOOLGUARD-TT")
fire("c13_guard_removed", "C13", [(TYPING, "    if type_ is int and (value is True or value is False):\n        return False\n", "")], "R-BOOLGUARD-TT")
fire("c13_typing_tuple_len", "C13", [(TYPING, "                if len(args) != len(value):\n                    return False\n", "")], "R-ZIPGUARD")
fire("c13_tuple_len_le", "C13", [(TYPING, "                if len(args) != len(value):", "                if len(args) > len(value):")], "R-ZIPGUARD")
fire("c13_gate_inverted", "C13", [(NODE, "        if config.RUNTIME_TYPE_CHECK:\n            incorrect_fields", "        if not config.RUNTIME_TYPE_CHECK:\n            incorrect_fields")], "R-GATE")
fire("c13_gate_skips_noninit", "C13", [(NODE, '                    if f.name not in ("id", "content_id")\n', '                    if f.name not in ("id", "content_id") and f.init\n')], "R-GATE")
fire("c13_check_inverted", "C13", [(NODE, "        if not is_instance(val, type_info.resolved_type):\n            incorrect_fields.append(f)", "        if is_instance(val, type_info.resolved_type):\n            incorrect_fields.append(f)")], "R-GATE")
fire("c13_gate_side_effect", "C13", [(NODE, "            if incorrect_fields:\n                raise InvalidTypes(incorrect_fields)\n", "            if incorrect_fields:\n                raise InvalidTypes(incorrect_fields)\n            object.__setattr__(self, \"_checked\", True)\n")], "R-GATE")
silent("c13_guard_isinstance_form", "C13", [(TYPING, "    if type_ is int and (value is True or value is False):", "    if isinstance(value, bool) and type_ is int:")])

# ---------------------------------------------------------------- C09
fire("c09_vis_strict_ignored", "C09", [(NODE, "        if visitor.strict:\n            visitor_method = getattr(visitor, f\"visit_{self.__class__.__name__}\", None)\n        else:\n            mro = getmro(self.__class__)", "        if False:\n            visitor_method = getattr(visitor, f\"visit_{self.__class__.__name__}\", None)\n        else:\n            mro = getmro(self.__class__)")], "R-DISPATCH")
fire("c09_mro_reversed", "C09", [(NODE, "            for _class in mro[:-1]:", "            for _class in reversed(mro[:-1]):")], "R-DISPATCH")
fire("c09_mro_no_break", "C09", [(NODE, "                if visitor_method is not None:\n                    break\n", "                if visitor_method is not None:\n                    pass\n")], "R-DISPATCH")
fire("c09_strict_walks_base", "C09", [(NODE, '            visitor_method = getattr(visitor, f"visit_{self.__class__.__name__}", None)\n        else:', '            visitor_method = getattr(visitor, f"visit_{self.__class__.__base__.__name__}", None)\n        else:')], "R-DISPATCH")
fire("c09_tr_removed_not_marked", "C09", [(VISITOR, "                else:\n                    # Removed child, mark as changed field\n                    field_names_with_changes.add(fname)\n", "")], "R-TRANSFORM-PATH")
fire("c09_tr_eq_instead_of_is", "C09", [(VISITOR, "                    if new_child is not child:\n                        # New child, mark as changed field\n                        field_names_with_changes.add(fname)\n                else:", "                    if new_child != child:\n                        # New child, mark as changed field\n                        field_names_with_changes.add(fname)\n                else:")], "R-TRANSFORM-PATH")
fire("c09_tr_single_not_marked", "C09", [(VISITOR, "                changes[fname] = new_child\n\n                if new_child is not child:\n                    # New child, mark as changed field\n                    field_names_with_changes.add(fname)\n", "                changes[fname] = new_child\n")], "R-TRANSFORM-PATH")
fire("c09_tr_keeps_unmarked", "C09", [(VISITOR, "        changes = {fname: changes[fname] for fname in field_names_with_changes}\n", "")], "R-TRANSFORM-PATH")
fire("c09_generic_visit_copies", "C09", [(VISITOR, "        if not changes:\n            return node\n", "")], "R-IDENT-RETURN")
silent("c09_equivalent", "C09", [(VISITOR, "        if not changes:\n            return node\n\n        # Return a new node with the changes\n        return replace(node, **changes)", "        if changes:\n            return replace(node, **changes)\n        return node")])

# ---------------------------------------------------------------- C07
fire("c07_F05_reverted", "C07", [(XPATH, '        return int("".join(args))\n', "        return int(args[0])\n")], "R-GRAM-ARITY")
fire("c07_F06_reverted", "C07", [(XPATH, "                        c_info = _as_root(d_info)\n", "                        c_info = d_info\n")], "R-XP-ROOT")
fire("c07_F06_reverted2", "C07", [(XPATH, "                        c_info = _as_root(NodeTraversalInfo(c, n_info.node, f, i))", "                        c_info = NodeTraversalInfo(c, n_info.node, f, i)")], "R-XP-ROOT")
fire("c07_pred_ignores_index", "C07", [(XPATH, "        and (element.parent_index is None or element.parent_index == n_info.findex)\n", "")], "R-XP-SHARED")
fire("c07_pred_field_or", "C07", [(XPATH, "            or (n_info.field is not None and element.parent_field == n_info.field.name)", "            or (n_info.field is None or element.parent_field == n_info.field.name)")], "R-XP-SHARED")
fire("c07_pred_exact_type", "C07", [(XPATH, "        isinstance(n_info.node, element.ast_class)\n", "        type(n_info.node) is element.ast_class\n")], "R-XP-SHARED")
fire("c07_anywhere_direct_children", "C07", [(XPATH, "                    for d_info in n_info.node.dfs():", "                    for d_info in n_info.node.bfs(prune=lambda x: True):")], "R-XP-ANYWHERE")
fire("c07_match_last_ignores_root", "C07", [(XPATH, "        return element.anywhere or c_parent is None\n", "        return True\n")], "R-XP-ANYWHERE")
fire("c07_match_anywhere_only_parent", "C07", [(XPATH, '''        for ancestor in tree.get_ancestors(node):
            if _match_node_xpath(tree, ancestor, tail):
                return True
''', '''        return _match_node_xpath(tree, c_parent, tail)
''')], "R-XP-ANYWHERE")
fire("c07_match_direct_uses_ancestors", "C07", [(XPATH, "        return _match_node_xpath(tree, c_parent, tail)\n\n    # No match", "        return any(_match_node_xpath(tree, a, tail) for a in tree.get_ancestors(node))\n\n    # No match")], "R-XP-ANYWHERE")
fire("c07_find_last", "C07", [(NODE, "            return next(xpath.findall(self))\n", "            return list(xpath.findall(self))[-1]\n")], "R-XP-FIND")
silent("c07_equivalent_pred", "C07", [(XPATH, '''    if (
        isinstance(n_info.node, element.ast_class)
        and (
            element.parent_field is None
            or (n_info.field is not None and element.parent_field == n_info.field.name)
        )
        and (element.parent_index is None or element.parent_index == n_info.findex)
    ):
        return True

    return False
''', '''    if not isinstance(n_info.node, element.ast_class):
        return False
    if element.parent_field is not None:
        if n_info.field is None or n_info.field.name != element.parent_field:
            return False
    return element.parent_index is None or n_info.findex == element.parent_index
''')])

# ---------------------------------------------------------------- C08
fire("c08_pat_regex_search", "C08", [(PATTERN, "        if self.pattern.match(str(value)) is not None:", "        if self.pattern.search(str(value)) is not None:")], "R-API-RE")
fire("c08_pat_regex_fullmatch", "C08", [(PATTERN, "        if self.pattern.match(str(value)) is not None:", "        if self.pattern.fullmatch(str(value)) is not None:")], "R-API-RE")
fire("c08_pat_var_eq", "C08", [(PATTERN, '''        if isinstance(var_value, ASTNode):
            # Using content based equality for ASTNodes
            return (var_value.is_equal(value), {})

''', "")], "R-NODE-EQ")
fire("c08_pat_value_eq", "C08", [(PATTERN, "            return (self.value.is_equal(value), {})", "            return (self.value == value, {})")], "R-NODE-EQ")
fire("c08_pat_seq_no_len", "C08", [(PATTERN, '''        if (not any_tail and len(value) != len(self.matchers)) or (
            any_tail and len(value) < len(self.matchers)
        ):
            return (False, {})
''', "")], "R-ZIPGUARD")
fire("c08_F07_reverted", "C08", [(PATTERN, "any_tail and len(value) < len(self.matchers)\n", "any_tail and len(value) < len(self.matchers) - 1\n")], "R-ZIPGUARD")
fire("c08_seq_no_tail_ge", "C08", [(PATTERN, "not any_tail and len(value) != len(self.matchers)", "not any_tail and len(value) < len(self.matchers)")], "R-ZIPGUARD")
fire("c08_pat_types_subclass", "C08", [(PATTERN, "        if not isinstance(value, self.types):", "        if not isinstance(value, self.types[0]):")], "R-TYPES-ALL")
fire("c08_types_exact", "C08", [(PATTERN, "        if not isinstance(value, self.types):", "        if type(value) not in self.types:")], "R-TYPES-ALL")
fire("c08_capture_copy", "C08", [(PATTERN, "        return (True, {self.name: value, **new_vars})", "        return (True, {self.name: str(value), **new_vars})")], "R-CAPTURE")
fire("c08_failure_keeps_captures", "C08", [(PATTERN, "        if not ok:\n            return (False, {})\n\n        if self.name is None:", "        if not ok:\n            return (False, new_vars)\n\n        if self.name is None:")], "R-CAPTURE")
fire("c08_tail_slice_off", "C08", [(PATTERN, "self.tail_matcher.match(value[len(self.matchers) :], local_ctx)", "self.tail_matcher.match(value[len(self.matchers) + 1 :], local_ctx)")], "R-CAPTURE")
fire("c08_F08_reverted", "C08", [(PATTERN, '''class AnyMatcher(BaseMatcher):
    def _match''', '''class AnyMatcher(BaseMatcher):
    _instance: t_ClassVar[AnyMatcher | None] = None

    def __new__(cls, *args: Any, **kwargs: Any) -> AnyMatcher:
        if cls._instance is None:
            cls._instance = object.__new__(cls)
        return cls._instance

    def _match'''), (PATTERN, "from typing import (\n", "from typing import ClassVar as t_ClassVar\nfrom typing import (\n")], "R-SINGLETON-STATE")
fire("c08_F09_reverted", "C08", [(PATTERN, "    tail_matcher: AnyMatcher | None = field(default=None, kw_only=True)", "    tail_matcher: AnyMatcher | None = field(default=None, init=False)")], "R-POSTINIT-IDEMP")
fire("c08_match_stateful", "C08", [(PATTERN, "        if not isinstance(value, self.types):\n            return (False, {})\n", "        if not isinstance(value, self.types):\n            return (False, {})\n        ctx.update({\"_last\": value})\n")], "R-PURE-MATCH")
fire("c08_cache_failed", "C08", [(PATTERN, "        except ASTPatternDefinitionError as e:\n            return None, e.message\n        except Exception as e:\n            if logger.isEnabledFor(logging.DEBUG):\n                logger.debug(f\"Unexpected error during pattern definition grammar generation: {e}\")\n            return None, \"Incorrect pattern definition. Unexpected error\"\n\n        _MATCHER_CACHE",
      "        except ASTPatternDefinitionError as e:\n            matcher = None  # type: ignore\n        except Exception as e:\n            if logger.isEnabledFor(logging.DEBUG):\n                logger.debug(f\"Unexpected error during pattern definition grammar generation: {e}\")\n            return None, \"Incorrect pattern definition. Unexpected error\"\n\n        _MATCHER_CACHE")], "R-PURE-MATCH")
fire("c08_multi_last_match", "C08", [(PATTERN, "            if ok:\n                return rule, capture_dict\n\n        return None", "            if ok:\n                res = (rule, capture_dict)\n\n        return res")], "R-MULTI-ORDER")
silent("c08_equivalent", "C08", [(PATTERN, '''        if (not any_tail and len(value) != len(self.matchers)) or (
            any_tail and len(value) < len(self.matchers)
        ):
            return (False, {})
''', '''        if any_tail:
            if len(self.matchers) > len(value):
                return (False, {})
        elif len(value) != len(self.matchers):
            return (False, {})
''')])

# ---------------------------------------------------------------- C17
fire("c17_xpath_no_catch_all", "C17", [(XPATH, "        except Exception as e:\n            raise ASTXpathDefinitionError(\"Incorrect xpath definition\") from e\n", "")], "R-EXC-ESCAPE")
fire("c17_xpath_parse_outside_try", "C17", [(XPATH, "        try:\n            # Reversed list used for matching from the node UP to the root\n            self._elements_reversed = cast(", "        xpath_parser.parse(xpath)\n        try:\n            # Reversed list used for matching from the node UP to the root\n            self._elements_reversed = cast(")], "R-EXC-ESCAPE")
fire("c17_from_pattern_no_catch_all", "C17", [(PATTERN, '''        except ASTPatternDefinitionError as e:
            return None, e.message
        except Exception as e:
            if logger.isEnabledFor(logging.DEBUG):
                logger.debug(f"Unexpected error during pattern definition grammar generation: {e}")
            return None, "Incorrect pattern definition. Unexpected error"

        _MATCHER_CACHE''', '''        except ASTPatternDefinitionError as e:
            return None, e.message

        _MATCHER_CACHE''')], "R-EXC-ESCAPE")
fire("c17_validate_reraises", "C17", [(PATTERN, '''    except ASTPatternDefinitionError as e:
        return False, e.message
    except Exception as e:
        if logger.isEnabledFor(logging.DEBUG):
            logger.debug(f"Unexpected error during pattern definition grammar generation: {e}")
        return False, "Incorrect pattern definition. Unexpected error"
''', '''    except ASTPatternDefinitionError as e:
        return False, e.message
    except Exception as e:
        if logger.isEnabledFor(logging.DEBUG):
            logger.debug(f"Unexpected error during pattern definition grammar generation: {e}")
        raise
''')], "R-EXC-ESCAPE")
fire("c17_multi_wrong_error", "C17", [(PATTERN, '            raise ASTPatternDefinitionError("Pattern names must be unique")', '            raise ValueError("Pattern names must be unique")')], "R-EXC-ESCAPE")
fire("c17_sibling_diverge", "C17", [(PATTERN, '''    except ASTPatternDefinitionError as e:
        return False, e.message
''', '''    except ASTPatternDefinitionError as e:
        return True, e.message
''')], "R-ENTRY-SIBLING")
fire("c17_grammar_new_rule", "C17", [("src/pyoak/match/grammar.py", 'value: tree | var | NONE | ESCAPED_STRING', 'value: tree | var | NONE | ESCAPED_STRING | neg\n\nneg: "!" value')], "R-GRAM-EXH")
fire("c17_no_ws_ignore", "C17", [("src/pyoak/match/grammar.py", "%ignore WS\n", "")], "R-WS")
silent("c17_baseexception", "C17", [(XPATH, "        except Exception as e:\n            raise ASTXpathDefinitionError(\"Incorrect xpath definition\") from e\n", "        except BaseException as err:\n            raise ASTXpathDefinitionError(\"Incorrect xpath definition\") from err\n")])

# ---------------------------------------------------------------- C06
fire("c06_fill_children_only", "C06", [(TREE, "        for n in root.dfs():", "        for n in root.dfs(prune=lambda i: True):")], "R-TREE-FILL")
fire("c06_parentinfo_swapped", "C06", [(TREE, "ParentInfo(n.parent, n.field, n.findex)", "ParentInfo(n.node, n.field, n.findex)")], "R-TREE-FILL")
fire("c06_xpath_index_from_1", "C06", [(TREE, "[{n.findex or '0'}]", "[{(n.findex or 0) + 1}]")], "R-TREE-FILL")
fire("c06_is_ancestor_eq", "C06", [(TREE, "            if a is ancestor:", "            if a == ancestor:")], "R-TREE-IDENT")
fire("c06_get_parent_eq_root", "C06", [(TREE, "        if node is self._root:\n            return None\n\n        return self._node_to_parent_info[node].parent", "        if node == self._root:\n            return None\n\n        return self._node_to_parent_info[node].parent")], "R-TREE-IDENT")
fire("c06_get_parent_default", "C06", [(TREE, "        return self._node_to_parent_info[node].parent", "        info = self._node_to_parent_info.get(node)\n        return info.parent if info else None")], "R-TREE-RAISE")
fire("c06_depth_no_valueerror", "C06", [(TREE, "        if relative_to is not None and check_ancestor and not self.is_ancestor(node, relative_to):\n            raise ValueError(\"relative_to must be an ancestor of the node\")\n", "")], "R-TREE-RAISE")
fire("c06_ancestors_include_self", "C06", [(TREE, "        parent = self.get_parent(node)\n        while parent is not None:\n            yield parent", "        parent = node\n        while parent is not None:\n            yield parent")], "R-TREE-CHAIN")
fire("c06_first_ancestor_exact_ignored", "C06", [(TREE, "            if exact_type and type(ancestor) in ancestor_classes:\n                return cast(_AT, ancestor)\n\n            if not exact_type and isinstance(ancestor, ancestor_classes):", "            if isinstance(ancestor, ancestor_classes):")], "R-TREE-TYPE")
fire("c06_depth_off_by_one", "C06", [(TREE, "        if parent is None:\n            return 0\n", "        if parent is None:\n            return 1\n")], "R-TREE-RAISE")
silent("c06_equivalent", "C06", [(TREE, "        return self._root is node\n", "        return node is self._root\n")])

# ---------------------------------------------------------------- C04
fire("c04_deser_no_force_id", "C04", [(NODE, '''        if new_obj.id != value["id"]:
            NODE_REGISTRY.pop(new_obj.id)
            object.__setattr__(new_obj, "id", value["id"])
            NODE_REGISTRY[value["id"]] = new_obj

''', "")], "R-DESER-ID")
fire("c04_deser_force_before_pop", "C04", [(NODE, '''            NODE_REGISTRY.pop(new_obj.id)
            object.__setattr__(new_obj, "id", value["id"])
''', '''            object.__setattr__(new_obj, "id", value["id"])
            NODE_REGISTRY.pop(new_obj.id)
''')], "R-DESER-ID")
fire("c04_deser_no_register", "C04", [(NODE, '''            object.__setattr__(new_obj, "id", value["id"])
            NODE_REGISTRY[value["id"]] = new_obj
''', '''            object.__setattr__(new_obj, "id", value["id"])
''')], "R-DESER-ID")
fire("c04_deser_always_new", "C04", [(NODE, "        if existing_node is not None:\n            return existing_node\n", "")], "R-DESER-ID")
fire("c04_tag_key_drift", "C04", [(SER, "        class_name = value.get(TYPE_KEY)", "        class_name = value.get(\"type\")")], "R-TAG-TABLE")
fire("c04_tag_qualname", "C04", [(SER, "        TYPES[cls.__name__] = cls", "        TYPES[cls.__qualname__] = cls")], "R-TAG-TABLE")
fire("c04_unknown_class_fallback", "C04", [(SER, "        if clazz is None:\n            raise ValueError(f\"Unknown class name: {class_name}\")\n", "        if clazz is None:\n            clazz = cls\n")], "R-TAG-TABLE")
fire("c04_noposition_not_restored", "C04", [(ORIGIN, '        if value == {} or (TYPE_KEY in value and value[TYPE_KEY] == "NoPosition"):\n            return NO_POSITION\n', '        if TYPE_KEY in value and value[TYPE_KEY] == "NoPosition":\n            return NO_POSITION\n')], "R-SINGLETON-RT")
fire("c04_nosource_state", "C04", [(ORIGIN, '    source_uri: str = field(default="NoSource", init=False)\n    source_type: str = field(default="NoSource", init=False)', '    source_uri: str = field(default="NoSource")\n    source_type: str = field(default="NoSource", init=False)')], "R-SINGLETON-STATE")
fire("c04_msgpack_raw", "C04", [(SER, "msgpack.unpackb(value, raw=False)", "msgpack.unpackb(value, raw=True)")], "R-FMT-PAIR")
fire("c04_json_dialect_mismatch", "C04", [(SER, '''            orjson.loads(value),
            mashumaro_dialect=OrjsonDialect,''', '''            orjson.loads(value),
            mashumaro_dialect=MessagePackDialect,''')], "R-FMT-PAIR")
fire("c04_idx_tables_diverge", "C04", [(ORIGIN, "            Source._source_idx_to_source[len(Source._sources) - 1] = self", "            Source._source_idx_to_source[len(Source._sources)] = self")], "R-IDX-PAIR")
fire("c04_idx_key_drift", "C04", [(ORIGIN, '        idx = data.get("idx")', '        idx = data.get("index")')], "R-IDX-PAIR")

# ---------------------------------------------------------------- C11
fire("c11_F10_reverted", "C11", [(TYPING, "        f_type = type_hints.get(field.name)\n", "        f_type = field.type\n        if isinstance(f_type, str):\n            f_type = type_hints.get(field.name)\n")], "R-NORMALISE")
fire("c11_invalid_child_becomes_property", "C11", [(TYPING, "                incorrect_fields.append((f.name, res.value, ftype))\n        else:\n            # Property\n            if is_valid_property_type(ftype):", "                props[f] = get_type_info(ftype)\n        else:\n            # Property\n            if is_valid_property_type(ftype):")], "R-ONE-LANDING")
fire("c11_errors_not_raised", "C11", [(TYPING, "    if incorrect_fields:\n        raise InvalidFieldAnnotations(incorrect_fields)\n\n    return child_fields, props", "    return child_fields, props")], "R-ONE-LANDING")
fire("c11_mutable_prop_accepted", "C11", [(TYPING, "            if is_valid_property_type(ftype):\n                props[f] = get_type_info(ftype)\n            else:\n                incorrect_fields.append((f.name, \"A mutable collection in type\", ftype))", "            props[f] = get_type_info(ftype)")], "R-ONE-LANDING")
fire("c11_sibling_polarity", "C11", [(TYPING, "                if res != InvalidTypeReason.OK:\n                    incorrect_fields.append((field_name, res.value, field_type))", "                if res == InvalidTypeReason.OK:\n                    incorrect_fields.append((field_name, res.value, field_type))")], "R-CLASSIFY-SIBLING")
fire("c11_no_definition_check", "C11", [(NODE, "        if not check_annotations(cls, ASTNode) and config.TRACE_LOGGING:", "        if config.TRACE_LOGGING:")], "R-CLASSIFY-SIBLING")
silent("c11_equivalent", "C11", [(TYPING, "                child_fields[f] = FieldTypeInfo(is_tuple(ftype), ftype)\n            else:\n                incorrect_fields.append((f.name, res.value, ftype))", "                child_fields[f] = FieldTypeInfo(is_tuple(ftype), ftype)\n            elif True:\n                incorrect_fields.append((f.name, res.value, ftype))")])

# ---------------------------------------------------------------- C20
fire("c20_F20_reverted", "C20", [(LXPATH, '        return int("".join(args))\n', "        return int(args[0])\n")], "R-GRAM-ARITY")
fire("c20_dfs_no_reverse", "C20", [(LNODE, "                for c in reversed(child.children):\n                    build_queue.appendleft(c)", "                for c in child.children:\n                    build_queue.appendleft(c)")], "R-WORKLIST")
fire("c20_dfs_fifo", "C20", [(LNODE, "            if bottom_up:\n                for c in child.get_child_nodes():\n                    build_queue.appendleft(c)", "            if bottom_up:\n                for c in child.get_child_nodes():\n                    build_queue.append(c)")], "R-WORKLIST")
fire("c20_bfs_lifo", "C20", [(LNODE, "        queue: t.Deque[AwareASTNode] = deque([self])\n\n        while queue:\n            child = queue.popleft()", "        queue: t.Deque[AwareASTNode] = deque([self])\n\n        while queue:\n            child = queue.pop()")], "R-WORKLIST")
fire("c20_skip_self_not_reset", "C20", [(LNODE, "                if prune and prune(child):\n                    continue\n            else:\n                skip_self = False\n\n            # Walk through children\n            queue.extend", "                if prune and prune(child):\n                    continue\n\n            # Walk through children\n            queue.extend")], "R-CTRLDEP")
fire("c20_prune_skips_filter", "C20", [(LNODE, '''            if not skip_self:
                if filter is None or filter(child):
                    yield child

                if prune and prune(child):
                    continue
''', '''            if not skip_self:
                if prune and prune(child):
                    continue

                if filter is None or filter(child):
                    yield child
''')], "R-CTRLDEP")
fire("c20_gather_no_skip_self", "C20", [(LNODE, "self.dfs(prune=prune, filter=filter_fn, bottom_up=False, skip_self=skip_self)", "self.dfs(prune=prune, filter=filter_fn, bottom_up=False)")], "R-GATHER")
fire("c20_xpath_spell_no_index", "C20", [(LNODE, "[{node.parent_index or '0'}]{node.__class__.__name__}\"", "[0]{node.__class__.__name__}\"")], "R-LEG-XPATH-SPELL")
fire("c20_legacy_step_ignores_field", "C20", [(LXPATH, "        and (element.parent_field is None or element.parent_field == c_parent_field)\n", "")], "R-XP-SHARED")
fire("c20_legacy_xpath_escape", "C20", [(LXPATH, "        except Exception as e:\n            raise ASTXpathDefinitionError(\"Incorrect xpath definition\") from e\n", "")], "R-EXC-ESCAPE")

# ---------------------------------------------------------------- C18
fire("c18_F16_reverted", "C18", [(LNODE, "        elif node.parent is self:", "        elif node.parent == self:")], "R-LEG-IDENT")
fire("c18_reset_only_self", "C18", [(LNODE, "        while node is not None:\n            node._set_content_id()\n            node = node.parent", "        if node is not None:\n            node._set_content_id()")], "R-LEG-PROPAGATE")
fire("c18_no_reset_on_removal", "C18", [(LNODE, "        if new is None or old.content_id != new.content_id:\n            self._reset_content_id()", "        if new is not None and old.content_id != new.content_id:\n            self._reset_content_id()")], "R-LEG-PROPAGATE")
fire("c18_no_index_shift", "C18", [(LNODE, "                for c in t.cast(t.Iterable[AwareASTNode], orig_seq[index + 1 :]):\n                    c._set_parent(self, field, t.cast(int, c.parent_index) - 1)\n", "")], "R-LEG-LINK")
fire("c18_attach_wrong_index", "C18", [(LNODE, "            c._set_parent(self, f, i)\n\n        # Now we can safely attach", "            c._set_parent(self, f, None)\n\n        # Now we can safely attach")], "R-LEG-LINK")
fire("c18_detach_keeps_parent", "C18", [(LNODE, "        for c in self.get_child_nodes():\n            c._clear_parent()\n\n            if not only_self:", "        for c in self.get_child_nodes():\n            if not only_self:")], "R-LEG-LINK")
fire("c18_set_parent_object", "C18", [(LNODE, '        object.__setattr__(self, "_parent_index", index)\n\n    def __post_serialize__', '        object.__setattr__(self, "_parent_index", None)\n\n    def __post_serialize__')], "R-LEG-LINK")
fire("c18_digest_includes_origin", "C18", [(LNODE, '        hasher.update(self.__class__.__name__.encode("utf-8"))\n        for val, f in sorted(\n            self.get_properties(\n                skip_id=True,', '        hasher.update(self.__class__.__name__.encode("utf-8"))\n        hasher.update(f":{self.origin.fqn}".encode("utf-8"))\n        for val, f in sorted(\n            self.get_properties(\n                skip_id=True,')], "R-LEG-DIGEST")
fire("c18_digest_no_index", "C18", [(LNODE, '            hasher.update(f":{f.name}[{resolved_index}]=".encode("utf-8"))', '            hasher.update(f":{f.name}=".encode("utf-8"))')], "R-LEG-DIGEST")

# ---------------------------------------------------------------- C19
fire("c19_replace_no_reregister", "C19", [(LNODE, "            if was_attached:\n                AwareASTNode._nodes[self.id] = self\n\n            if cur_parent is not None:\n                assert cur_parent_field is not None\n                self._set_parent(cur_parent, cur_parent_field, cur_parent_index)\n\n            raise e", "            if cur_parent is not None:\n                assert cur_parent_field is not None\n                self._set_parent(cur_parent, cur_parent_field, cur_parent_index)\n\n            raise e")], "R-LEG-ROLLBACK")
fire("c19_replace_no_parent_restore", "C19", [(LNODE, "            if cur_parent is not None:\n                assert cur_parent_field is not None\n                self._set_parent(cur_parent, cur_parent_field, cur_parent_index)\n\n            raise e", "            raise e")], "R-LEG-ROLLBACK")
fire("c19_replace_with_no_reattach", "C19", [(LNODE, "                    assert cur_parent_field is not None\n                    self._set_parent(cur_parent, cur_parent_field, cur_parent_index)\n\n                    self._attach(\"replace\")\n", "                    assert cur_parent_field is not None\n                    self._set_parent(cur_parent, cur_parent_field, cur_parent_index)\n")], "R-LEG-ROLLBACK")
fire("c19_replace_with_effect_before_check", "C19", [(LNODE, "            # Check if the new node is of the same type as the parent expects\n            _, p_type = parent_field_type_info\n", "            # Check if the new node is of the same type as the parent expects\n            _, p_type = parent_field_type_info\n            self._clear_parent()\n")])
fire("c19_transform_detaches_first", "C19", [(LNODE, "            orig_node = node\n            node = node.duplicate(as_detached_clone=True)\n", "            orig_node = node\n            node = node.duplicate(as_detached_clone=True)\n            orig_node.detach()\n")], "R-LEG-ROLLBACK")
fire("c19_replace_narrow_except", "C19", [(LNODE, "                **changes,\n            )\n        except Exception as e:", "                **changes,\n            )\n        except ASTNodeParentCollisionError as e:")], "R-LEG-ROLLBACK")
silent("c19_logging_added", "C19", [(LNODE, "        # remember the parent\n        cur_parent = self.parent\n        cur_parent_field = self.parent_field\n        cur_parent_index = self.parent_index\n        if cur_parent is not None:\n            # If we have a parent, we need to clear it first,", "        # remember the parent\n        cur_parent = self.parent\n        cur_parent_field = self.parent_field\n        cur_parent_index = self.parent_index\n        logger.debug(\"remembered parent\")\n        if cur_parent is not None:\n            # If we have a parent, we need to clear it first,")])

# ---------------------------------------------------------------- later additions (seeded changes, F22-F24)
fire("c13_F22_reverted", "C13", [(TYPING, '''    if is_union(type_):
        # Check the members one by one. isinstance() accepts `X | Y` unions directly,
        # which would let a bool through for `int | None` (but not for Optional[int])
        return any(is_instance(value, t) for t in get_args(type_))

''', "")], "R-UNION-FIRST")
fire("c11_F24_reverted", ["C11", "C05", "C12"], [(TYPING, "                child_fields[f] = FieldTypeInfo(is_tuple(ftype), ftype)", "                child_fields[f] = get_type_info(ftype)")], "R-CHILD-KIND")
fire("c16_F23_reverted", "C16", [(NODE, '''            if not self._get_serialization_options().get(SerializationOption.SKIP_CLASS, False):
                # No type tags at any level when they are suppressed
                source_stub = {TYPE_KEY: "Source", **source_stub}
''', '''            source_stub = {TYPE_KEY: "Source", **source_stub}
''')], "R-TAG-FIRST")
fire("c16_stub_unsorted", "C16", [(NODE, 'source_stub: dict[str, Any] = {"source_type": "", "source_uri": ""}', 'source_stub: dict[str, Any] = {"source_uri": "", "source_type": ""}')], "R-SORTED-OVERRIDE")
fire("c16_shadow_reset", "C16", [(SER, '''            ret = cls._deserialize(value)
        finally:
            # Clear the kwargs and dialect
            DataClassSerializeMixin.__serialization_options = {}
            DataClassSerializeMixin.__mashumaro_dialect = None''', '''            ret = cls._deserialize(value)
        finally:
            # Clear the kwargs and dialect
            cls.__serialization_options = {}
            cls.__mashumaro_dialect = None''')], "R-OPT-PAIR")
fire("c07_anywhere_rebuild_loses_index", ["C07", "C17"], [(XPATH, '''                # Change last element to anywhere
                ret[-1] = ASTXpathElement(
                    ret[-1].ast_class, ret[-1].parent_field, ret[-1].parent_index, True
                )

                parent_field, parent_index, ast_class = next_el''', '''                # Change last element to anywhere
                ret[-1] = ASTXpathElement(
                    ret[-1].ast_class, ret[-1].parent_field, parent_index, True
                )

                parent_field, parent_index, ast_class = next_el''')], "R-XP-ELEMENTS")
fire("c07_fold_once_only", ["C07", "C17"], [(XPATH, "            while ast_class is None:\n                next_el = next(elements, None)", "            if ast_class is None:\n                next_el = next(elements, None)")], "R-XP-ELEMENTS")
fire("c07_worklist_not_a_set", "C07", [(XPATH, "            new_work: dict[_NodeTraversalInfo | NodeTraversalInfo, None] = {}\n", "            new_work: list = []\n"),
                                        (XPATH, "                            if c_info not in new_work:\n                                new_work[c_info] = None\n                else:", "                            new_work.append(c_info)\n                else:"),
                                        (XPATH, "                            if c_info not in new_work:\n                                new_work[c_info] = None\n            work = new_work", "                            new_work.append(c_info)\n            work = new_work"),
                                        (XPATH, "        yield from [n_info.node for n_info in new_work.keys()]", "        yield from [n_info.node for n_info in new_work]")], "R-XP-ONCE")
fire("c17_memoised_type_lookup", "C17", [("src/pyoak/match/helpers.py", "def check_and_get_ast_node_type(", "from functools import lru_cache\n\n\n@lru_cache(maxsize=None)\ndef check_and_get_ast_node_type(")], "R-NO-MEMO")
fire("c12_base_cache_shared", ["C12", "C11"], [("src/pyoak/types.py", "    _TYPE_TO_CHILD_FIELDS[cls], _TYPE_TO_PROPS[cls] = process_node_fields(cls, ASTNode)\n", "    base = cls.__mro__[1]\n    if base in _TYPE_TO_ALL_FIELDS and cls.__dataclass_fields__.keys() == base.__dataclass_fields__.keys():\n        _TYPE_TO_CHILD_FIELDS[cls] = _TYPE_TO_CHILD_FIELDS[base]\n        _TYPE_TO_PROPS[cls] = _TYPE_TO_PROPS[base]\n        _TYPE_TO_ALL_FIELDS[cls] = _TYPE_TO_ALL_FIELDS[base]\n        return\n    _TYPE_TO_CHILD_FIELDS[cls], _TYPE_TO_PROPS[cls] = process_node_fields(cls, ASTNode)\n")], "R-TYPES-CACHE")
fire("c11_optional_last_member", "C11", [(TYPING, "    args = get_args(type_)\n    return any(a is type(None) for a in args)\n", "    return get_args(type_)[-1] is type(None)\n")], "R-QUANTIFY-ALL")
fire("c11_property_first_member_only", "C11", [(TYPING, "    if is_union(type_):\n        return all(is_valid_property_type(t) for t in get_args(type_))\n", "    if is_union(type_):\n        return is_valid_property_type(next(t for t in get_args(type_) if t is not type(None)))\n")], "R-QUANTIFY-ALL")
fire("c19_transform_no_clone_for_subtrees", "C19", [(LNODE, "        if not node.detached:\n            orig_node = node\n            node = node.duplicate(as_detached_clone=True)", "        if node.is_attached_root:\n            orig_node = node\n            node = node.duplicate(as_detached_clone=True)")], "R-LEG-CLONE")
fire("c20_match_head_drops_anywhere", "C20", [(LXPATH, "        if len(elements) == 0 or isinstance(elements[0], ASTXpathAnywhereElement):\n            return True\n        else:\n            return False", "        return len(elements) == 0")], "R-XP-ANYWHERE")
fire("c20_set_xpath_early_return", ["C20", "C18"], [(LNODE, '    object.__setattr__(node, "_xpath", xpath)\n\n    for child in node.get_child_nodes():', '    if node.xpath == xpath:\n        return\n\n    object.__setattr__(node, "_xpath", xpath)\n\n    for child in node.get_child_nodes():')], "R-LEG-XPATH-SPELL")
fire("c20_ensure_iterable_truthiness", ["C20", "C18"], [(LNODE, "        if value is None:\n            return []\n        if isinstance(value, (list, tuple)):", "        if not value:\n            return []\n        if isinstance(value, (list, tuple)):")], "R-PRESENCE")
fire("c05_gather_dedup_by_id", "C05", [(NODE, "        for n_info in self.dfs(prune=prune, filter=filter_fn, bottom_up=False):\n            yield cast(ASTNodeType, n_info.node)", "        seen: set[str] = set()\n        for n_info in self.dfs(prune=prune, filter=filter_fn, bottom_up=False):\n            if n_info.node.id not in seen:\n                seen.add(n_info.node.id)\n                yield cast(ASTNodeType, n_info.node)")], "R-GATHER")
fire("c16_sorted_keys_cached_per_class", "C16", [(SER, "            for k, v in sorted(d.items(), key=itemgetter(0)):\n                out[k] = v", "            keys = _SORTED.setdefault(self.__class__, tuple(sorted(d)))\n            for k in keys:\n                if k in d:\n                    out[k] = d[k]"), (SER, 'TYPE_KEY = "__type"\n', 'TYPE_KEY = "__type"\n_SORTED: dict = {}\n')], "R-SORTED")
fire("c15_hull_by_ordering_starts", "C15", [(ORIGIN, "        return CodeRange(start=min(self.start, other.start), end=max(self.end, other.end))", "        first, second = (self, other) if self.start <= other.start else (other, self)\n\n        return CodeRange(start=first.start, end=second.end)")], "R-INTERVAL-LAWS")
silent("c16_sorted_keys_equivalent", "C16", [(SER, "            for k, v in sorted(d.items(), key=itemgetter(0)):\n                out[k] = v", "            for k in sorted(d):\n                out[k] = d[k]")])

# ---------------------------------------------------------------- loop summaries (loops.py): chain generators and first-match searches
_ANC_OLD = "        parent = self.get_parent(node)\n        while parent is not None:\n            yield parent\n            parent = self.get_parent(parent)\n"
fire("c06_ancestors_stops_early", "C06", [(TREE, _ANC_OLD, "        parent = self.get_parent(node)\n        while parent is not None and self.get_parent(parent) is not None:\n            yield parent\n            parent = self.get_parent(parent)\n")], "R-TREE-CHAIN")
fire("c06_ancestors_no_advance", "C06", [(TREE, _ANC_OLD, "        parent = self.get_parent(node)\n        while parent is not None:\n            yield parent\n            parent = self.get_parent(node)\n")], "R-TREE-CHAIN")
fire("c06_ancestors_every_other", "C06", [(TREE, _ANC_OLD, "        parent = self.get_parent(node)\n        while parent is not None:\n            parent = self.get_parent(parent)\n            if parent is not None:\n                yield parent\n")], "R-TREE-CHAIN")
silent("c06_ancestors_cursor_form", "C06", [(TREE, _ANC_OLD, "        current = node\n        while True:\n            parent = self.get_parent(current)\n            if parent is None:\n                return\n            yield parent\n            current = parent\n")])
silent("c06_ancestors_walrus_form", "C06", [(TREE, _ANC_OLD, "        cursor = node\n        while (cursor := self.get_parent(cursor)) is not None:\n            yield cursor\n")])
silent("c06_ancestors_recursive_form", "C06", [(TREE, _ANC_OLD, "        p = self.get_parent(node)\n        if p is None:\n            return\n        yield p\n        yield from self.get_ancestors(p)\n")])
_ISANC_OLD = "        for a in self.get_ancestors(node):\n            if a is ancestor:\n                return True\n\n        return False\n"
silent("c06_is_ancestor_any_form", "C06", [(TREE, _ISANC_OLD, "        return any(candidate is ancestor for candidate in self.get_ancestors(node))\n")])
fire("c06_is_ancestor_any_eq", "C06", [(TREE, _ISANC_OLD, "        return any(candidate == ancestor for candidate in self.get_ancestors(node))\n")])
fire("c06_is_ancestor_wrong_start", "C06", [(TREE, _ISANC_OLD, "        for a in self.get_ancestors(ancestor):\n            if a is node:\n                return True\n\n        return False\n")], "R-TREE-CHAIN")
fire("c06_is_ancestor_default_true", "C06", [(TREE, _ISANC_OLD, "        for a in self.get_ancestors(node):\n            if a is ancestor:\n                return True\n\n        return True\n")], "R-TREE-CHAIN")
fire("c18_ancestors_include_self", "C18", [(LNODE, "        parent = self.parent\n        while parent is not None:\n            yield parent\n            parent = parent.parent\n", "        parent = self\n        while parent is not None:\n            yield parent\n            parent = parent.parent\n")], "R-LEG-IDENT")
silent("c18_ancestors_cursor_form", "C18", [(LNODE, "        parent = self.parent\n        while parent is not None:\n            yield parent\n            parent = parent.parent\n", "        cur = self\n        while cur.parent is not None:\n            cur = cur.parent\n            yield cur\n")])

# ---------------------------------------------------------------- rules of the held-out rounds 4-6 (state that outlives a call, error paths, helpers)
_GATHER_LOOP = "        for n_info in self.dfs(prune=prune, filter=filter_fn, bottom_up=False):\n            yield cast(ASTNodeType, n_info.node)"
fire("c05_gather_counts_then_iterates", "C05", [(NODE, _GATHER_LOOP, "        matches = self.dfs(prune=prune, filter=filter_fn, bottom_up=False)\n        if config.TRACE_LOGGING:\n            logger.debug(f\"{sum(1 for _ in matches)} matches\")\n        for n_info in matches:\n            yield cast(ASTNodeType, n_info.node)")], "R-GATHER")
silent("c05_gather_stream_local_used_once", "C05", [(NODE, _GATHER_LOOP, "        matches = self.dfs(prune=prune, filter=filter_fn, bottom_up=False)\n        for n_info in matches:\n            yield cast(ASTNodeType, n_info.node)")])
fire("c05_gather_yields_self", "C05", [(NODE, _GATHER_LOOP, "        if isinstance(self, obj_classes):\n            yield cast(ASTNodeType, self)\n" + _GATHER_LOOP)], "R-GATHER")
fire("c07_findall_prunes_walk", "C07", [(XPATH, "                    for d_info in n_info.node.dfs():", "                    for d_info in n_info.node.dfs(prune=lambda d: _match_node_element(_as_root(d), el)):")], "R-XP-ANYWHERE")
fire("c08_nested_pattern_loses_outer_context", "C08", [(PATTERN, "            ok, new_vars = submatcher.match(getattr(value, fname), local_ctx)", "            ok, new_vars = submatcher.match(getattr(value, fname), ret_vars)")], "R-CAPTURE")
fire("c09_rule_inside_map", "C09", [(VISITOR, "        for child, f, index in node.get_child_nodes_with_field():", "        visited = map(self.visit, [c for c, _, _ in node.get_child_nodes_with_field()])\n        for child, f, index in node.get_child_nodes_with_field():")], "R-TRANSFORM-PATH")
fire("c03_construction_registers_children", ["C03", "C10"], [(NODE, "        NODE_REGISTRY[new_id] = self\n", "        NODE_REGISTRY[new_id] = self\n        for c in self.get_child_nodes():\n            if c.id not in NODE_REGISTRY:\n                NODE_REGISTRY[c.id] = c\n")], "R-REG-OWN")
fire("c03_exception_kept_in_local", "C03", [(NODE, "        except Exception as e:\n            if ori_n is not None:\n                NODE_REGISTRY[ori_n.id] = ori_n\n\n            raise e\n", "        except Exception as e:\n            failure = e\n            if ori_n is not None:\n                NODE_REGISTRY[ori_n.id] = ori_n\n\n            raise failure\n")], "R-REG-PAIR")
fire("c13_literal_membership_in_frozenset", "C13", [(TYPING, "        return value in get_args(type_)", "        return value in frozenset(get_args(type_))")], "R-BOOLGUARD-TT")
fire("c13_items_checked_with_bare_isinstance", "C13", [(TYPING, "                return all(is_instance(item, args[0]) for item in value)", "                return all(isinstance(item, args[0]) if isinstance(args[0], type) else is_instance(item, args[0]) for item in value)")], "R-BOOLGUARD-TT")
fire("c04_multiorigin_container_not_normalised", "C04", [(ORIGIN, '        object.__setattr__(self, "origins", tuple(self.origins))\n', "")], "R-SINGLETON-RT")
fire("c04_deserialize_pops_payload", "C04", [(NODE, '        existing_node = NODE_REGISTRY.get(value["id"])', '        value.pop("content_id", None)\n        existing_node = NODE_REGISTRY.get(value["id"])')], "R-DESER-ID")
fire("c16_msgpack_bypasses_as_dict", "C16", [(SER, "                self.as_dict(\n                    mashumaro_dialect=MessagePackDialect,\n                    serialization_options=serialization_options,\n                ),", "                self.to_dict(dialect=MessagePackDialect) if not serialization_options else self.as_dict(\n                    mashumaro_dialect=MessagePackDialect,\n                    serialization_options=serialization_options,\n                ),")], "R-OPT-OWN")
fire("c17_regex_wrapped_in_group", "C17", [(PATTERN, 're.compile(self._re_str)', 're.compile(f"(?:{self._re_str})")')], "R-GRAM-EXH")
fire("c15_operand_list_extended_in_place", ["C15", "C10"], [(ORIGIN, "            new_origins.extend(origin.origins)", "            if not new_origins and isinstance(origin.origins, list):\n                new_origins = origin.origins\n            else:\n                new_origins.extend(origin.origins)")], None)
fire("c01_child_skipped_in_digest", "C01", [(NODE, "        for c, f, i in self.get_child_nodes_with_field(sort_keys=True):\n", "        for c, f, i in self.get_child_nodes_with_field(sort_keys=True):\n            if not f.compare:\n                continue\n")], "R-DIGEST-DEP")
fire("c06_first_ancestor_early_none", "C06", [(TREE, "        for ancestor in self.get_ancestors(node):\n            if exact_type", "        if not ancestor_classes:\n            return None\n\n        for ancestor in self.get_ancestors(node):\n            if exact_type")], "R-TREE-TYPE")
fire("c02_eq_memo_by_ids", "C02", [(NODE, "def _eq_fn(self: ASTNode, other: ASTNode) -> bool:\n", "_EQ_MEMO: dict[tuple[str, str], bool] = {}\n\n\ndef _eq_fn(self: ASTNode, other: ASTNode) -> bool:\n    if isinstance(other, ASTNode) and (self.id, other.id) in _EQ_MEMO:\n        return _EQ_MEMO[(self.id, other.id)]\n    if isinstance(other, ASTNode):\n        _EQ_MEMO[(self.id, other.id)] = self is other\n")], "R-EQ-FORM")

# ---------------------------------------------------------------- rules added after round 7 (per-class memos, index presence, regex text)
fire("c04_source_index_by_truth_value", "C04", [(ORIGIN, '        idx = data.get("idx")\n\n        if idx is None:', '        idx = data.get("idx")\n\n        if not idx:')], "R-IDX-PAIR")
silent("c04_source_index_explicit_default", "C04", [(ORIGIN, '        idx = data.get("idx")\n\n        if idx is None:', '        idx = data.get("idx", None)\n\n        if idx is None:')])
fire("c08_regex_text_unescaped", ["C08", "C17"], [(PATTERN, "        return RegexMatcher(_re_str=str(val[1:-1]))", "        return RegexMatcher(_re_str=str(val[1:-1]).replace('\\\\\\\\', '\\\\'))")], None)
silent("c08_regex_text_through_local", ["C08", "C17"], [(PATTERN, "        return RegexMatcher(_re_str=str(val[1:-1]))", "        text = str(val[1:-1])\n        return RegexMatcher(_re_str=text)")])
fire("c09_strict_remembered_per_visitor_class", "C09", [(NODE, "        visitor_method = None\n\n        if visitor.strict:", "        visitor_method = None\n\n        if type(visitor) not in _STRICT_BY_CLASS:\n            _STRICT_BY_CLASS[type(visitor)] = bool(visitor.strict)\n\n        if _STRICT_BY_CLASS[type(visitor)]:"), (NODE, "# Named Tuple for tree traversal functions\n", "_STRICT_BY_CLASS: dict[type, bool] = {}\n\n\n# Named Tuple for tree traversal functions\n")], "R-DISPATCH")
fire("c18_child_fields_probed_once_per_class", "C18", [(LNODE, "        corresponding field and index (for lists and tuples).\"\"\"\n        for f in fields(self):\n            # Skip non-child fields\n            if not self._is_field_child(f):\n                continue\n", "        corresponding field and index (for lists and tuples).\"\"\"\n        cls = type(self)\n        if cls._child_fields_seen is None:\n            cls._child_fields_seen = tuple(f for f in fields(self) if self._is_field_child(f))\n        for f in cls._child_fields_seen:\n"), (LNODE, "        cls._child_fields = None\n", "        cls._child_fields = None\n        cls._child_fields_seen = None\n"), (LNODE, "    original_id: str | None = field(\n", "    _child_fields_seen: t.ClassVar[tuple[Field, ...] | None] = None\n\n    original_id: str | None = field(\n")], "R-LEG-LINK")
fire("c07_findall_stops_at_first_indexed_child", "C07", [(XPATH, "                        if _match_node_element(c_info, el):\n                            if c_info not in new_work:\n                                new_work[c_info] = None\n            work = new_work", "                        if _match_node_element(c_info, el):\n                            if c_info not in new_work:\n                                new_work[c_info] = None\n                            if el.parent_index is not None:\n                                break\n            work = new_work")], "R-XP-FIND")

# ---------------------------------------------------------------- capture names pass the duplicate check (C17-s21)
fire("c17_capture_name_from_tree", "C17", [(PATTERN, '''            name = self._check_unique_and_get_capture(tree.children[2])

            if name is None:
                raise RuntimeError("Unexpected child in field_spec rule")

            return replace(matcher, name=name)''', '''            cap = tree.children[2]
            assert isinstance(cap, Tree) and cap.data == "capture"

            return replace(matcher, name=str(cap.children[0]))''')], "R-VAR-ORDER")
silent("c17_capture_name_through_helper", "C17", [(PATTERN, '''            name = self._check_unique_and_get_capture(tree.children[2])

            if name is None:
                raise RuntimeError("Unexpected child in field_spec rule")

            return replace(matcher, name=name)''', '''            return self._with_capture(matcher, self._check_unique_and_get_capture(tree.children[2]))'''),
                                                       (PATTERN, '''    def sequence(self, tree: Tree[str]) -> SequenceMatcher | ValueMatcher:''', '''    def _with_capture(self, matcher: BaseMatcher, label: str | None) -> BaseMatcher:
        if label is None:
            raise RuntimeError("Unexpected child in field_spec rule")

        return replace(matcher, name=label)

    def sequence(self, tree: Tree[str]) -> SequenceMatcher | ValueMatcher:''')])
silent("c17_capture_name_walrus", "C17", [(PATTERN, '''        name = self._check_unique_and_get_capture(tree.children[1])

        if name is not None:
            # Any value with capture
            return AnyMatcher(name=name)''', '''        if (label := self._check_unique_and_get_capture(tree.children[1])) is not None:
            # Any value with capture
            return AnyMatcher(name=label)''')])

# ---------------------------------------------------------------- the stored resolved type is the whole annotation (C13-s20)
fire("c13_resolved_type_unwrapped_optional", "C13", [(TYPING, "    return FieldTypeInfo(is_collection(type_), type_)\n", '''    if is_optional(type_):
        members = [t for t in get_args(type_) if t is not type(None)]
        if len(members) == 1 and is_collection(members[0]):
            type_ = members[0]

    return FieldTypeInfo(is_collection(type_), type_)
''')], "R-GATE")
fire("c13_child_resolved_type_is_member", "C13", [(TYPING, "                child_fields[f] = FieldTypeInfo(is_tuple(ftype), ftype)", '''                if is_optional(ftype):
                    ftype = next(t for t in get_args(ftype) if t is not type(None))
                child_fields[f] = FieldTypeInfo(is_tuple(ftype), ftype)''')], "R-GATE")
silent("c13_flag_from_member_type_kept", "C13", [(TYPING, "    return FieldTypeInfo(is_collection(type_), type_)\n", '''    annotation = type_
    collection_flag = is_collection(annotation)
    return FieldTypeInfo(collection_flag, resolved_type=annotation)
''')])

# ---------------------------------------------------------------- user text parsed as a format template (C17-s22)
_C17_OLD_REPORT = '''            raise ASTPatternDefinitionError(
                "Incorrect pattern definitions:\\n"
                + "\\n".join(
                    [
                        f"Pattern '{pattern_name}': {pattern_def}"
                        for pattern_name, pattern_def in incorrect_patterns
                    ]
                )
            )'''
fire("c17_report_parsed_as_template", "C17", [(PATTERN, _C17_OLD_REPORT, '''            report = "Incorrect pattern definitions ({bad}):\\n" + "\\n".join(
                f"Pattern '{pattern_name}': {msg}" for pattern_name, msg in incorrect_patterns
            )
            raise ASTPatternDefinitionError(report.format(bad=len(incorrect_patterns)))''')], "R-EXC-ESCAPE")
silent("c17_literal_header_template", "C17", [(PATTERN, _C17_OLD_REPORT, '''            header = "Incorrect pattern definitions:{}".format("\\n")
            raise ASTPatternDefinitionError(
                header
                + "\\n".join(
                    [
                        f"Pattern '{pattern_name}': {pattern_def}"
                        for pattern_name, pattern_def in incorrect_patterns
                    ]
                )
            )''')])

# ---------------------------------------------------------------- a position used by its truth value in a statement test (C19-s23)
fire("c19_position_truth_value", ["C19", "C18"], [(LNODE, "                    self._set_parent(cur_parent, cur_parent_field, cur_parent_index)\n\n                    self._attach(\"replace\")", "                    if cur_parent_index:\n                        self._set_parent(cur_parent, cur_parent_field, cur_parent_index)\n                    else:\n                        self._set_parent(cur_parent, cur_parent_field, None)\n\n                    self._attach(\"replace\")")], None)
silent("c19_position_is_none_test", ["C19", "C18"], [(LNODE, "                    self._set_parent(cur_parent, cur_parent_field, cur_parent_index)\n\n                    self._attach(\"replace\")", "                    if cur_parent_index is not None:\n                        self._set_parent(cur_parent, cur_parent_field, cur_parent_index)\n                    else:\n                        self._set_parent(cur_parent, cur_parent_field, None)\n\n                    self._attach(\"replace\")")])
