"""Self-test corpus: (name, property, edits, expectation[, rule])."""
CASES = []


def fire(name, prop, edits, rule=None):
    CASES.append({"name": name, "prop": prop, "edits": edits, "expect": "fire", "rule": rule})


def silent(name, prop, edits):
    CASES.append({"name": name, "prop": prop, "edits": edits, "expect": "silent"})


SER = "src/pyoak/serialize.py"
NODE = "src/pyoak/node.py"
ORIGIN = "src/pyoak/origin.py"
CODEGEN = "src/pyoak/codegen.py"
TYPING = "src/pyoak/typing.py"
TREE = "src/pyoak/tree.py"
VISITOR = "src/pyoak/visitor.py"
XPATH = "src/pyoak/match/xpath.py"
PATTERN = "src/pyoak/match/pattern.py"
LNODE = "src/pyoak/legacy/node.py"
LXPATH = "src/pyoak/legacy/match/xpath.py"

# ---------------------------------------------------------------- C16
fire("c16_ser_opts_no_finally", "C16", [(SER, '''        try:
            ret = self._serialize()
        finally:
            # Clear the kwargs and dialect
            DataClassSerializeMixin.__serialization_options = {}
            DataClassSerializeMixin.__mashumaro_dialect = None

        return ret
''', '''        ret = self._serialize()
        # Clear the kwargs and dialect
        DataClassSerializeMixin.__serialization_options = {}
        DataClassSerializeMixin.__mashumaro_dialect = None

        return ret
''')], "R-OPT-PAIR")
fire("c16_ser_opts_not_cleared_on_deser", "C16", [(SER, '''        try:
            ret = cls._deserialize(value)
        finally:
            # Clear the kwargs and dialect
            DataClassSerializeMixin.__serialization_options = {}
            DataClassSerializeMixin.__mashumaro_dialect = None
''', '''        try:
            ret = cls._deserialize(value)
        finally:
            pass
''')], "R-OPT-PAIR")
fire("c16_reset_one_slot_only", "C16", [(SER, '''            ret = cls._deserialize(value)
        finally:
            # Clear the kwargs and dialect
            DataClassSerializeMixin.__serialization_options = {}
            DataClassSerializeMixin.__mashumaro_dialect = None
''', '''            ret = cls._deserialize(value)
        finally:
            # Clear the kwargs and dialect
            DataClassSerializeMixin.__mashumaro_dialect = None
''')], "R-OPT-PAIR")
fire("c16_except_without_reraise_path", "C16", [(SER, '''        try:
            ret = self._serialize()
        finally:
            # Clear the kwargs and dialect
            DataClassSerializeMixin.__serialization_options = {}
            DataClassSerializeMixin.__mashumaro_dialect = None
''', '''        try:
            ret = self._serialize()
        except ValueError:
            DataClassSerializeMixin.__serialization_options = {}
            DataClassSerializeMixin.__mashumaro_dialect = None
            raise
        DataClassSerializeMixin.__serialization_options = {}
        DataClassSerializeMixin.__mashumaro_dialect = None
''')], "R-OPT-PAIR")
silent("c16_except_reraise_idiom", "C16", [(SER, '''        try:
            ret = self._serialize()
        finally:
            # Clear the kwargs and dialect
            DataClassSerializeMixin.__serialization_options = {}
            DataClassSerializeMixin.__mashumaro_dialect = None
''', '''        try:
            ret = self._serialize()
        except BaseException:
            DataClassSerializeMixin.__serialization_options = {}
            DataClassSerializeMixin.__mashumaro_dialect = None
            raise
        DataClassSerializeMixin.__serialization_options = {}
        DataClassSerializeMixin.__mashumaro_dialect = None
''')])
fire("c16_foreign_writer", "C16", [(ORIGIN, '''        d = super().__post_serialize__(d)
        d.pop("_raw", None)
''', '''        d = super().__post_serialize__(d)
        d.pop("_raw", None)
        DataClassSerializeMixin._DataClassSerializeMixin__serialization_options = {}
''')], "R-OPT-OWN")
fire("c16_reentry_from_hook", "C16", [(ORIGIN, '''            return {"idx": Source._sources[self]}
        return super()._serialize()
''', '''            return {"idx": Source._sources[self]}
        Source.all_as_dict()
        return super()._serialize()
''')], "R-OPT-REENTRY")
fire("c16_tag_after_keys", "C16", [(SER, '''        out = {}

        if not skip_class:
            # Add class name
            out[TYPE_KEY] = self.__class__.__name__

        if sort_keys:
            # Output keys in sorted order for stable serialization
            for k, v in sorted(d.items(), key=itemgetter(0)):
                out[k] = v
        else:
            out.update(d)
''', '''        out = {}

        if sort_keys:
            # Output keys in sorted order for stable serialization
            for k, v in sorted(d.items(), key=itemgetter(0)):
                out[k] = v
        else:
            out.update(d)

        if not skip_class:
            # Add class name
            out[TYPE_KEY] = self.__class__.__name__
''')], "R-TAG-FIRST")
fire("c16_skip_class_inverted", "C16", [(SER, "        if not skip_class:\n            # Add class name", "        if skip_class:\n            # Add class name")], "R-TAG-FIRST")
fire("c16_sort_reverse", "C16", [(SER, "sorted(d.items(), key=itemgetter(0))", "sorted(d.items(), key=itemgetter(0), reverse=True)")], "R-SORTED")
fire("c16_children_after_fill", "C16", [(NODE, '''            d["_children"] = [f.name for f in get_cls_child_fields(self.__class__)]

        out = super(ASTNode, self).__post_serialize__(d)
''', '''            pass

        out = super(ASTNode, self).__post_serialize__(d)
        out["_children"] = [f.name for f in get_cls_child_fields(self.__class__)]
''')], "R-SORTED-OVERRIDE")
fire("c16_untagged_serialize", "C16", [(ORIGIN, '''    def _serialize(self) -> dict[str, t.Any]:
        if self._get_serialization_options().get(SOURCE_OPTIMIZED_SERIALIZATION_KEY, False):
            return {"idx": Source._sources[self]}
        return super()._serialize()
''', '''    def _serialize(self) -> dict[str, t.Any]:
        if self._get_serialization_options().get(SOURCE_OPTIMIZED_SERIALIZATION_KEY, False):
            return {"idx": Source._sources[self]}
        return {"source_uri": self.source_uri, "source_type": self.source_type}
''')], "R-DEFAULT-TAG")
silent("c16_rename_local_and_lambda_key", "C16", [(SER, '''            for k, v in sorted(d.items(), key=itemgetter(0)):
                out[k] = v
''', '''            for key, val in sorted(d.items(), key=lambda kv: kv[0]):
                out[key] = val
''')])
