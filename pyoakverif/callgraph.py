"""Package call graph by name resolution over the AST (component G, quick tier).

Over-approximating on purpose: ``x.m()`` resolves to every method ``m`` of
every class of the analysed modules, except for names of builtin container /
string methods on receivers that are not ``self`` / ``cls`` / ``super()`` / a
class of the package.  Constructing a class of the package resolves to its
``__new__`` / ``__init__`` / ``__post_init__``.
"""
from __future__ import annotations

import ast
from collections import defaultdict

from .astutil import dotted, walk_body
from .srcmodel import Func, Mod, Repo

BUILTIN_METHODS = {
    "get", "pop", "update", "append", "appendleft", "extend", "insert", "remove", "clear", "add", "discard", "sort",
    "reverse", "setdefault", "items", "keys", "values", "join", "split", "strip", "startswith", "endswith", "encode",
    "decode", "format", "replace", "copy", "index", "count", "popleft", "lower", "upper", "match", "search", "fullmatch",
    "compile", "hexdigest", "debug", "info", "warning", "error", "exception", "isEnabledFor", "exists", "is_file",
    "read_bytes", "read", "open", "as_posix", "issubset", "parse", "visit", "read_text", "name",
}


class CallGraph:
    def __init__(self, repo: Repo, mods: list[Mod]) -> None:
        self.repo = repo
        self.mods = mods
        self.funcs: list[Func] = list(repo.functions(mods))
        self.by_name: dict[str, list[Func]] = defaultdict(list)
        self.methods: dict[str, list[Func]] = defaultdict(list)
        self.modlevel: dict[str, list[Func]] = defaultdict(list)
        self.class_names: set[str] = set()
        for f in self.funcs:
            simple = f.qualname.split(".")[-1]
            self.by_name[simple].append(f)
            if f.cls is not None and f.qualname.count(".") >= 1 and f.qualname.split(".")[-2] == f.cls.name:
                self.methods[simple].append(f)
            if "." not in f.qualname:
                self.modlevel[simple].append(f)
        for m in mods:
            for n in ast.walk(m.tree):
                if isinstance(n, ast.ClassDef):
                    self.class_names.add(n.name)
        self._callees: dict[str, list[Func]] = {}

    def key(self, f: Func) -> str:
        return f.key

    def resolve(self, c: ast.Call, caller: Func) -> list[Func]:
        fn = c.func
        out: list[Func] = []
        if isinstance(fn, ast.Name):
            n = fn.id
            aliases = self.repo.import_aliases(caller.mod)
            n = aliases.get(n, n)
            if n in self.class_names:
                for special in ("__new__", "__init__", "__post_init__"):
                    out += [m for m in self.methods.get(special, []) if m.cls is not None and m.cls.name == n]
                return out
            # nested function of the caller first, then module-level functions
            nested = [f for f in self.by_name.get(n, []) if f.mod is caller.mod and f.qualname.startswith(caller.qualname + ".")]
            if nested:
                return nested
            return list(self.modlevel.get(n, []))
        if isinstance(fn, ast.Attribute):
            attr = fn.attr
            recv = fn.value
            typed = False
            if isinstance(recv, ast.Name) and (recv.id in ("self", "cls") or recv.id in self.class_names):
                typed = True
            if isinstance(recv, ast.Call) and dotted(recv.func) == "super":
                typed = True
            if isinstance(recv, ast.Attribute) and recv.attr == "__class__":
                typed = True
            if attr in BUILTIN_METHODS and not typed:
                return []
            out = list(self.methods.get(attr, []))
            # module alias receiver: module-level function
            if isinstance(recv, ast.Name) and not typed:
                out += self.modlevel.get(attr, [])
            # class constructor via attribute (mod.Class())
            if attr in self.class_names:
                for special in ("__new__", "__init__", "__post_init__"):
                    out += [m for m in self.methods.get(special, []) if m.cls is not None and m.cls.name == attr]
            return out
        return []

    def callees(self, f: Func) -> list[Func]:
        k = f.key
        if k not in self._callees:
            res: list[Func] = []
            seen = set()
            for n in walk_body(f.node.body):
                if isinstance(n, ast.Call):
                    for g in self.resolve(n, f):
                        if g.key not in seen:
                            seen.add(g.key)
                            res.append(g)
            self._callees[k] = res
        return self._callees[k]

    def reachable(self, roots: list[Func], max_depth: int = 50) -> dict[str, tuple[Func, list[str]]]:
        """key -> (func, call path from a root)"""
        out: dict[str, tuple[Func, list[str]]] = {}
        work = [(r, [r.key]) for r in roots]
        while work:
            f, path = work.pop()
            if f.key in out or len(path) > max_depth:
                continue
            out[f.key] = (f, path)
            for g in self.callees(f):
                if g.key not in out:
                    work.append((g, path + [g.key]))
        return out
