"""Partial evaluator for the code generators of ``pyoak.codegen``.

The generators (``_gen_*_func``) are staged programs: given the field mapping of a class they build the *text* of an
accessor and hand it to ``_gen_func``.  Their control flow depends only on the field descriptors (name, compare, init,
is_collection) and on the order of the mapping.  This module evaluates a generator over a small, fixed set of descriptor
mappings with an interpreter for the Python subset the generators are written in (string building, loops over the mapping,
sorted() with a key function, nested / module-level helper functions, lists and ``"".join``).  The call of ``_gen_func`` is
intercepted: its arguments (accessor name, emitted body text, closure variables, extra arguments) are the result.

Nothing from the repository is imported or executed; anything outside the subset raises Unsupported (analysis-incomplete).
How the generator is organised (nested ``_build_body`` with a nonlocal accumulator, a module-level helper returning text,
a list of lines joined at the end, ...) does not matter: only what it emits.
"""
from __future__ import annotations

import ast
from dataclasses import dataclass, field
from typing import Any

from .astutil import dotted, norm
from .srcmodel import Mod, Repo, Unsupported

CODEGEN = "pyoak.codegen"
MAX_STEPS = 200_000


class Fld:
    """A field descriptor (hashable by identity, like dataclasses.Field)."""

    def __init__(self, name: str, compare: bool = True, init: bool = True, hash: Any = None, repr: bool = True, kw_only: bool = False) -> None:
        self.name, self.compare, self.init = name, compare, init
        # attributes of dataclasses.Field that the documented flag table does NOT depend on: a generator that reads them is
        # evaluated for several of their values and must emit the same code for all
        self.hash, self.repr, self.kw_only = hash, repr, kw_only
        self.metadata: dict = {}

    def __repr__(self) -> str:
        return f"<Field {self.name}>"


class TypeInfo:
    def __init__(self, is_collection: bool) -> None:
        self.is_collection = is_collection
        self.resolved_type = Opaque("resolved_type")


class Opaque:
    def __init__(self, what: str) -> None:
        self.what = what

    def __repr__(self) -> str:
        return f"<{self.what}>"


ALLOWED_ATTRS = {Fld: {"name", "compare", "init", "hash", "repr", "kw_only", "metadata"}, TypeInfo: {"is_collection", "resolved_type"}}


def _walk_own(node: ast.AST):
    """ast.walk that does not enter nested function definitions / lambdas."""
    yield node
    for ch in ast.iter_child_nodes(node):
        if isinstance(ch, (ast.FunctionDef, ast.AsyncFunctionDef, ast.Lambda)):
            continue
        yield from _walk_own(ch)


class _Ret(Exception):
    def __init__(self, v: Any) -> None:
        self.v = v


class _Brk(Exception):
    pass


class _Cont(Exception):
    pass


class Scope:
    def __init__(self, parent: "Scope | None" = None) -> None:
        self.vars: dict[str, Any] = {}
        self.parent = parent
        self.nonlocals: set[str] = set()

    def lookup(self, name: str) -> "Scope | None":
        s: Scope | None = self
        while s is not None:
            if name in s.vars:
                return s
            s = s.parent
        return None

    def get(self, name: str, node: ast.AST) -> Any:
        s = self.lookup(name)
        if s is None:
            raise Unsupported(f"name {name} is not known to the generator evaluator", node)
        return s.vars[name]

    def set(self, name: str, v: Any) -> None:
        if name in self.nonlocals:
            s = self.parent.lookup(name) if self.parent else None
            if s is not None:
                s.vars[name] = v
                return
        self.vars[name] = v


@dataclass
class Closure:
    node: ast.FunctionDef | ast.Lambda
    scope: Scope
    name: str = "<lambda>"


@dataclass
class RecordClass:
    """A NamedTuple class of the generator module: calling it builds a Record."""
    name: str
    fields: list[str]
    defaults: dict[str, ast.expr]
    methods: dict[str, Any] = field(default_factory=dict)


class Record(dict):
    """An instance of a RecordClass (attribute access by field name)."""


@dataclass
class Partial:
    fn: Any
    args: list
    kwargs: dict


@dataclass
class Captured:
    fname: Any = None
    ret_type: Any = None
    body: str | None = None
    local_vars: dict[str, Any] = field(default_factory=dict)
    extra_args: str = ""
    target: Any = None
    call: ast.Call | None = None


STR_METHODS = {"join", "strip", "lstrip", "rstrip", "replace", "split", "splitlines", "startswith", "endswith", "format", "upper", "lower", "rstrip", "count", "removesuffix", "removeprefix"}
LIST_METHODS = {"append", "extend", "insert", "copy", "index", "reverse", "pop"}
DICT_METHODS = {"items", "keys", "values", "get", "update", "setdefault", "copy"}


class GenInterp:
    def __init__(self, mod: Mod, sink: str = "_gen_func") -> None:
        self.mod = mod
        self.sink = sink
        self.captured: list[Captured] = []
        self.steps = 0
        self.globals = Scope()
        for st in mod.tree.body:
            if isinstance(st, ast.FunctionDef):
                self.globals.vars[st.name] = Closure(st, self.globals, st.name)
        for st in mod.tree.body:
            if isinstance(st, ast.ClassDef) and any((norm(b) or "").split(".")[-1] == "NamedTuple" for b in st.bases):
                flds = [x for x in st.body if isinstance(x, ast.AnnAssign) and isinstance(x.target, ast.Name)]
                rc = RecordClass(st.name, [x.target.id for x in flds], {x.target.id: x.value for x in flds if x.value is not None})
                rc.methods = {x.name: Closure(x, self.globals, f"{st.name}.{x.name}") for x in st.body if isinstance(x, ast.FunctionDef)}
                self.globals.vars[st.name] = rc
        for st in mod.tree.body:  # module constants, lazily tolerant
            if isinstance(st, (ast.Assign, ast.AnnAssign)) and st.value is not None:
                tg = st.targets[0] if isinstance(st, ast.Assign) and len(st.targets) == 1 else getattr(st, "target", None)
                if isinstance(tg, ast.Name):
                    try:
                        self.globals.vars[tg.id] = self.ev(st.value, self.globals)
                    except Unsupported:
                        pass

    # ------------------------------------------------------------------ calls
    def call_closure(self, c: Closure, args: list[Any], kwargs: dict[str, Any], at: ast.AST) -> Any:
        a = c.node.args
        sc = Scope(c.scope)
        params = [p.arg for p in a.posonlyargs + a.args]
        if len(args) > len(params) and not a.vararg:
            raise Unsupported(f"too many arguments for {c.name}", at)
        for p, v in zip(params, args):
            sc.vars[p] = v
        if a.vararg:
            sc.vars[a.vararg.arg] = tuple(args[len(params):])
        defaults = dict(zip(params[len(params) - len(a.defaults):], a.defaults))
        kwonly = [p.arg for p in a.kwonlyargs]
        for p, d in zip(kwonly, a.kw_defaults):
            if d is not None:
                defaults[p] = d
        for k, v in kwargs.items():
            if k not in params and k not in kwonly:
                if a.kwarg:
                    sc.vars.setdefault(a.kwarg.arg, {})[k] = v
                    continue
                raise Unsupported(f"unexpected keyword {k} for {c.name}", at)
            sc.vars[k] = v
        for p in params + kwonly:
            if p not in sc.vars:
                if p not in defaults:
                    raise Unsupported(f"missing argument {p} for {c.name}", at)
                sc.vars[p] = self.ev(defaults[p], c.scope)
        if isinstance(c.node, ast.Lambda):
            return self.ev(c.node.body, sc)
        is_gen = any(isinstance(x, (ast.Yield, ast.YieldFrom)) for st in c.node.body for x in _walk_own(st))
        if is_gen:
            # a generator helper of the code generator: evaluated eagerly, its values collected in order (the callers join / iterate them)
            sc.vars["__yields__"] = []
        try:
            self.block(c.node.body, sc)
        except _Ret as r:
            return sc.vars["__yields__"] if is_gen else r.v
        return sc.vars["__yields__"] if is_gen else None

    def call(self, e: ast.Call, sc: Scope) -> Any:
        fn = e.func
        # (star arguments are expanded below from the evaluated values, for the code sink as for any other call)
        args: list[Any] = []
        for a in e.args:
            if isinstance(a, ast.Starred):
                args.extend(list(self.ev(a.value, sc)))
            else:
                args.append(self.ev(a, sc))
        kwargs: dict[str, Any] = {}
        for k in e.keywords:
            if k.arg is None:
                kwargs.update(self.ev(k.value, sc))
            else:
                kwargs[k.arg] = self.ev(k.value, sc)
        if isinstance(fn, ast.Name):
            if fn.id == self.sink:
                names = ["clz", "fname", "ret_type", "body", "local_vars"]
                got = dict(zip(names, args))
                got.update(kwargs)
                cap = Captured(got.get("fname"), got.get("ret_type"), got.get("body"), dict(got.get("local_vars") or {}), got.get("extra_args", "") or "", got.get("clz"), e)
                if not isinstance(cap.body, str):
                    raise Unsupported("the body handed to the code sink is not text", e)
                self.captured.append(cap)
                return None
            if sc.lookup(fn.id) is not None:
                f = sc.get(fn.id, fn)
                if isinstance(f, (Closure, RecordClass, Partial)):
                    return self.call_value(f, args, kwargs, e)
                raise Unsupported(f"call of non-function {fn.id}", e)
            if fn.id in ("partial",):
                return Partial(args[0], args[1:], kwargs)
            return self.builtin(fn.id, args, kwargs, e)
        if isinstance(fn, ast.Attribute):
            if isinstance(fn.value, ast.Name) and fn.value.id in ("logger", "logging"):
                return None
            recv = self.ev(fn.value, sc)
            m = fn.attr
            if isinstance(recv, str) and m in STR_METHODS:
                if m == "join":
                    args = [list(args[0])]
                return getattr(recv, m)(*args, **kwargs)
            if isinstance(recv, list) and m in LIST_METHODS:
                return getattr(recv, m)(*args)
            if isinstance(recv, dict) and m in DICT_METHODS:
                r = getattr(recv, m)(*args, **kwargs)
                return list(r) if m in ("items", "keys", "values") else r
            if isinstance(recv, tuple) and m in ("index", "count"):
                return getattr(recv, m)(*args)
            if isinstance(recv, Record) and m in recv:
                return self.call_value(recv[m], args, kwargs, e)
            if isinstance(recv, Record) and getattr(recv, "_cls", None) is not None and m in recv._cls.methods:
                return self.call_closure(recv._cls.methods[m], [recv] + list(args), kwargs, e)
            raise Unsupported(f"method {m} on {type(recv).__name__} in a generator", e)
        f = self.ev(fn, sc)
        return self.call_value(f, args, kwargs, e)

    def call_value(self, f: Any, args: list[Any], kwargs: dict[str, Any], e: ast.AST) -> Any:
        if isinstance(f, Partial):
            return self.call_value(f.fn, list(f.args) + list(args), {**f.kwargs, **kwargs}, e)
        if isinstance(f, RecordClass):
            vals = dict(zip(f.fields, args))
            vals.update(kwargs)
            for k in f.fields:
                if k not in vals:
                    if k not in f.defaults:
                        raise Unsupported(f"missing field {k} for {f.name}", e)
                    vals[k] = self.ev(f.defaults[k], self.globals)
            r_ = Record(vals)
            r_._cls = f  # type: ignore[attr-defined]
            return r_
        if isinstance(f, Closure):
            return self.call_closure(f, args, kwargs, e)
        raise Unsupported(f"call {norm(e)[:50]} in a generator", e)

    def builtin(self, name: str, args: list[Any], kwargs: dict[str, Any], at: ast.AST) -> Any:
        if name == "len":
            return len(args[0])
        if name == "sorted":
            key = kwargs.get("key")
            rev = bool(kwargs.get("reverse", False))
            items = list(args[0])
            if key is None:
                return sorted(items, reverse=rev)
            if not isinstance(key, Closure):
                raise Unsupported("sorted key is not a function the evaluator knows", at)
            keyed = [(self.call_closure(key, [x], {}, at), i, x) for i, x in enumerate(items)]
            try:
                keyed.sort(key=lambda t: (t[0],), reverse=rev) if not rev else keyed.sort(key=lambda t: (t[0],), reverse=True)
            except TypeError:
                raise Unsupported("sort key values are not comparable", at)
            return [x for _, _, x in keyed]
        if name in ("list", "tuple"):
            return (list if name == "list" else tuple)(args[0]) if args else (list if name == "list" else tuple)()
        if name == "dict":
            return dict(*args, **kwargs)
        if name == "enumerate":
            return list(enumerate(*args, **kwargs))
        if name == "reversed":
            return list(reversed(list(args[0])))
        if name == "zip":
            return list(zip(*args))
        if name == "range":
            return list(range(*args))
        if name in ("str", "repr", "bool", "int"):
            if any(isinstance(a, (Fld, TypeInfo, Opaque, Closure)) for a in args):
                raise Unsupported(f"{name}() of a descriptor object", at)
            return {"str": str, "repr": repr, "bool": bool, "int": int}[name](*args)
        if name == "isinstance":
            raise Unsupported("isinstance in a generator", at)
        if name in ("any", "all"):
            return (any if name == "any" else all)(list(args[0]))
        if name in ("min", "max"):
            return (min if name == "min" else max)(*args)
        if name in ("map", "filter", "starmap", "itertools.starmap"):
            fn = args[0] if args else None
            if not isinstance(fn, Closure):
                raise Unsupported(f"{name}() with a function the evaluator does not know", at)
            if name == "map":
                return [self.call_closure(fn, list(t), {}, at) for t in zip(*[list(a) for a in args[1:]])]
            if name == "filter":
                return [x for x in list(args[1]) if self.call_closure(fn, [x], {}, at)]
            return [self.call_closure(fn, list(t), {}, at) for t in list(args[1])]
        if name in ("chain", "itertools.chain"):
            return [x for a in args for x in list(a)]
        if name == "print":
            return None
        if name == "cast":
            return args[1]
        raise Unsupported(f"call of {name} in a generator", at)

    # ------------------------------------------------------------------ expressions
    def ev(self, e: ast.AST, sc: Scope) -> Any:
        self.steps += 1
        if self.steps > MAX_STEPS:
            raise Unsupported("generator evaluation does not terminate within the step bound", e)
        if isinstance(e, ast.Constant):
            return e.value
        if isinstance(e, ast.Name):
            if sc.lookup(e.id) is None and e.id in ("True", "False", "None"):
                return {"True": True, "False": False, "None": None}[e.id]
            return sc.get(e.id, e)
        if isinstance(e, ast.Attribute):
            if isinstance(e.value, ast.Name) and e.value.id == "config":
                if e.attr == "CODEGEN_DEBUG":
                    return False
                raise Unsupported(f"config.{e.attr} in a generator", e)
            base = self.ev(e.value, sc)
            if isinstance(base, Record):
                if e.attr in base:
                    return base[e.attr]
                raise Unsupported(f"record has no field {e.attr}", e)
            for t, names in ALLOWED_ATTRS.items():
                if isinstance(base, t):
                    if e.attr in names:
                        return getattr(base, e.attr)
                    raise Unsupported(f"attribute {e.attr} is not part of the descriptor domain", e)
            raise Unsupported(f"attribute {norm(e)[:40]} in a generator", e)
        if isinstance(e, ast.JoinedStr):
            out = ""
            for v in e.values:
                if isinstance(v, ast.Constant):
                    out += str(v.value)
                else:
                    assert isinstance(v, ast.FormattedValue)
                    if v.format_spec is not None:
                        raise Unsupported("format spec in a template", v)
                    val = self.ev(v.value, sc)
                    if isinstance(val, (Fld, TypeInfo, Opaque, Closure)):
                        raise Unsupported(f"a descriptor object is formatted into the template: {norm(v.value)}", v)
                    out += repr(val) if v.conversion == 114 else str(val)
            return out
        if isinstance(e, ast.BinOp):
            l, r = self.ev(e.left, sc), self.ev(e.right, sc)
            try:
                if isinstance(e.op, ast.Add):
                    return l + r
                if isinstance(e.op, ast.Mult):
                    return l * r
                if isinstance(e.op, ast.Sub):
                    return l - r
                if isinstance(e.op, ast.Mod):
                    return l % r
            except TypeError:
                raise Unsupported(f"operands of {norm(e)[:50]}", e)
            raise Unsupported(f"operator in {norm(e)[:50]}", e)
        if isinstance(e, ast.UnaryOp):
            v = self.ev(e.operand, sc)
            if isinstance(e.op, ast.Not):
                return not v
            if isinstance(e.op, ast.USub):
                return -v
            raise Unsupported("unary operator", e)
        if isinstance(e, ast.BoolOp):
            if isinstance(e.op, ast.And):
                v: Any = True
                for x in e.values:
                    v = self.ev(x, sc)
                    if not v:
                        return v
                return v
            v = False
            for x in e.values:
                v = self.ev(x, sc)
                if v:
                    return v
            return v
        if isinstance(e, ast.Compare):
            left = self.ev(e.left, sc)
            for op, rhs in zip(e.ops, e.comparators):
                right = self.ev(rhs, sc)
                if isinstance(op, ast.Eq):
                    ok = left == right
                elif isinstance(op, ast.NotEq):
                    ok = left != right
                elif isinstance(op, ast.In):
                    ok = left in right
                elif isinstance(op, ast.NotIn):
                    ok = left not in right
                elif isinstance(op, ast.Is):
                    ok = left is right
                elif isinstance(op, ast.IsNot):
                    ok = left is not right
                elif isinstance(op, (ast.Lt, ast.LtE, ast.Gt, ast.GtE)):
                    try:
                        ok = {ast.Lt: left < right, ast.LtE: left <= right, ast.Gt: left > right, ast.GtE: left >= right}[type(op)]
                    except TypeError:
                        raise Unsupported("ordering comparison of descriptor objects", e)
                else:
                    raise Unsupported("comparison operator", e)
                if not ok:
                    return False
                left = right
            return True
        if isinstance(e, ast.IfExp):
            return self.ev(e.body, sc) if self.ev(e.test, sc) else self.ev(e.orelse, sc)
        if isinstance(e, (ast.Tuple, ast.List)):
            vals: list[Any] = []
            for x in e.elts:
                if isinstance(x, ast.Starred):
                    vals.extend(list(self.ev(x.value, sc)))
                else:
                    vals.append(self.ev(x, sc))
            return tuple(vals) if isinstance(e, ast.Tuple) else vals
        if isinstance(e, ast.Dict):
            d: dict[Any, Any] = {}
            for k, v in zip(e.keys, e.values):
                if k is None:
                    d.update(self.ev(v, sc))
                else:
                    d[self.ev(k, sc)] = self.ev(v, sc)
            return d
        if isinstance(e, ast.Subscript):
            base = self.ev(e.value, sc)
            if isinstance(e.slice, ast.Slice):
                lo = self.ev(e.slice.lower, sc) if e.slice.lower else None
                hi = self.ev(e.slice.upper, sc) if e.slice.upper else None
                stp = self.ev(e.slice.step, sc) if e.slice.step else None
                return base[lo:hi:stp]
            try:
                return base[self.ev(e.slice, sc)]
            except (KeyError, IndexError, TypeError):
                raise Unsupported(f"subscript {norm(e)[:40]} fails in the generator evaluator", e)
        if isinstance(e, ast.Lambda):
            return Closure(e, sc)
        if isinstance(e, (ast.ListComp, ast.GeneratorExp, ast.SetComp, ast.DictComp)):
            return self.comp(e, sc)
        if isinstance(e, ast.Call):
            return self.call(e, sc)
        if isinstance(e, ast.NamedExpr) and isinstance(e.target, ast.Name):
            v = self.ev(e.value, sc)
            sc.set(e.target.id, v)
            return v
        if isinstance(e, ast.Yield) and sc.lookup("__yields__") is not None:
            sc.get("__yields__", e).append(self.ev(e.value, sc) if e.value is not None else None)
            return None
        if isinstance(e, ast.YieldFrom) and sc.lookup("__yields__") is not None:
            sc.get("__yields__", e).extend(list(self.ev(e.value, sc)))
            return None
        raise Unsupported(f"expression kind {type(e).__name__} in a generator", e)

    def comp(self, e: ast.AST, sc: Scope) -> Any:
        out: list[Any] = []
        inner = Scope(sc)

        def rec(i: int) -> None:
            if i == len(e.generators):  # type: ignore[attr-defined]
                if isinstance(e, ast.DictComp):
                    out.append((self.ev(e.key, inner), self.ev(e.value, inner)))
                else:
                    out.append(self.ev(e.elt, inner))  # type: ignore[attr-defined]
                return
            g = e.generators[i]  # type: ignore[attr-defined]
            for item in list(self.ev(g.iter, inner)):
                self.bind(g.target, item, inner)
                if all(self.ev(c, inner) for c in g.ifs):
                    rec(i + 1)

        rec(0)
        if isinstance(e, ast.DictComp):
            return dict(out)
        if isinstance(e, ast.SetComp):
            raise Unsupported("set comprehension in a generator (iteration order)", e)
        return out

    def bind(self, tgt: ast.AST, v: Any, sc: Scope) -> None:
        if isinstance(tgt, ast.Name):
            sc.set(tgt.id, v)
        elif isinstance(tgt, (ast.Tuple, ast.List)):
            vals = list(v)
            if len(vals) != len(tgt.elts):
                raise Unsupported("unpacking arity", tgt)
            for t, x in zip(tgt.elts, vals):
                self.bind(t, x, sc)
        elif isinstance(tgt, ast.Subscript):
            base = self.ev(tgt.value, sc)
            if not isinstance(base, (dict, list)):
                raise Unsupported("store into a non-container", tgt)
            base[self.ev(tgt.slice, sc)] = v
        else:
            raise Unsupported(f"assignment target {type(tgt).__name__}", tgt)

    # ------------------------------------------------------------------ statements
    def block(self, stmts: list[ast.stmt], sc: Scope) -> None:
        for st in stmts:
            self.steps += 1
            if self.steps > MAX_STEPS:
                raise Unsupported("generator evaluation does not terminate within the step bound", st)
            if isinstance(st, ast.Expr):
                if isinstance(st.value, ast.Constant):
                    continue
                self.ev(st.value, sc)
            elif isinstance(st, ast.Assign):
                v = self.ev(st.value, sc)
                for t in st.targets:
                    self.bind(t, v, sc)
            elif isinstance(st, ast.AnnAssign):
                if st.value is not None:
                    self.bind(st.target, self.ev(st.value, sc), sc)
            elif isinstance(st, ast.AugAssign):
                if not isinstance(st.op, ast.Add):
                    raise Unsupported("augmented assignment other than +=", st)
                cur = self.ev(ast.copy_location(_as_load(st.target), st.target), sc)
                v = self.ev(st.value, sc)
                if isinstance(cur, list):
                    cur.extend(list(v))
                else:
                    try:
                        self.bind(st.target, cur + v, sc)
                    except TypeError:
                        raise Unsupported("operands of +=", st)
            elif isinstance(st, ast.If):
                self.block(st.body if self.ev(st.test, sc) else st.orelse, sc)
            elif isinstance(st, ast.For):
                broke = False
                for item in list(self.ev(st.iter, sc)):
                    self.bind(st.target, item, sc)
                    try:
                        self.block(st.body, sc)
                    except _Brk:
                        broke = True
                        break
                    except _Cont:
                        continue
                if not broke:
                    self.block(st.orelse, sc)
            elif isinstance(st, ast.While):
                n = 0
                while self.ev(st.test, sc):
                    n += 1
                    if n > 1000:
                        raise Unsupported("while loop bound", st)
                    try:
                        self.block(st.body, sc)
                    except _Brk:
                        break
                    except _Cont:
                        continue
            elif isinstance(st, ast.FunctionDef):
                sc.vars[st.name] = Closure(st, sc, st.name)
            elif isinstance(st, ast.Nonlocal):
                sc.nonlocals |= set(st.names)
            elif isinstance(st, ast.Return):
                raise _Ret(self.ev(st.value, sc) if st.value is not None else None)
            elif isinstance(st, ast.Pass):
                continue
            elif isinstance(st, ast.Break):
                raise _Brk()
            elif isinstance(st, ast.Continue):
                raise _Cont()
            elif isinstance(st, (ast.Assert, ast.Import, ast.ImportFrom, ast.Global, ast.Nonlocal)):
                continue  # (imports bind names the evaluator looks up on demand; an unknown one is reported where it is used)
            else:
                raise Unsupported(f"statement kind {type(st).__name__} in a generator", st)


def _as_load(t: ast.expr) -> ast.expr:
    import copy
    t2 = copy.deepcopy(t)
    for n in ast.walk(t2):
        if hasattr(n, "ctx"):
            n.ctx = ast.Load()
    return t2


def run_generator(repo: Repo, gen: str, fields: list[tuple[Fld, TypeInfo]]) -> Captured:
    """Evaluate generator ``gen`` on the given field mapping (insertion order = list order)."""
    mod = repo.mod(CODEGEN)
    it = GenInterp(mod)
    f = it.globals.vars.get(gen)
    mapping = {fl: ti for fl, ti in fields}
    if isinstance(f, Partial):
        it.call_value(f, [Opaque("clz"), mapping], {}, mod.tree)
    elif not isinstance(f, Closure):
        # by role: whatever the bootstrap of that accessor calls with (the class, the field table, ...)
        call = bootstrap_call(mod, gen)
        if call is None:
            raise Unsupported(f"generator {gen} not found")
        sc = Scope(it.globals)
        sc.vars["__clz__"] = Opaque("clz")
        sc.vars["__fields__"] = mapping
        it.call(call, sc)
    else:
        it.call_closure(f, [Opaque("clz"), mapping], {}, f.node)
    if len(it.captured) != 1:
        raise Unsupported(f"{gen} hands {len(it.captured)} bodies to _gen_func (1 expected)", f.node)
    return it.captured[0]


GEN_BOOTSTRAP = {"_gen_get_child_nodes_func": "gen_and_yield_get_child_nodes", "_gen_get_child_nodes_with_field_func": "gen_and_yield_get_child_nodes_with_field",
                 "_gen_iter_child_fields_func": "gen_and_yield_iter_child_fields", "_gen_get_properties_func": "gen_and_yield_get_properties"}


def bootstrap_call(mod: Mod, gen: str) -> ast.Call | None:
    """The generator call of the accessor's bootstrap, with `self.__class__` and the field-table lookup replaced by placeholders:
    `G(self.__class__, get_cls_child_fields(self.__class__), EXTRA...)` -> `G(__clz__, __fields__, EXTRA...)`."""
    import copy
    boot = next((st for st in mod.tree.body if isinstance(st, ast.FunctionDef) and st.name == GEN_BOOTSTRAP.get(gen)), None)
    if boot is None:
        return None
    for st in boot.body:
        if isinstance(st, ast.Expr) and isinstance(st.value, ast.Call) and st.value.args and norm(st.value.args[0]) in ("self.__class__", "type(self)"):
            c = copy.deepcopy(st.value)

            class R(ast.NodeTransformer):
                def visit_Call(self, n: ast.Call) -> ast.AST:
                    if dotted(n.func) in ("get_cls_child_fields", "get_cls_props", "get_cls_all_fields"):
                        return ast.copy_location(ast.Name(id="__fields__", ctx=ast.Load()), n)
                    return self.generic_visit(n)

                def visit_Attribute(self, n: ast.Attribute) -> ast.AST:
                    if norm(n) == "self.__class__":
                        return ast.copy_location(ast.Name(id="__clz__", ctx=ast.Load()), n)
                    return self.generic_visit(n)
            c = R().visit(c)
            return ast.fix_missing_locations(c)
    return None


def parse_body(text: str) -> list[ast.stmt]:
    """Statements of the emitted accessor body."""
    try:
        tree = ast.parse("def __f__():\n" + "\n".join(("    " + l if l.strip() else l) for l in text.split("\n")))
    except SyntaxError as e:
        raise Unsupported(f"emitted accessor body does not parse: {e}: {text!r}")
    return tree.body[0].body  # type: ignore[attr-defined]


def branches(stmts: list[ast.stmt]) -> tuple[list[ast.stmt], list[ast.stmt]]:
    """(sorted branch, unsorted branch) of an emitted accessor body `if sort_keys: ... else: ...`."""
    if len(stmts) == 1 and isinstance(stmts[0], ast.If):
        t = stmts[0].test
        if isinstance(t, ast.Name) and t.id == "sort_keys":
            return stmts[0].body, stmts[0].orelse
        if isinstance(t, ast.UnaryOp) and isinstance(t.op, ast.Not) and isinstance(t.operand, ast.Name) and t.operand.id == "sort_keys":
            return stmts[0].orelse, stmts[0].body
    raise Unsupported("emitted accessor body is not `if sort_keys: ... else: ...`", stmts[0] if stmts else None)
