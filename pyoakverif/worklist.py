"""Traversal-schema calculus for worklist algorithms (R-WORKLIST / R-CTRLDEP, DESIGN.md C05/C20).

``dfs``/``bfs`` are recognised as worklist algorithms.  From the container
operations the discipline (LIFO/FIFO), the sibling order and the emission order
are derived and looked up in a fixed calculus:

    LIFO + siblings taken in natural order            -> pre-order   (NLR)
    LIFO + siblings taken in reversed order           -> mirrored pre-order (NRL); its reversal is post-order (LRN)
    FIFO + siblings taken in natural order            -> level order

The body of the main loop is additionally decided as a truth table over the
outcomes of filter / prune: emission iff the filter admits the taken element,
descent iff it is not pruned, the filter being evaluated whether or not the
element is pruned.
"""
from __future__ import annotations

import ast
import copy
import itertools
from dataclasses import dataclass, field
from typing import Any

from .astutil import dotted, is_const, norm, walk_body, walk_local
from .finite import Evaluator, NeedAtom
from .srcmodel import Func, Unsupported

ENUMS = ("get_child_nodes_with_field", "get_child_nodes", "children")


# ----------------------------------------------------------------------------- specialisation on mode flags
def _fold_mode(stmts: list[ast.stmt], assign: dict[str, Any]) -> list[ast.stmt]:
    """Conditional *expressions* decided by the mode flags alone are replaced by the arm taken, and a local bound once to an integer
    constant (`step = 1 if bottom_up else -1`, after folding) is substituted into slice steps (`infos[::step]`)."""
    class F(ast.NodeTransformer):
        def visit_IfExp(self, n: ast.IfExp) -> ast.AST:
            self.generic_visit(n)
            try:
                v = Evaluator(assign).ev(n.test)
            except NeedAtom:
                return n
            except Exception:
                return n
            return n.body if v else n.orelse

        def visit_FunctionDef(self, n: ast.FunctionDef) -> ast.AST:
            return n
    out = [F().visit(copy.deepcopy(st)) for st in stmts]
    binds: dict[str, list[ast.expr]] = {}
    for st in out:
        for x in ast.walk(st):
            if isinstance(x, ast.Assign) and len(x.targets) == 1 and isinstance(x.targets[0], ast.Name):
                binds.setdefault(x.targets[0].id, []).append(x.value)
            elif isinstance(x, (ast.AugAssign, ast.AnnAssign)) and isinstance(x.target, ast.Name):
                binds.setdefault(x.target.id, []).append(x.value if isinstance(x, ast.AnnAssign) and x.value is not None else ast.Name(id="?", ctx=ast.Load()))
            elif isinstance(x, (ast.For, ast.comprehension)):
                for t in ast.walk(x.target):
                    if isinstance(t, ast.Name):
                        binds.setdefault(t.id, []).append(ast.Name(id="?", ctx=ast.Load()))

    def const_int(e: ast.expr) -> int | None:
        if isinstance(e, ast.Constant) and isinstance(e.value, int) and not isinstance(e.value, bool):
            return e.value
        if isinstance(e, ast.UnaryOp) and isinstance(e.op, ast.USub) and isinstance(e.operand, ast.Constant) and isinstance(e.operand.value, int):
            return -e.operand.value
        return None
    consts = {k: const_int(v[0]) for k, v in binds.items() if len(v) == 1 and const_int(v[0]) is not None}

    class S(ast.NodeTransformer):
        def visit_Slice(self, n: ast.Slice) -> ast.AST:
            self.generic_visit(n)
            if isinstance(n.step, ast.Name) and n.step.id in consts:
                c = consts[n.step.id]
                n.step = ast.copy_location(ast.Constant(value=c) if c >= 0 else ast.UnaryOp(op=ast.USub(), operand=ast.Constant(value=-c)), n.step)
            return n
    return [ast.fix_missing_locations(S().visit(st)) for st in out]


def specialise(stmts: list[ast.stmt], assign: dict[str, Any]) -> list[ast.stmt]:
    """Resolve every ``if`` whose test is decided by the mode flags alone."""
    out: list[ast.stmt] = []
    for st in stmts:
        if isinstance(st, ast.If):
            try:
                v = Evaluator(assign).ev(st.test)
            except NeedAtom:
                new = ast.If(test=st.test, body=specialise(st.body, assign) or [ast.Pass()], orelse=specialise(st.orelse, assign))
                ast.copy_location(new, st)
                out.append(new)
                continue
            out.extend(specialise(st.body if v else st.orelse, assign))
        elif isinstance(st, (ast.For, ast.While)):
            new = type(st)(**{k: getattr(st, k) for k in st._fields})
            new.body = specialise(st.body, assign)
            ast.copy_location(new, st)
            out.append(new)
        else:
            out.append(st)
    return out


# ----------------------------------------------------------------------------- symbolic sequences
@dataclass
class Seq:
    call: ast.expr  # the enumeration expression, e.g. child_info.node.get_child_nodes_with_field()
    owner: str  # normalised text of the node whose children are enumerated
    method: str
    reversed: bool = False
    record: ast.expr | None = None  # element mapping when produced by a generator expression
    targets: ast.expr | None = None


def as_enum(e: ast.expr) -> Seq | None:
    if isinstance(e, ast.Call) and isinstance(e.func, ast.Attribute) and e.func.attr in ENUMS:
        meth = e.func.attr
        for k in e.keywords:
            if k.arg == "sort_keys" and not is_const(k.value, False):
                meth += "(sort_keys)"  # name order instead of declaration order: reported by the rule
        if e.args:
            raise Unsupported("positional argument to the child enumeration", e)
        return Seq(e, norm(e.func.value), meth)
    if isinstance(e, ast.Attribute) and e.attr == "children":
        return Seq(e, norm(e.value), "children")
    return None


def eval_seq(e: ast.expr, env: dict[str, Seq]) -> Seq | None:
    s = as_enum(e)
    if s is not None:
        return s
    if isinstance(e, ast.Name) and e.id in env:
        return env[e.id]
    if isinstance(e, ast.Call):
        fn = dotted(e.func)
        if fn in ("list", "tuple", "iter") and len(e.args) == 1:
            return eval_seq(e.args[0], env)
        if fn == "reversed" and len(e.args) == 1:
            s = eval_seq(e.args[0], env)
            if s is None:
                return None
            return Seq(s.call, s.owner, s.method, not s.reversed, s.record, s.targets)
    if isinstance(e, ast.Subscript) and isinstance(e.slice, ast.Slice):
        sl = e.slice
        if sl.lower is None and sl.upper is None and sl.step is not None and norm(sl.step) == "-1":
            s = eval_seq(e.value, env)
            if s is not None:
                return Seq(s.call, s.owner, s.method, not s.reversed, s.record, s.targets)
        if sl.lower is None and sl.upper is None and (sl.step is None or norm(sl.step) == "1"):
            return eval_seq(e.value, env)  # a plain copy
    if isinstance(e, (ast.GeneratorExp, ast.ListComp)) and len(e.generators) == 1 and not e.generators[0].ifs:
        g = e.generators[0]
        s = eval_seq(g.iter, env)
        if s is None:
            return None
        if s.record is not None:
            raise Unsupported("nested record mapping", e)
        return Seq(s.call, s.owner, s.method, s.reversed, e.elt, g.target)
    return None


@dataclass
class Put:
    container: str
    side: str  # "L" | "R"
    seq: Seq | None  # None: a single element
    record: ast.expr  # element expression put (per enumerated child)
    targets: ast.expr | None
    node: ast.AST
    effective_reversed: bool = False  # order in which siblings sit in the container, read from the *taking* side


@dataclass
class Model:
    func: Func
    mode: dict[str, Any]
    worklist: str = ""
    take_side: str = ""
    take_var: str = ""
    seed_self: bool = False
    seed_puts: list[Put] = field(default_factory=list)
    loop_puts: list[Put] = field(default_factory=list)
    loop: ast.While | None = None
    emit_kind: str = ""  # "yield" | "buffer"
    emit_container: str = ""
    emit_side: str = ""
    drain_side: str = ""
    emit_nodes: list[ast.AST] = field(default_factory=list)
    aliases: dict[str, tuple[str, str]] = field(default_factory=dict)  # name -> (container, method)
    notes: list[str] = field(default_factory=list)


PUT_METHODS = {"append": "R", "appendleft": "L", "extend": "R", "extendleft": "L"}
TAKE_METHODS = {"pop": "R", "popleft": "L"}


def _container_ctor(e: ast.expr | None) -> tuple[bool, ast.expr | None]:
    """(is a fresh list/deque, initial content expr or None)"""
    if e is None:
        return False, None
    if isinstance(e, ast.List):
        if not e.elts:
            return True, None
        return True, e
    if isinstance(e, ast.Call) and dotted(e.func) in ("deque", "collections.deque", "list", "Deque"):
        if not e.args:
            return True, None
        if len(e.args) == 1:
            return True, e.args[0]
    return False, None


def _positional_records(stmts: list[ast.stmt]) -> list[ast.stmt]:
    """NamedTuple constructions of the package spelled with keywords -> positional (the record rules read fields by position)."""
    import copy
    from .normalize import NAMEDTUPLE_FIELDS

    class T(ast.NodeTransformer):
        def visit_Call(self, node: ast.Call) -> ast.AST:
            self.generic_visit(node)
            fields = NAMEDTUPLE_FIELDS.get(dotted(node.func) or "")
            if fields is None or not node.keywords or any(k.arg is None for k in node.keywords) or any(isinstance(a, ast.Starred) for a in node.args):
                return node
            names = [f for f, _ in fields]
            slots: list[ast.expr | None] = [None] * len(names)
            for i, a in enumerate(node.args[:len(names)]):
                slots[i] = a
            for k in node.keywords:
                if k.arg not in names or slots[names.index(k.arg)] is not None:
                    return node
                slots[names.index(k.arg)] = k.value
            for i, (f, d) in enumerate(fields):
                if slots[i] is None and d is not None:
                    slots[i] = copy.deepcopy(d)
            if any(x is None for x in slots):
                return node
            return ast.copy_location(ast.Call(func=node.func, args=list(slots), keywords=[]), node)  # type: ignore[arg-type]

    return [ast.fix_missing_locations(T().visit(copy.deepcopy(st))) for st in stmts]


def _level_lists_to_queue(body: list[ast.stmt]) -> list[ast.stmt]:
    """Breadth-first search written with one list per level

        while L:                       while L:
            N = []                         x = L.pop(0)
            for x in L: BODY(N)    ==          BODY(L)
            L = N

    processes the same elements in the same order as a FIFO queue (everything put while a level is processed sits behind the rest of
    that level): the loop is rewritten into the queue form the calculus knows.  Conditions: BODY only puts on N (append / extend), does
    not read L or N otherwise and has no break; nothing else happens in the outer loop."""
    import copy
    out: list[ast.stmt] = []
    for st in body:
        if isinstance(st, ast.While) and isinstance(st.test, ast.Name) and not st.orelse and len(st.body) == 3:
            L = st.test.id
            a, lp, c = st.body
            if isinstance(a, ast.Assign) and len(a.targets) == 1 and isinstance(a.targets[0], ast.Name) and isinstance(a.value, ast.List) and not a.value.elts \
                    and isinstance(lp, ast.For) and isinstance(lp.iter, ast.Name) and lp.iter.id == L and isinstance(lp.target, ast.Name) and not lp.orelse \
                    and isinstance(c, ast.Assign) and len(c.targets) == 1 and norm(c.targets[0]) == L and isinstance(c.value, ast.Name) and c.value.id == a.targets[0].id:
                N = a.targets[0].id
                ok = not any(isinstance(n, ast.Break) for n in walk_body(lp.body))
                for n in walk_body(lp.body):
                    if isinstance(n, ast.Name) and n.id == L:
                        ok = False
                    if isinstance(n, ast.Name) and n.id == N:
                        ok = ok and isinstance(n.ctx, ast.Load)
                uses_n = [n for n in walk_body(lp.body) if isinstance(n, ast.Name) and n.id == N]
                puts_n = [n.func.value for n in walk_body(lp.body) if isinstance(n, ast.Call) and isinstance(n.func, ast.Attribute) and n.func.attr in ("append", "extend")
                          and isinstance(n.func.value, ast.Name) and n.func.value.id == N]
                if ok and len(uses_n) == len(puts_n) and all(any(u is p_ for p_ in puts_n) for u in uses_n):
                    new_body = copy.deepcopy(lp.body)
                    for b_ in new_body:
                        for n in ast.walk(b_):
                            if isinstance(n, ast.Name) and n.id == N:
                                n.id = L
                    take = ast.Assign(targets=[ast.Name(id=lp.target.id, ctx=ast.Store())],
                                      value=ast.Call(func=ast.Attribute(value=ast.Name(id=L, ctx=ast.Load()), attr="pop", ctx=ast.Load()), args=[ast.Constant(value=0)], keywords=[]))
                    w = ast.While(test=st.test, body=[take] + new_body, orelse=[])
                    ast.copy_location(w, st)
                    ast.copy_location(take, lp)
                    out.append(ast.fix_missing_locations(w))
                    continue
        out.append(st)
    return out


def _iadd_to_extend(body: list[ast.stmt]) -> list[ast.stmt]:
    """``W += E`` for a local that is also popped from (hence a list / deque: in-place concatenation) is ``W.extend(E)``."""
    popped = {n.func.value.id for st in body for n in ast.walk(st) if isinstance(n, ast.Call) and isinstance(n.func, ast.Attribute) and n.func.attr in ("pop", "popleft")
              and isinstance(n.func.value, ast.Name)}

    class T(ast.NodeTransformer):
        def visit_AugAssign(self, n: ast.AugAssign) -> ast.AST:
            if isinstance(n.op, ast.Add) and isinstance(n.target, ast.Name) and n.target.id in popped:
                call = ast.Call(func=ast.Attribute(value=ast.Name(id=n.target.id, ctx=ast.Load()), attr="extend", ctx=ast.Load()), args=[n.value], keywords=[])
                return ast.fix_missing_locations(ast.copy_location(ast.Expr(value=call), n))
            return n

        def visit_FunctionDef(self, n: ast.FunctionDef) -> ast.AST:
            return n
    return [T().visit(copy.deepcopy(st)) for st in body]


def _copy_propagate(stmts: list[ast.stmt]) -> list[ast.stmt]:
    """Forward copy propagation of cursor variables: after ``p = <name or attribute chain>`` the loads of ``p`` are that expression until
    ``p`` or a name the expression mentions is re-bound (flow-sensitive within blocks; what a loop body binds is unknown at the loop's entry)."""
    def pure_chain(e: ast.expr) -> bool:
        while isinstance(e, ast.Attribute):
            e = e.value
        return isinstance(e, ast.Name)

    def stored_in(st: ast.AST) -> set[str]:
        return {n.id for n in ast.walk(st) if isinstance(n, ast.Name) and isinstance(n.ctx, (ast.Store, ast.Del))}

    def kill(env: dict[str, ast.expr], names: set[str]) -> None:
        for k in list(env):
            if k in names or any(isinstance(x, ast.Name) and x.id in names for x in ast.walk(env[k])):
                del env[k]

    class Sub(ast.NodeTransformer):
        def __init__(self, env: dict[str, ast.expr]) -> None:
            self.env = env

        def visit_Name(self, n: ast.Name) -> ast.AST:
            if isinstance(n.ctx, ast.Load) and n.id in self.env:
                return ast.copy_location(copy.deepcopy(self.env[n.id]), n)
            return n

        def visit_FunctionDef(self, n: ast.FunctionDef) -> ast.AST:
            return n

        def visit_Lambda(self, n: ast.Lambda) -> ast.AST:
            return n

    def block(b: list[ast.stmt], env: dict[str, ast.expr]) -> list[ast.stmt]:
        out: list[ast.stmt] = []
        for st in b:
            if isinstance(st, (ast.FunctionDef, ast.ClassDef)):
                out.append(st)
                continue
            if isinstance(st, (ast.For, ast.While)):
                kill(env, stored_in(st))
                new = copy.copy(st)
                if isinstance(st, ast.For):
                    new.iter = Sub(env).visit(copy.deepcopy(st.iter))
                else:
                    new.test = Sub(env).visit(copy.deepcopy(st.test))
                new.body = block(st.body, dict(env))
                new.orelse = block(st.orelse, dict(env))
                out.append(new)
                continue
            if isinstance(st, ast.If):
                new = copy.copy(st)
                new.test = Sub(env).visit(copy.deepcopy(st.test))
                new.body = block(st.body, dict(env))
                new.orelse = block(st.orelse, dict(env))
                kill(env, stored_in(st))
                out.append(new)
                continue
            if isinstance(st, (ast.Try, ast.With, ast.Match)):
                kill(env, stored_in(st))
                out.append(st)
                continue
            new = Sub(env).visit(copy.deepcopy(st))
            kill(env, stored_in(st))
            tgt = st.targets[0] if isinstance(st, ast.Assign) and len(st.targets) == 1 else (st.target if isinstance(st, ast.AnnAssign) and st.value is not None else None)
            if isinstance(tgt, ast.Name) and pure_chain(new.value) and not any(isinstance(x, ast.Name) and x.id == tgt.id for x in ast.walk(new.value)):  # type: ignore[union-attr]
                env[tgt.id] = new.value  # type: ignore[union-attr]
            out.append(new)
        return out
    return [ast.fix_missing_locations(x) for x in block(stmts, {})]


def build_model(func: Func, mode: dict[str, Any]) -> Model:
    fn = func.node
    body = specialise([s for s in fn.body if not (isinstance(s, ast.Expr) and isinstance(s.value, ast.Constant))], mode)
    body = _level_lists_to_queue(_positional_records(_iadd_to_extend(_copy_propagate(_fold_mode(body, mode)))))
    m = Model(func, mode)
    loops = [s for s in body if isinstance(s, ast.While)]
    main = None
    for lp in loops:
        w = _loop_container(lp)
        if w is None:
            continue
        takes = [n for n in walk_body(lp.body) if isinstance(n, ast.Call) and isinstance(n.func, ast.Attribute)
                 and dotted(n.func.value) == w and n.func.attr in TAKE_METHODS]
        puts = [n for n in walk_body(lp.body) if isinstance(n, ast.Call) and isinstance(n.func, ast.Attribute)
                and dotted(n.func.value) == w and n.func.attr in ("append", "appendleft", "extend", "extendleft", "insert")]
        if takes and puts:
            main = lp
            break
    if main is None:
        raise Unsupported("no worklist loop (while W: x = W.pop...(); ... W.append/extend(...)) found; "
                          "a recursive or otherwise different traversal is outside the calculus", fn)
    m.loop = main
    m.worklist = _loop_container(main)  # type: ignore[assignment]
    idx = body.index(main)
    prologue, epilogue = body[:idx], body[idx + 1:]

    containers: set[str] = set()
    seqenv: dict[str, Seq] = {}

    def handle_put(call: ast.Call, cont: str, method: str, env: dict[str, Seq], loop_ctx: tuple[Seq, ast.expr] | None, sink: list[Put]) -> None:
        if method == "insert":
            # insert(0, x) is appendleft(x); any other position is outside the calculus
            if len(call.args) == 2 and is_const(call.args[0], 0):
                call = ast.copy_location(ast.Call(func=call.func, args=[call.args[1]], keywords=[]), call)
                method = "appendleft"
            else:
                raise Unsupported("insert at a position other than 0 on the worklist", call)
        side = PUT_METHODS[method]
        if method in ("extend", "extendleft"):  # extendleft(seq) == for x in seq: appendleft(x)
            s = eval_seq(call.args[0], env)
            if s is None:
                raise Unsupported(f"cannot resolve sequence {norm(call.args[0])[:60]}", call)
            rec = s.record if s.record is not None else ast.Name(id="<element>", ctx=ast.Load())
            sink.append(Put(cont, side, s, rec, s.targets, call))
        else:
            if loop_ctx is not None:
                s, tg = loop_ctx
                sink.append(Put(cont, side, s, call.args[0], tg, call))
            else:
                sink.append(Put(cont, side, None, call.args[0], None, call))

    def run(stmts: list[ast.stmt], env: dict[str, Seq], loop_ctx, sink: list[Put], in_main: bool) -> None:
        for st in stmts:
            if isinstance(st, (ast.Assign, ast.AnnAssign)):
                tgt = st.targets[0] if isinstance(st, ast.Assign) else st.target
                val = st.value
                if isinstance(tgt, ast.Name) and val is not None:
                    fresh, init = _container_ctor(val)
                    is_deque = isinstance(val, ast.Call) and dotted(val.func) in ("deque", "collections.deque", "Deque")
                    if fresh and (init is None or is_deque):
                        containers.add(tgt.id)
                        if init is not None:
                            s = eval_seq(init, env)
                            if s is not None:
                                # a deque seeded from an enumeration: first element leftmost = puts on the right in order
                                rec = s.record if s.record is not None else ast.Name(id="<element>", ctx=ast.Load())
                                sink.append(Put(tgt.id, "R", s, rec, s.targets, st))
                            elif isinstance(init, (ast.List, ast.Tuple)) and len(init.elts) == 1:
                                # e.g. deque([self])
                                sink.append(Put(tgt.id, "R", None, init.elts[0], None, st))
                            else:
                                raise Unsupported(f"container initialised with {norm(init)[:60]}", st)
                        continue
                    s = eval_seq(val, env)
                    if s is not None and tgt.id == m.worklist and not in_main:
                        # the worklist *is* a sequence built before: its elements sit in that order, i.e. were put on the right in order
                        rec = s.record if s.record is not None else ast.Name(id="<element>", ctx=ast.Load())
                        sink.append(Put(tgt.id, "R", s, rec, s.targets, st))
                        continue
                    if s is not None:
                        env[tgt.id] = s
                        continue
                    # bound-method alias
                    if isinstance(val, ast.Attribute) and isinstance(val.value, ast.Name) and val.attr in PUT_METHODS:
                        m.aliases[tgt.id] = (val.value.id, val.attr)
                        continue
                    if in_main and isinstance(val, ast.Call) and isinstance(val.func, ast.Attribute) and dotted(val.func.value) == m.worklist \
                            and val.func.attr in TAKE_METHODS:
                        if val.func.attr == "pop" and val.args and not is_const(val.args[0], -1):
                            if is_const(val.args[0], 0):
                                m.take_side = "L"
                            else:
                                raise Unsupported("pop with an index", val)
                        else:
                            m.take_side = TAKE_METHODS[val.func.attr]
                        m.take_var = tgt.id
                        continue
                continue  # other assignments carry no traversal structure
            if isinstance(st, ast.Expr) and isinstance(st.value, ast.Call) and isinstance(st.value.func, ast.Attribute):
                c = st.value
                recv = dotted(c.func.value)
                if recv in env and c.func.attr == "reverse" and not c.args:
                    s = env[recv]
                    env[recv] = Seq(s.call, s.owner, s.method, not s.reversed, s.record, s.targets)
                    continue
                if recv == m.worklist and c.func.attr == "reverse" and not c.args and not in_main:
                    # the worklist itself is reversed in place before the loop starts: what was put so far sits in the opposite order
                    if any(p.seq is None for p in sink if p.container == recv) or sum(1 for p in sink if p.container == recv) != 1:
                        raise Unsupported("the worklist is reversed in place after more than one seeding step", c)
                    for k_, p in enumerate(sink):
                        if p.container == recv and p.seq is not None:
                            s_ = p.seq
                            sink[k_] = Put(p.container, p.side, Seq(s_.call, s_.owner, s_.method, not s_.reversed, s_.record, s_.targets), p.record, p.targets, p.node)
                    continue
                if recv == m.worklist and c.func.attr in ("append", "appendleft", "extend", "extendleft", "insert"):
                    handle_put(c, recv, c.func.attr, env, loop_ctx, sink)
                    continue
                continue
            if isinstance(st, ast.For):
                s = eval_seq(st.iter, env)
                if s is not None:
                    run(st.body, env, (s, st.target), sink, in_main)
                else:
                    run(st.body, env, loop_ctx, sink, in_main)
                continue
            if isinstance(st, ast.If):
                run(st.body, env, loop_ctx, sink, in_main)
                run(st.orelse, env, loop_ctx, sink, in_main)
                continue

    run(prologue, seqenv, None, m.seed_puts, False)
    m.seed_puts = [p for p in m.seed_puts if p.container == m.worklist]
    loop_env = dict(seqenv)
    run(main.body, loop_env, None, m.loop_puts, True)
    if not m.take_side or not m.take_var:
        raise Unsupported("the main loop does not bind the taken element with W.pop()/W.popleft()", main)
    if not m.loop_puts:
        raise Unsupported("the main loop never puts children on the worklist", main)

    # ---- emission
    emits: list[tuple[str, str, ast.AST]] = []  # (kind, container/side info, node)
    for n in walk_body(main.body):
        if isinstance(n, ast.Yield):
            emits.append(("yield", "", n))
        if isinstance(n, ast.YieldFrom):
            raise Unsupported("yield from inside the main loop", n)
        if isinstance(n, ast.Call):
            nm = dotted(n.func)
            if nm in m.aliases:
                cont, meth = m.aliases[nm]
                emits.append(("buffer", f"{cont}:{PUT_METHODS[meth]}", n))
            elif isinstance(n.func, ast.Attribute) and isinstance(n.func.value, ast.Name) and n.func.value.id in containers \
                    and n.func.value.id != m.worklist and n.func.attr in PUT_METHODS:
                if n.func.attr == "extend":
                    raise Unsupported("extend on the output buffer", n)
                emits.append(("buffer", f"{n.func.value.id}:{PUT_METHODS[n.func.attr]}", n))
    if not emits:
        raise Unsupported("the main loop neither yields nor buffers the taken element", main)
    kinds = {(k, info) for k, info, _ in emits}
    if len(kinds) != 1:
        raise Unsupported(f"mixed emission forms {sorted(kinds)}", main)
    m.emit_kind, info = next(iter(kinds))
    m.emit_nodes = [n for _, _, n in emits]
    if m.emit_kind == "buffer":
        m.emit_container, m.emit_side = info.split(":")
        # drain loop in the epilogue
        drained = False
        flipped = False

        def drain_expr(e: ast.expr) -> str | None:
            """'L' when e enumerates the buffer front to back, 'R' when back to front."""
            side = None
            while isinstance(e, ast.Call) and dotted(e.func) in ("list", "tuple", "iter") and len(e.args) == 1:
                e = e.args[0]
            if dotted(e) == m.emit_container:
                side = "L"
            elif isinstance(e, ast.Call) and dotted(e.func) == "reversed" and len(e.args) == 1 and dotted(e.args[0]) == m.emit_container:
                side = "R"
            elif isinstance(e, ast.Subscript) and isinstance(e.slice, ast.Slice) and e.slice.lower is None and e.slice.upper is None and e.slice.step is not None \
                    and norm(e.slice.step) == "-1" and dotted(e.value) == m.emit_container:
                side = "R"
            if side is not None and flipped:
                side = "R" if side == "L" else "L"
            return side
        for st in epilogue:
            if isinstance(st, ast.Expr) and isinstance(st.value, ast.Call) and isinstance(st.value.func, ast.Attribute) and st.value.func.attr == "reverse" \
                    and dotted(st.value.func.value) == m.emit_container and not st.value.args:
                flipped = not flipped
                continue
            if isinstance(st, ast.For) and drain_expr(st.iter) is not None and dotted(st.iter) != m.emit_container:
                ys = [n for n in walk_body(st.body) if isinstance(n, ast.Yield)]
                if len(ys) == 1 and ys[0].value is not None and norm(ys[0].value) == norm(st.target) and len(st.body) == 1:
                    m.drain_side = drain_expr(st.iter) or ""
                    drained = True
                continue
            if isinstance(st, ast.Expr) and isinstance(st.value, ast.YieldFrom) and drain_expr(st.value.value) is not None and dotted(st.value.value) != m.emit_container:
                m.drain_side = drain_expr(st.value.value) or ""
                drained = True
                continue
            if isinstance(st, ast.While) and _loop_container(st) == m.emit_container:
                ys = [n for n in walk_body(st.body) if isinstance(n, ast.Yield)]
                if len(ys) == 1 and isinstance(ys[0].value, ast.Call) and isinstance(ys[0].value.func, ast.Attribute) \
                        and dotted(ys[0].value.func.value) == m.emit_container and ys[0].value.func.attr in TAKE_METHODS:
                    c = ys[0].value
                    if c.func.attr == "pop" and c.args:
                        m.drain_side = "L" if is_const(c.args[0], 0) else ""
                    else:
                        m.drain_side = TAKE_METHODS[c.func.attr]
                    if flipped and m.drain_side:
                        m.drain_side = "R" if m.drain_side == "L" else "L"
                    drained = True
            elif isinstance(st, ast.For) and dotted(st.iter) == m.emit_container:
                ys = [n for n in walk_body(st.body) if isinstance(n, ast.Yield)]
                if len(ys) == 1 and ys[0].value is not None and norm(ys[0].value) == norm(st.target):
                    m.drain_side = "R" if flipped else "L"
                    drained = True
            elif isinstance(st, ast.Expr) and isinstance(st.value, ast.YieldFrom) and dotted(st.value.value) == m.emit_container:
                m.drain_side = "R" if flipped else "L"
                drained = True
        if not drained or not m.drain_side:
            raise Unsupported("no drain loop for the output buffer", fn)
    else:
        for st in epilogue:
            if any(isinstance(n, (ast.Yield, ast.YieldFrom)) for n in walk_local(st)):
                raise Unsupported("additional yield after the main loop", st)
    return m


def _loop_container(lp: ast.While) -> str | None:
    t = lp.test
    if isinstance(t, ast.Name):
        return t.id
    if isinstance(t, ast.Compare) and len(t.ops) == 1 and isinstance(t.left, ast.Call) and dotted(t.left.func) == "len" \
            and isinstance(t.ops[0], (ast.Gt, ast.NotEq)) and is_const(t.comparators[0], 0):
        return dotted(t.left.args[0])
    if isinstance(t, ast.Call) and dotted(t.func) == "len" and len(t.args) == 1:
        return dotted(t.args[0])
    return None


# ----------------------------------------------------------------------------- the calculus
def taking_order(m: Model, puts: list[Put]) -> set[str]:
    """Order in which the enumerated children of one node are taken: natural / reversed."""
    out = set()
    for p in puts:
        if p.seq is None:
            continue
        lifo = p.side == m.take_side
        # read from the taking side: same side -> last put is taken first
        taken_reversed = (not p.seq.reversed) if lifo else p.seq.reversed
        out.add("reversed" if taken_reversed else "natural")
    return out


def derived_order(m: Model) -> tuple[str, dict[str, Any]]:
    facts: dict[str, Any] = {"worklist": m.worklist, "take_side": m.take_side}
    sides = {p.side for p in m.loop_puts}
    if len(sides) != 1:
        return "mixed put sides", facts
    lifo = sides == {m.take_side}
    facts["discipline"] = "LIFO" if lifo else "FIFO"
    orders = taking_order(m, m.loop_puts)
    facts["siblings_taken"] = sorted(orders)
    if len(orders) != 1:
        return "inconsistent sibling order", facts
    sib = next(iter(orders))
    if lifo:
        take = "pre-order" if sib == "natural" else "mirrored pre-order"
    else:
        take = "level order" if sib == "natural" else "mirrored level order"
    facts["taking_order"] = take
    if m.emit_kind == "yield":
        facts["emission"] = "immediate yield"
        return take, facts
    keeps = m.emit_side != m.drain_side
    facts["emission"] = f"buffer put {m.emit_side}, drained {m.drain_side} ({'keeps' if keeps else 'reverses'} the taking order)"
    if keeps:
        return take, facts
    if take == "mirrored pre-order":
        return "post-order", facts
    if take == "pre-order":
        return "reversed pre-order", facts
    return "reversed " + take, facts


# ----------------------------------------------------------------------------- control dependence truth table
def loop_body_table(m: Model, extra_atoms: dict[str, tuple] | None = None) -> list[dict[str, Any]]:
    """Concrete walk of the (mode-specialised) loop body for every outcome of filter/prune.

    Returns rows {atoms..., emitted: bool, descended: bool, filter_evaluated: bool}."""
    assert m.loop is not None
    tv = m.take_var
    put_nodes = {id(p.node) for p in m.loop_puts}
    emit_nodes = {id(n) for n in m.emit_nodes}
    rows = []

    class Stop(Exception):
        pass

    def walk(stmts: list[ast.stmt], assign: dict[str, Any], ev: dict[str, Any]) -> None:
        for st in stmts:
            if isinstance(st, ast.If):
                _note_calls(st.test, assign, ev)
                v = _ev(st.test, assign, ev)
                walk(st.body if v else st.orelse, assign, ev)
            elif isinstance(st, ast.Continue):
                raise Stop()
            elif isinstance(st, (ast.Break, ast.Return)):
                ev["left_loop"] = True
                raise Stop()
            else:
                ev.setdefault("stmts", []).append(norm(st) if not isinstance(st, (ast.For, ast.While)) else "for ...")
                for n in walk_local(st):
                    if id(n) in emit_nodes:
                        ev["emitted"] += 1
                        ev["emit_args"].append(_emit_arg(n))
                    if id(n) in put_nodes:
                        ev["descended"] = True
                if isinstance(st, (ast.For, ast.While)):
                    continue

    def _note_calls(test: ast.expr, assign, ev) -> None:
        pass

    def _ev(test: ast.expr, assign: dict[str, Any], ev: dict[str, Any]) -> Any:
        class E(Evaluator):
            def ev(self, e):  # record which predicate calls are evaluated
                if isinstance(e, ast.Call) and norm(e) in self.assign:
                    ev["evaluated"].add(norm(e))
                return super().ev(e)
        return E(assign).ev(test)

    # discover atoms
    atoms: dict[str, tuple] = {}

    def discover(assign: dict[str, Any]) -> None:
        ev = {"emitted": 0, "descended": False, "evaluated": set(), "emit_args": []}
        try:
            walk(m.loop.body, assign, ev)
        except Stop:
            pass
        except NeedAtom as n:
            if n.key not in atoms:
                atoms[n.key] = (True, False)
                if len(atoms) > 8:
                    raise Unsupported("too many atoms in the traversal loop body", m.loop)
            for v in (True, False):
                a2 = dict(assign)
                a2[n.key] = v
                discover(a2)

    discover(dict(m.mode))
    keys = list(atoms)
    for combo in itertools.product((True, False), repeat=len(keys)):
        assign = dict(m.mode)
        assign.update(dict(zip(keys, combo)))
        ev = {"emitted": 0, "descended": False, "evaluated": set(), "emit_args": [], "left_loop": False}
        try:
            walk(m.loop.body, assign, ev)
        except Stop:
            pass
        row = dict(zip(keys, combo))
        row.update({"emitted": ev["emitted"], "descended": ev["descended"], "evaluated": sorted(ev["evaluated"]),
                    "emit_args": ev["emit_args"], "left_loop": ev["left_loop"], "stmts": ev.get("stmts", [])})
        rows.append(row)
    return rows


def _emit_arg(n: ast.AST) -> str:
    if isinstance(n, ast.Yield):
        return norm(n.value) if n.value is not None else "None"
    if isinstance(n, ast.Call) and n.args:
        return norm(n.args[0])
    return "?"
