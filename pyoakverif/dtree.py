"""Decision trees of loop-free code over guard atoms.

``decision_tree`` walks a statement list; whenever a branch condition needs an
atom that has no value yet, the walk forks on that atom.  Every leaf is a
(partial) assignment of atoms together with the way the region is left
(return <expr> / raise <expr> / fall through / continue / break) and the simple
statements executed on the way.  Local aliases (``x = <guard expression>``)
are inlined.  This decides propositional structure; nothing is executed.
"""
from __future__ import annotations

import ast
from dataclasses import dataclass, field
from typing import Any, Callable

from .astutil import dotted, norm
from .finite import Evaluator, NeedAtom
from .srcmodel import Unsupported


@dataclass
class Leaf:
    assign: dict[str, Any]
    outcome: str  # return | raise | fall | continue | break
    value: ast.expr | None
    stmts: list[ast.stmt] = field(default_factory=list)
    evaluated: list[str] = field(default_factory=list)  # atoms in evaluation order
    ver: dict[str, int] = field(default_factory=dict)  # versions of locals rebound after they had been tested (see decision_tree)
    pre_resolved: bool = False  # the tree was built with resolve=...: stmts and value are resolved already (resolving twice is wrong for x = f(x))

    def versioned(self, e: ast.expr | None) -> ast.expr | None:
        return _versioned(e, self.ver) if e is not None else None

    def val(self) -> str | None:
        return norm(self.value) if self.value is not None else None

    def resolved(self, calls: bool = False) -> tuple[list[ast.stmt], ast.expr | None]:
        """Executed statements and leaving value with path-local pure definitions substituted (normalize.resolve_path)."""
        from .normalize import resolve_path
        if self.pre_resolved:
            return list(self.stmts), self.value
        tail = [ast.Expr(value=self.value)] if self.value is not None else []
        for t in tail:
            ast.copy_location(t, self.value)
        out = resolve_path(list(self.stmts) + tail, allow_calls=calls)
        if tail:
            return out[:-1], out[-1].value  # type: ignore[attr-defined]
        return out, None

    def rval(self, calls: bool = False) -> str | None:
        v = self.resolved(calls)[1]
        return norm(v) if v is not None else None


def _versioned(e: ast.AST, ver: dict[str, int]) -> Any:
    """x -> x__v<k> for locals that were rebound after an atom had been decided on them: a later test is a different atom."""
    if not ver or not any(isinstance(n, ast.Name) and ver.get(n.id) for n in ast.walk(e)):
        return e
    import copy

    e = copy.deepcopy(e)
    for n in ast.walk(e):
        if isinstance(n, ast.Name) and ver.get(n.id):
            n.id = f"{n.id}__v{ver[n.id]}"
    return e


class _Recording(dict):  # type: ignore[type-arg]
    """The assignment handed to the evaluator: records which atoms were read (evaluation order)."""

    def __init__(self, base: dict[str, Any], order: list[str]) -> None:
        super().__init__(base)
        self._order = order

    def __getitem__(self, k: str) -> Any:
        if k not in self._order:
            self._order.append(k)
        return super().__getitem__(k)

    def get(self, k: str, default: Any = None) -> Any:  # type: ignore[override]
        if k in self and k not in self._order:
            self._order.append(k)
        return super().get(k, default)


class _Leave(Exception):
    def __init__(self, outcome: str, value: ast.expr | None) -> None:
        self.outcome = outcome
        self.value = value


class _AliasEval(Evaluator):
    def __init__(self, assign: dict[str, Any], aliases: dict[str, ast.expr], order: list[str], call_hook=None, sized=()) -> None:
        super().__init__(assign)
        self.aliases = aliases
        self.order = order
        self.call_hook = call_hook
        self.sized = sized

    def ev(self, e: ast.AST) -> Any:
        if self.sized and isinstance(e, (ast.Name, ast.Attribute, ast.Subscript, ast.Call)) and norm(e) in self.sized:
            # truthiness of a list / tuple / dict the rule knows to be one: len(x) > 0
            k = f"len({norm(e)})"
            if k not in self.assign:
                raise NeedAtom(k, e)
            return self.assign[k] > 0
        if isinstance(e, ast.Name) and e.id in self.aliases and norm(e) not in self.assign:
            return self.ev(self.aliases[e.id])
        if self.call_hook is not None and isinstance(e, ast.Call) and norm(e) not in self.assign:
            r = self.call_hook(e, self.assign)
            if r is not NotImplemented:
                return r
        try:
            v = super().ev(e)
        except NeedAtom:
            raise
        return v


class StripCasts(ast.NodeTransformer):
    """cast(T, x) -> x (typing no-op)."""

    def visit_Call(self, node: ast.Call) -> ast.AST:
        self.generic_visit(node)
        if dotted(node.func) in ("cast", "t.cast", "typing.cast") and len(node.args) == 2:
            return node.args[1]
        return node


def strip_casts(stmts: list[ast.stmt]) -> list[ast.stmt]:
    import copy

    return [ast.fix_missing_locations(StripCasts().visit(copy.deepcopy(s))) for s in stmts]


def decision_tree(
    stmts: list[ast.stmt],
    preset: dict[str, Any] | None = None,
    *,
    loop_hook: Callable[[ast.stmt, dict[str, Any]], str | None] | None = None,
    alias_filter: Callable[[ast.Assign], bool] | None = None,
    max_atoms: int = 12,
    domain: Callable[[str], tuple] | None = None,
    try_as_body: bool = False,
    call_hook: Callable[[ast.Call, dict[str, Any]], Any] | None = None,
    sized: tuple = (),
    resolve: bool | str = False,
) -> list[Leaf]:
    """Enumerate the leaves.  ``loop_hook(loop, assign)`` may interpret a loop: it returns
    None (loop is an opaque simple statement), or "return-false"/"return-true"... handled by caller
    through raising; by default loops are opaque."""
    leaves: list[Leaf] = []
    dom = domain or (lambda k: (0, 1, 2) if k.startswith("len(") else (True, False))

    def run(assign: dict[str, Any]) -> None:
        aliases: dict[str, ast.expr] = {}
        executed: list[ast.stmt] = []
        order: list[str] = []
        pe = None
        if resolve:
            from .normalize import PathEnv
            pe = PathEnv(allow_calls=(resolve == "calls"))

        ver: dict[str, int] = {}

        def evaluate(e: ast.expr) -> Any:
            return _AliasEval(_Recording(assign, order), aliases, order, call_hook, sized).ev(_versioned(e, ver))

        def vname(x: str) -> str:
            return f"{x}__v{ver[x]}" if ver.get(x) else x

        def rebind(names: Any) -> None:
            # a local that was already tested on this path and is bound again: later tests on it are other atoms
            import re
            for x in names:
                cur = vname(x)
                pat = re.compile(rf"(?<![\w.]){re.escape(cur)}(?!\w)")
                if any(pat.search(k) for k in order):
                    ver[x] = ver.get(x, 0) + 1

        def stores(st: ast.AST) -> set[str]:
            return {n.id for n in ast.walk(st) if isinstance(n, ast.Name) and isinstance(n.ctx, ast.Store)}

        def block(ss: list[ast.stmt]) -> None:
            for st in ss:
                if isinstance(st, ast.Expr) and isinstance(st.value, ast.Constant):
                    continue
                if isinstance(st, ast.If):
                    v = evaluate(pe.apply(st.test) if pe is not None else st.test)
                    block(st.body if v else st.orelse)
                    continue
                if pe is not None and not isinstance(st, (ast.Try, ast.With)):
                    st = pe.apply(st)  # type: ignore[assignment]
                    if not isinstance(st, (ast.Return, ast.Raise)):
                        pe.update(st)
                if isinstance(st, ast.Return):
                    raise _Leave("return", st.value)
                elif isinstance(st, ast.Raise):
                    raise _Leave("raise", st.exc)
                elif isinstance(st, ast.Continue):
                    raise _Leave("continue", None)
                elif isinstance(st, ast.Break):
                    raise _Leave("break", None)
                elif isinstance(st, ast.Assert):
                    executed.append(st)
                elif isinstance(st, (ast.For, ast.While, ast.AsyncFor)):
                    if loop_hook is not None:
                        r = loop_hook(st, assign)
                        if isinstance(r, _Leave):
                            raise r
                        if isinstance(r, list):  # a summary of the loop, written as statements: interpreted in its place
                            block(r)
                            continue
                    rebind(stores(st))
                    executed.append(st)
                elif isinstance(st, ast.Try):
                    if not try_as_body:
                        raise Unsupported("try statement inside a decided region", st)
                    # only the non-exceptional flow is enumerated
                    block(st.body)
                    block(st.orelse)
                    block(st.finalbody)
                elif isinstance(st, ast.Match):
                    raise Unsupported("match statement with structural patterns inside a decided region", st)
                elif isinstance(st, ast.With):
                    rebind({n.id for it in st.items if it.optional_vars is not None for n in ast.walk(it.optional_vars) if isinstance(n, ast.Name)})
                    block(st.body)
                else:
                    if isinstance(st, ast.Assign) and len(st.targets) == 1 and isinstance(st.targets[0], ast.Name) \
                            and (alias_filter is None or alias_filter(st)) and _is_guardish(st.value):
                        val = _versioned(st.value, ver)
                        rebind([st.targets[0].id])
                        aliases[vname(st.targets[0].id)] = val
                    elif isinstance(st, (ast.Assign, ast.AnnAssign, ast.AugAssign)):
                        # (a local the path environment resolves never occurs in a later test under its own name)
                        rebind({x for x in stores(st) if pe is None or x not in pe.env})
                        tg = st.targets[0] if isinstance(st, ast.Assign) else st.target
                        if isinstance(tg, ast.Name):
                            aliases.pop(vname(tg.id), None)
                    executed.append(st)

        try:
            try:
                block(stmts)
                leaves.append(Leaf(dict(assign), "fall", None, executed, order, dict(ver), bool(resolve)))
            except _Leave as l:
                leaves.append(Leaf(dict(assign), l.outcome, l.value, executed, order, dict(ver), bool(resolve)))
        except NeedAtom as n:
            if len(assign) >= max_atoms:
                raise Unsupported(f"more than {max_atoms} atoms in decided region (next: {n.key})", n.node)
            for v in dom(n.key):
                a2 = dict(assign)
                a2[n.key] = v
                run(a2)

    run(dict(preset or {}))
    return leaves


def leave(outcome: str, value: ast.expr | None = None) -> _Leave:
    return _Leave(outcome, value)


def _is_guardish(e: ast.expr) -> bool:
    """Expressions worth inlining as aliases along a path: comparisons, boolean combinations, not, and pure predicate calls."""
    if isinstance(e, (ast.Compare, ast.BoolOp)) or (isinstance(e, ast.UnaryOp) and isinstance(e.op, ast.Not)):
        return True
    if isinstance(e, ast.Call):
        from .normalize import is_pure_expr
        return is_pure_expr(e) and (dotted(e.func) in ("isinstance", "issubclass", "hasattr", "any", "all", "bool"))
    if isinstance(e, ast.Constant) and isinstance(e.value, bool):
        return True
    return False


def ret_bool(leaf: Leaf) -> bool | None:
    """Constant truth value returned by a leaf, if it returns a constant."""
    if leaf.outcome == "return" and isinstance(leaf.value, ast.Constant) and isinstance(leaf.value.value, bool):
        return leaf.value.value
    return None


def eval_leaf_value(leaf: Leaf, call_hook=None, sized=()) -> Any:
    """Evaluate the returned expression under the leaf's assignment (may raise NeedAtom)."""
    if leaf.value is None:
        return None
    return _AliasEval(leaf.assign, {}, [], call_hook, sized).ev(_versioned(leaf.value, leaf.ver))


def bool_function(stmts: list[ast.stmt], preset: dict[str, Any] | None = None, **kw: Any) -> list[tuple[dict[str, Any], bool, Leaf]]:
    """Decision tree of a predicate: every leaf returns a boolean expression; leaves are refined until the
    returned expression is decided.  Result rows: (assignment, value, leaf)."""
    rows: list[tuple[dict[str, Any], bool, Leaf]] = []
    work = decision_tree(stmts, preset, **kw)
    dom = kw.get("domain") or (lambda k: (0, 1, 2) if k.startswith("len(") else (True, False))
    while work:
        lf = work.pop()
        if lf.outcome == "fall":
            rows.append((lf.assign, None, lf))  # type: ignore[arg-type]
            continue
        if lf.outcome != "return":
            rows.append((lf.assign, lf.outcome, lf))  # type: ignore[arg-type]
            continue
        try:
            v = eval_leaf_value(lf, kw.get("call_hook"), kw.get("sized", ()))
            rows.append((lf.assign, v, lf))
        except NeedAtom as n:
            for val in dom(n.key):
                a2 = dict(lf.assign)
                a2[n.key] = val
                work.append(Leaf(a2, lf.outcome, lf.value, lf.stmts, lf.evaluated, lf.ver, lf.pre_resolved))
    return rows


def check_formula(rows: list[tuple[dict[str, Any], Any, Leaf]], known: list[str], formula: Callable[[dict[str, Any]], Any], *,
                  feasible: Callable[[dict[str, Any]], bool] | None = None, domain: Callable[[str], tuple] | None = None,
                  where: ast.AST | None = None, outcome: Callable[[Leaf], Any] | None = None) -> list[dict[str, Any]]:
    """Compare the rows of bool_function with a reference formula over ``known`` atoms.  A row is a partial assignment: it
    is right iff every feasible completion gives the row's value.  Atoms outside ``known`` -> Unsupported (not a verdict).
    Returns the wrong rows (empty list: the function computes the formula)."""
    import itertools
    dom = domain or (lambda k: (True, False))
    bad: list[dict[str, Any]] = []
    # atoms outside ``known`` are tolerated when the result never depends on them (e.g. guards of dead stores)
    proj: dict[tuple, set] = {}
    for a, v, lf in rows:
        got = outcome(lf) if outcome is not None else (bool(v) if lf.outcome == "return" else lf.outcome)
        proj.setdefault(tuple(sorted((k, x) for k, x in a.items() if k in known)), set()).add(got)
    for a, v, lf in rows:
        unknown = [k for k in a if k not in known]
        if unknown and len(proj[tuple(sorted((k, x) for k, x in a.items() if k in known))]) > 1:
            raise Unsupported(f"decides on {unknown}", where)
        a = {k: x for k, x in a.items() if k in known}
        got = outcome(lf) if outcome is not None else (bool(v) if lf.outcome == "return" else lf.outcome)
        free = [k for k in known if k not in a]
        vals = set()
        for combo in itertools.product(*[dom(k) for k in free]):
            full = dict(a)
            full.update(dict(zip(free, combo)))
            if feasible is not None and not feasible(full):
                continue
            vals.add(formula(full))
        if vals and vals != {got}:
            bad.append({"row": a, "value": got, "expected": sorted(vals, key=str)})
    return bad
