"""Obligations, verdicts, evidence files, known findings, exit codes."""
from __future__ import annotations

import ast
import json
import os
import sys
import time
import traceback
from dataclasses import dataclass, field
from pathlib import Path
from typing import Any, Callable

from .astutil import norm
from .srcmodel import AnchorMissing, Func, Mod, Repo, Unsupported

VERIF = Path(__file__).resolve().parent.parent
KNOWN_FILE = VERIF / "known_findings.json"
EVIDENCE_DIR = Path(os.environ.get("PYOAK_VERIF_EVIDENCE_DIR") or VERIF / "evidence")
OUT_DIR = Path(os.environ.get("PYOAK_VERIF_OUT_DIR") or VERIF / "out")

HOLDS, VIOLATION, INCOMPLETE = "HOLDS", "VIOLATION", "INCOMPLETE"


@dataclass
class Ob:
    rule: str
    verdict: str
    module: str
    function: str
    line: int
    what: str  # obligation in words
    construct: str = ""  # stable key of the offending construct (violations)
    facts: dict[str, Any] = field(default_factory=dict)
    evaluations: int = 1

    def site(self) -> str:
        return f"{self.module}:{self.function}:{self.line}"

    def as_dict(self) -> dict[str, Any]:
        d = {
            "rule": self.rule,
            "verdict": self.verdict,
            "site": self.site(),
            "obligation": self.what,
        }
        if self.construct:
            d["construct"] = self.construct
        if self.facts:
            d["facts"] = self.facts
        return d


class Checker:
    def __init__(self, pid: str, tier: str, repo: Repo) -> None:
        self.pid = pid
        self.tier = tier
        self.repo = repo
        self.obs: list[Ob] = []
        self.t0 = time.time()
        self.assumptions: list[str] = []
        self.explanation = ""
        self.rule_text = ""
        self.min_counts: dict[str, int] = {}
        self.sensitivity: dict[str, Any] | None = None

    # ------------------------------------------------------------ recording
    def _site(self, where: Func | Mod | tuple[str, str] | None, node: ast.AST | None) -> tuple[str, str, int]:
        line = getattr(node, "lineno", 0) if node is not None else 0
        if isinstance(where, Func):
            return where.mod.rel, where.qualname, line or where.node.lineno
        if isinstance(where, Mod):
            return where.rel, "<module>", line
        if isinstance(where, tuple):
            return where[0], where[1], line
        return "?", "?", line

    def holds(self, rule: str, where, node, what: str, evaluations: int = 1, **facts: Any) -> None:
        m, f, l = self._site(where, node)
        self.obs.append(Ob(rule, HOLDS, m, f, l, what, "", facts, evaluations))

    def violation(self, rule: str, where, node, what: str, construct: str, evaluations: int = 1, positive: bool = False, also: tuple = (), **facts: Any) -> None:
        """``positive``: the verdict names a construct that *is there* (a wrong operand, a forbidden call ...), as opposed to one that
        rests on not finding the expected construct.  The latter kind is withheld for functions that no longer resemble the audited
        ones (pyoakverif/shape.py): not recognising a rewritten function is not evidence against it."""
        m, f, l = self._site(where, node)
        if not positive and not os.environ.get("PYOAK_VERIF_NO_SHAPE_GATE"):
            from . import shape
            fn_ = self._func_of(where)
            gone = False
            sim = delta = None
            # (`also`: further functions whose reading the verdict rests on — a comparison of two siblings reads both)
            for cand in [fn_] + [self._func_of(a) for a in also]:
                if cand is None:
                    continue
                g_, s_, d_ = shape.rewritten(cand.key, cand.raw or cand.node)
                if cand is fn_:
                    sim = s_
                if g_:
                    gone, fn_, sim, delta = True, cand, s_, d_
                    break
            if fn_ is not None:
                if gone:
                    # decided in finish(): a verdict that matches a recorded known finding (a defect confirmed concretely) is kept
                    facts = dict(facts, shape_similarity=sim, _withhold=(
                        f"verdict withheld ({construct[:160]}): {fn_.qualname} was rewritten (similarity "
                        f"{sim if sim is not None else 'n/a: not on the audited tree'} to the audited shape, {delta} shape lines changed); "
                        "the rule's reading of it is not reliable enough to report what it did not find"))
                else:
                    facts = dict(facts, shape_similarity=sim)
        self.obs.append(Ob(rule, VIOLATION, m, f, l, what, construct, facts, evaluations))

    def _func_of(self, where) -> Func | None:
        if isinstance(where, Func):
            return where
        if isinstance(where, tuple) and len(where) == 2:
            for mod in self.repo.mods.values():
                if mod.rel == where[0]:
                    q = where[1]
                    try:
                        if self.repo.has_func(mod.name, q):
                            return self.repo.func(mod.name, q)
                    except Exception:
                        return None
        return None

    def incomplete(self, rule: str, where, node, what: str, **facts: Any) -> None:
        m, f, l = self._site(where, node)
        self.obs.append(Ob(rule, INCOMPLETE, m, f, l, what, "", facts))

    def require_count(self, rule: str, minimum: int) -> None:
        """A rule that inspected fewer instances than confirmed by hand is incomplete, never a vacuous pass."""
        self.min_counts[rule] = minimum

    def guard(self, rule: str, fn: Callable[[], None], where=None) -> None:
        """Run one rule; a vanished anchor or an unsupported idiom makes the rule INCOMPLETE."""
        try:
            fn()
        except AnchorMissing as e:
            self.obs.append(Ob(rule, INCOMPLETE, "?", "?", 0, f"anchor missing: {e.what}"))
        except Unsupported as e:
            line = getattr(e.node, "lineno", 0) if e.node is not None else 0
            m, f, _ = self._site(where, None)
            self.obs.append(Ob(rule, INCOMPLETE, m, f, line, f"unsupported idiom: {e.what}"))

    # ------------------------------------------------------------ finishing
    def finish(self) -> int:
        counts: dict[str, int] = {}
        for o in self.obs:
            counts[o.rule] = counts.get(o.rule, 0) + 1
        for rule, mn in self.min_counts.items():
            if counts.get(rule, 0) < mn:
                self.obs.append(
                    Ob(rule, INCOMPLETE, "?", "?", 0,
                       f"rule matched {counts.get(rule, 0)} instances, fewer than the {mn} confirmed by hand")
                )
        known = load_known()
        for o in self.obs:
            if o.verdict == VIOLATION and "_withhold" in o.facts:
                msg = o.facts.pop("_withhold")
                if match_known(known, self.pid, o) is None:
                    o.verdict, o.what, o.construct = INCOMPLETE, msg, ""
        viol = [o for o in self.obs if o.verdict == VIOLATION]
        inc = [o for o in self.obs if o.verdict == INCOMPLETE]
        new_viol: list[Ob] = []
        known_hit: list[tuple[Ob, dict[str, Any]]] = []
        for o in viol:
            k = match_known(known, self.pid, o)
            if k is not None:
                known_hit.append((o, k))
            else:
                new_viol.append(o)

        wall = time.time() - self.t0
        self._write_evidence(wall, new_viol, known_hit, inc)

        printed_known = set()
        for o, k in known_hit:
            if k["id"] in printed_known:
                continue
            printed_known.add(k["id"])
            print(f"KNOWN-FINDING: property={self.pid} {k['id']} {o.rule} at {o.site()}: {k['what_fails']}")
        n_holds = sum(1 for o in self.obs if o.verdict == HOLDS)
        print(
            f"[{self.pid}] tier={self.tier} obligations={len(self.obs)} holds={n_holds} "
            f"violations={len(new_viol)} known={len(known_hit)} incomplete={len(inc)} wall={wall:.2f}s"
        )
        for o in inc:
            print(f"ANALYSIS-INCOMPLETE property={self.pid} rule={o.rule} construct={o.site()} reason={o.what}")
        if new_viol:
            OUT_DIR.mkdir(parents=True, exist_ok=True)
            for i, o in enumerate(new_viol):
                rp = OUT_DIR / f"{self.pid}-violation-{i}.json"
                rp.write_text(json.dumps({"property": self.pid, **o.as_dict()}, indent=1, default=str))
                print(f"  {o.rule}: {o.site()}: {o.what} [{o.construct}]")
                print(f"VIOLATION property={self.pid} replay={rp}")
            return 1
        if inc:
            return 2
        return 0

    def _write_evidence(self, wall: float, new_viol, known_hit, inc) -> None:
        EVIDENCE_DIR.mkdir(parents=True, exist_ok=True)
        distinct = {(o.rule, o.module, o.function, o.what) for o in self.obs if o.verdict != INCOMPLETE}
        rules: dict[str, dict[str, int]] = {}
        for o in self.obs:
            r = rules.setdefault(o.rule, {"instances": 0, "holds": 0, "violations": 0, "incomplete": 0, "evaluations": 0})
            r["instances"] += 1
            r["evaluations"] += o.evaluations
            r[{"HOLDS": "holds", "VIOLATION": "violations", "INCOMPLETE": "incomplete"}[o.verdict]] += 1
        samples = [o.as_dict() for o in self.obs[:60]]
        known_ids = {id(o) for o, _ in known_hit}
        for o in self.obs:  # make sure every non-holding obligation is written out
            if o.verdict != HOLDS and o.as_dict() not in samples:
                samples.append(o.as_dict())
        ev = {
            "property_id": self.pid,
            "tier": self.tier,
            "seed": int(os.environ.get("VERIF_SEED", "0") or 0),
            "level": "other",
            "coverage": {
                "explanation": self.explanation,
                "rule": self.rule_text,
                "obligations": len(self.obs),
                "discharged": sum(1 for o in self.obs if o.verdict == HOLDS),
                "evaluations": sum(o.evaluations for o in self.obs),
                "distinct_nontrivial": len(distinct),
                "exhaustive": not inc,
                "rules": rules,
                "samples": samples,
                "known_findings_matched": sorted({k["id"] for _, k in known_hit}),
                "incomplete": [o.as_dict() for o in inc],
                "checker_cmd": f"./check {self.pid} --tier {self.tier}",
                "trusted_base": ["CPython 3.12 ast parser", "the analyser itself (exercised both ways by ./selftest)"],
                "analysed_modules": self.repo.digests(),
                **({"sensitivity_audit": self.sensitivity} if self.sensitivity is not None else {}),
            },
            "assumptions": self.assumptions,
            "wall_s": round(wall, 3),
            "violations": len(new_viol),
        }
        (EVIDENCE_DIR / f"{self.pid}.json").write_text(json.dumps(ev, indent=1, default=str) + "\n")


def load_known() -> list[dict[str, Any]]:
    if not KNOWN_FILE.exists():
        return []
    data = json.loads(KNOWN_FILE.read_text())
    return [e for e in data.get("findings", []) if e.get("status") == "known"]


def match_known(known: list[dict[str, Any]], pid: str, o: Ob) -> dict[str, Any] | None:
    for k in known:
        if pid not in k.get("properties", [k.get("property")]):
            continue
        if k["rule"] != o.rule:
            continue
        if k.get("module") and k["module"] != o.module:
            continue
        if k.get("function") and k["function"] != o.function:
            continue
        if k.get("construct") and k["construct"] != o.construct:
            continue
        return k
    return None


def run_check(pid: str, tier: str, body: Callable[[Checker], None]) -> int:
    try:
        repo = Repo()
        ck = Checker(pid, tier, repo)
        body(ck)
        if tier == "thorough" and not os.environ.get("PYOAK_VERIF_REPO"):
            try:
                ck.sensitivity = sensitivity_audit(pid, {repo.mods[n].rel for n in repo.consulted if n in repo.mods})
            except Exception as e:  # the audit is informational, never a verdict
                ck.sensitivity = {"error": f"{type(e).__name__}: {e}"}
        return ck.finish()
    except (AnchorMissing, Unsupported) as e:
        print(f"ANALYSIS-INCOMPLETE property={pid} construct=? reason={e}")
        return 2
    except Exception:  # a traceback must never look like a violation
        traceback.print_exc()
        print(f"ANALYSIS-ERROR property={pid}")
        return 2


def sensitivity_audit(pid: str, consulted: set[str] | None = None) -> dict[str, Any]:
    """Thorough tier: re-derive the recorded breaking / behaviour-preserving variants of this property from the
    current tree (scratch copies outside /repo and /verif, removed afterwards) and run the quick analysis on each.
    Informational: it measures that the rules still have teeth on today's source; it is never a verdict on /repo."""
    import concurrent.futures as cf
    import shutil
    import subprocess
    import tempfile

    sys.path.insert(0, str(VERIF))
    try:
        from selftest_cases import CASES
    finally:
        sys.path.pop(0)
    cases = [c for c in CASES if (pid in c["prop"] if isinstance(c["prop"], list) else c["prop"] == pid)]

    def one(case: dict[str, Any]) -> tuple[str, str]:
        tmp = tempfile.mkdtemp(prefix="pyoakverif-audit-")
        try:
            shutil.copytree(str(REPO_SRC()), os.path.join(tmp, "src"))
            for rel, old, new in case["edits"]:
                p = os.path.join(tmp, rel)
                txt = open(p).read()
                if txt.count(old) != 1:
                    return case["name"], "not-applicable"
                open(p, "w").write(txt.replace(old, new))
            env = dict(os.environ, PYOAK_VERIF_REPO=tmp, PYOAK_VERIF_EVIDENCE_DIR=os.path.join(tmp, "ev"), PYOAK_VERIF_OUT_DIR=os.path.join(tmp, "out"), VERIF_TIER="quick")
            r = subprocess.run([str(VERIF / "check"), pid, "--tier", "quick"], capture_output=True, text=True, env=env, cwd=str(VERIF))
            if case["expect"] == "fire":
                return case["name"], "detected" if r.returncode == 1 else ("incomplete" if r.returncode == 2 else "missed")
            return case["name"], "silent" if r.returncode == 0 else "alarm"
        finally:
            shutil.rmtree(tmp, ignore_errors=True)

    # the stored corpora written by independent sub-agents: seeded breaking changes of this property, and all
    # behaviour-preserving refactorings (any of them may touch code this property's rules read)
    import glob
    import json as _json

    corpus: list[dict[str, Any]] = []
    for d in sorted(glob.glob(str(VERIF / "seeded" / "*"))):
        try:
            meta = _json.load(open(os.path.join(d, "meta.json")))
        except Exception:
            continue
        if meta.get("breaks_property") == pid:
            corpus.append({"name": "seeded:" + os.path.basename(d), "patch": os.path.join(d, "patch.diff"), "expect": "fire"})
    skipped = 0
    for d in sorted(glob.glob(str(VERIF / "refactors" / "*"))):
        pf = os.path.join(d, "patch.diff")
        if os.path.exists(pf):
            if consulted is not None:
                # only the refactorings that touch a module this property's rules consult can change its verdict
                touched = {l[6:].strip() for l in open(pf, errors="replace") if l.startswith("+++ b/")}
                if not (touched & consulted):
                    skipped += 1
                    continue
            corpus.append({"name": "refactor:" + os.path.basename(d), "patch": pf, "expect": "silent"})

    def one_patch(case: dict[str, Any]) -> tuple[str, str]:
        tmp = tempfile.mkdtemp(prefix="pyoakverif-audit-")
        try:
            shutil.copytree(str(REPO_SRC()), os.path.join(tmp, "src"))
            r = subprocess.run(["patch", "-p1", "-s", "-f", "-d", tmp, "-i", case["patch"]], capture_output=True, text=True)
            if r.returncode != 0:
                return case["name"], "not-applicable"
            env = dict(os.environ, PYOAK_VERIF_REPO=tmp, PYOAK_VERIF_EVIDENCE_DIR=os.path.join(tmp, "ev"), PYOAK_VERIF_OUT_DIR=os.path.join(tmp, "out"), VERIF_TIER="quick")
            r = subprocess.run([str(VERIF / "check"), pid, "--tier", "quick"], capture_output=True, text=True, env=env, cwd=str(VERIF))
            if case["expect"] == "fire":
                return case["name"], "detected" if r.returncode == 1 else ("incomplete" if r.returncode == 2 else "missed")
            return case["name"], "silent" if r.returncode == 0 else ("incomplete" if r.returncode == 2 else "alarm")
        finally:
            shutil.rmtree(tmp, ignore_errors=True)

    with cf.ThreadPoolExecutor(16) as ex:
        results = list(ex.map(one, cases)) + list(ex.map(one_patch, corpus))
    summary: dict[str, Any] = {"variants": len(results), "selftest_variants": len(cases), "stored_patches": len(corpus), "refactorings_not_touching_consulted_modules": skipped}
    for k in ("detected", "missed", "incomplete", "silent", "alarm", "not-applicable"):
        names = [n for n, r in results if r == k]
        summary[k] = len(names)
        if k in ("missed", "alarm", "incomplete") and names:
            summary[k + "_names"] = names
    return summary


def REPO_SRC() -> Path:
    from .srcmodel import REPO_ROOT
    return REPO_ROOT / "src"
