"""Normalisation of function bodies before the rules look at them.

Two behaviour-preserving rewrites make the rules independent of how a maintainer names or splits code:

1. **Helper inlining.**  A call of a *private helper that does not exist on the pinned tree* (``baseline_names.json``)
   is replaced by the helper's body (statement level: ``f(..)``, ``x = f(..)``, ``return f(..)`` for helpers with a
   single trailing return; expression level for helpers whose body is ``return <expr>``).  So "extract helper"
   refactorings are analysed as if the code were still in place.  Functions that exist on the pinned tree are never
   inlined: they are analysed as units by their own rules.
2. **Local inlining.**  A local that is assigned exactly once from a side-effect-free expression, and whose definition
   dominates all its uses with no clobbering statement in between, is replaced by that expression everywhere.
   Afterwards conditions, returned values and effects are expressed over parameters, ``self``, loop variables and the
   results of effectful calls only — the canonical form the rules are written against.
``cast(T, x)`` is replaced by ``x``.
"""
from __future__ import annotations

import ast
import copy
import json
from pathlib import Path
from typing import Any, Iterable

from .astutil import dotted, norm

VERIF = Path(__file__).resolve().parent.parent
BASELINE_FILE = VERIF / "baseline_names.json"

PURE_FUNCS = {
    "str", "repr", "len", "type", "isinstance", "issubclass", "getattr", "hasattr", "cast", "t.cast", "typing.cast", "tuple", "list",
    "dict", "set", "frozenset", "sorted", "reversed", "enumerate", "zip", "any", "all", "min", "max", "int", "bool", "float", "id",
    "getmro", "inspect.getmro", "get_args", "get_origin", "fields", "dataclasses.fields", "iter", "range", "format", "abs",
    "is_union", "is_optional", "is_tuple", "is_collection", "is_mutable_collection", "is_new_type", "is_literal", "is_type_generic",
    "is_classvar", "is_initvar", "is_dataclass_kw_only", "unwrap_newtype", "has_check_type_in_type", "is_valid_property_type",
    "is_valid_child_field_type", "_is_valid_child_field_type", "get_cls_child_fields", "get_cls_props", "get_cls_all_fields",
    "itemgetter", "operator.itemgetter",
}
PURE_METHODS = {
    "get", "items", "keys", "values", "startswith", "endswith", "join", "format", "split", "strip", "lower", "upper", "replace",
    "match", "search", "fullmatch", "is_equal", "overlaps", "get_parent", "get_parent_info", "is_ancestor", "get_ancestors", "is_in_tree",
    "is_root", "get_child_nodes", "get_child_nodes_with_field", "iter_child_fields", "dfs", "bfs", "get_child_fields", "ancestors",
    "get_properties", "get_property_fields", "as_posix", "issubset", "index", "count", "copy", "encode", "hexdigest",
}


def load_baseline() -> dict[str, set[str]]:
    if not BASELINE_FILE.exists():
        return {}
    d = json.loads(BASELINE_FILE.read_text())
    return {k: set(v) for k, v in d.items()}


def is_pure_expr(e: ast.AST) -> bool:
    for n in ast.walk(e):
        if isinstance(n, ast.Call):
            name = dotted(n.func)
            if name in PURE_FUNCS:
                continue
            if isinstance(n.func, ast.Attribute) and n.func.attr in PURE_METHODS:
                continue
            return False
        if isinstance(n, (ast.Await, ast.Yield, ast.YieldFrom, ast.NamedExpr, ast.Lambda)):
            return False
        if isinstance(n, (ast.ListComp, ast.SetComp, ast.DictComp, ast.GeneratorExp)):
            continue
    return True


class _StripCasts(ast.NodeTransformer):
    def visit_Call(self, node: ast.Call) -> ast.AST:
        self.generic_visit(node)
        if dotted(node.func) in ("cast", "t.cast", "typing.cast") and len(node.args) == 2:
            return node.args[1]
        return node


class _Subst(ast.NodeTransformer):
    def __init__(self, mapping: dict[str, ast.expr]) -> None:
        self.m = mapping

    def visit_Name(self, node: ast.Name) -> ast.AST:
        if isinstance(node.ctx, ast.Load) and node.id in self.m:
            new = copy.deepcopy(self.m[node.id])
            return ast.copy_location(new, node)
        return node

    # do not descend into nested function definitions that rebind the name as a parameter
    def visit_FunctionDef(self, node: ast.FunctionDef) -> ast.AST:
        params = {a.arg for a in node.args.args + node.args.kwonlyargs + node.args.posonlyargs}
        saved = self.m
        self.m = {k: v for k, v in self.m.items() if k not in params}
        self.generic_visit(node)
        self.m = saved
        return node

    def visit_Lambda(self, node: ast.Lambda) -> ast.AST:
        params = {a.arg for a in node.args.args}
        saved = self.m
        self.m = {k: v for k, v in self.m.items() if k not in params}
        self.generic_visit(node)
        self.m = saved
        return node


class _Rename(ast.NodeTransformer):
    def __init__(self, mapping: dict[str, str]) -> None:
        self.m = mapping

    def visit_Name(self, node: ast.Name) -> ast.AST:
        if node.id in self.m:
            return ast.copy_location(ast.Name(id=self.m[node.id], ctx=node.ctx), node)
        return node

    def visit_Nonlocal(self, node: ast.Nonlocal) -> ast.AST:
        return node


def _stores(fn: ast.AST) -> dict[str, int]:
    counts: dict[str, int] = {}

    def add(n: str) -> None:
        counts[n] = counts.get(n, 0) + 1

    for n in ast.walk(fn):
        if isinstance(n, ast.Name) and isinstance(n.ctx, (ast.Store, ast.Del)):
            add(n.id)
        elif isinstance(n, (ast.FunctionDef, ast.AsyncFunctionDef, ast.ClassDef)) and n is not fn:
            add(n.name)
        elif isinstance(n, ast.ExceptHandler) and n.name:
            add(n.name)
        elif isinstance(n, (ast.Global, ast.Nonlocal)):
            for x in n.names:
                add(x)
                add(x)
        elif isinstance(n, ast.arg):
            add(n.arg)
    return counts


def _blocks(node: ast.AST) -> Iterable[list[ast.stmt]]:
    for f in ("body", "orelse", "finalbody"):
        b = getattr(node, f, None)
        if isinstance(b, list) and b and isinstance(b[0], ast.stmt):
            yield b
    if isinstance(node, ast.Try):
        for h in node.handlers:
            yield h.body


def _contains(root: ast.AST, target: ast.AST) -> bool:
    return any(n is target for n in ast.walk(root))


REGISTRY_NAMES = ("NODE_REGISTRY", "_nodes", "_sources", "_source_idx_to_source", "TYPES")


EFFECT_FREE_RECEIVERS = ("logger", "logging", "log", "warnings")


def _may_mutate(c: ast.Call) -> bool:
    """Could this call change program state that an expression reads?  Pure builtins / methods, logging and
    constructor calls (Capitalised callee; registry effects are handled separately) are taken not to."""
    name = dotted(c.func) or ""
    if name in PURE_FUNCS or (isinstance(c.func, ast.Attribute) and c.func.attr in PURE_METHODS):
        return False
    if name.split(".")[0] in EFFECT_FREE_RECEIVERS:
        return False
    last = name.split(".")[-1]
    if last[:1].isupper() and not last.isupper():
        return False
    return True


def _is_registry_alias(val: ast.expr) -> bool:
    """``registry = AwareASTNode._nodes``: another name for a module / class level table.  Using the table through the
    alias or through the original expression is the same thing; only rebinding the table itself would differ."""
    d = dotted(val)
    return d is not None and d.split(".")[-1] in REGISTRY_NAMES and (d.split(".")[0][:1].isupper() or "." not in d)


def _clobbers(stmts: list[ast.stmt], rhs: ast.expr) -> bool:
    """May any of the statements change what ``rhs`` reads?"""
    if _is_registry_alias(rhs):
        full = norm(rhs)
        for st in stmts:
            for n in ast.walk(st):
                if isinstance(n, (ast.Name, ast.Attribute)) and isinstance(n.ctx, (ast.Store, ast.Del)) and (norm(n) == full or full.startswith(norm(n) + ".")):
                    return True
                if isinstance(n, ast.Call) and (dotted(n.func) or "") in ("setattr", "delattr", "object.__setattr__") and n.args and full.startswith(norm(n.args[0]) + "."):
                    return True
        return False
    rtxt = norm(rhs)
    reads_registry = any(r in rtxt for r in REGISTRY_NAMES)
    read_names = {n.id for n in ast.walk(rhs) if isinstance(n, ast.Name)}
    def stable(n: ast.AST) -> bool:
        """x.__class__, x.__class__.__name__ : the class of an object (and its name) does not change."""
        return isinstance(n, ast.Attribute) and (n.attr == "__class__" or (n.attr in ("__name__", "__qualname__") and isinstance(n.value, ast.Attribute) and n.value.attr == "__class__"))

    attr_bases = {norm(n.value) for n in ast.walk(rhs) if isinstance(n, (ast.Attribute, ast.Subscript)) and not stable(n) and not isinstance(n.value, ast.Constant)}
    getattr_bases = {norm(n.args[0]) for n in ast.walk(rhs) if isinstance(n, ast.Call) and dotted(n.func) in ("getattr", "hasattr") and n.args}
    # anything read through an object (attribute, item, call result) may be changed by a call of unknown effect
    # ("lit".join((a, b)) / "lit".format(a) on a literal receiver read nothing but their operands)
    reads_heap = bool(attr_bases or getattr_bases) or any(
        isinstance(n, ast.Call) and not (isinstance(n.func, ast.Attribute) and isinstance(n.func.value, ast.Constant) and n.func.attr in ("join", "format")
                                         and all(isinstance(a_, (ast.Tuple, ast.List, ast.Constant, ast.JoinedStr, ast.Attribute, ast.Name)) for a_ in n.args))
        for n in ast.walk(rhs))
    for st in stmts:
        for n in ast.walk(st):
            if isinstance(n, ast.Name) and isinstance(n.ctx, (ast.Store, ast.Del)) and n.id in read_names:
                return True
            if isinstance(n, (ast.Attribute, ast.Subscript)) and isinstance(n.ctx, (ast.Store, ast.Del)):
                if norm(n.value) in attr_bases or norm(n.value) in getattr_bases:
                    return True
                if reads_registry and any(r in norm(n.value) for r in REGISTRY_NAMES):
                    return True
            if isinstance(n, ast.Call):
                nm = dotted(n.func) or ""
                if nm in ("setattr", "object.__setattr__", "delattr", "object.__delattr__") and n.args and (
                        norm(n.args[0]) in attr_bases or norm(n.args[0]) in getattr_bases or norm(n.args[0]) in read_names):
                    return True
                if reads_registry and not is_pure_expr(n):
                    return True
                if reads_heap and _may_mutate(n):
                    # a call reaches (and may change) only what its receiver and arguments lead to; module-level
                    # registries are covered above
                    reach = {x.id for part in ([n.func.value] if isinstance(n.func, ast.Attribute) else []) + list(n.args) + [k.value for k in n.keywords]
                             for x in ast.walk(part) if isinstance(x, ast.Name)}
                    if reach & read_names:
                        return True
                if isinstance(n.func, ast.Attribute) and n.func.attr in ("append", "extend", "pop", "popleft", "appendleft", "update", "clear", "add",
                                                                           "remove", "insert", "reverse", "sort", "setdefault", "discard") \
                        and (norm(n.func.value) in read_names or norm(n.func.value) in attr_bases):
                    return True
    return False


def inline_locals(fn: ast.FunctionDef, keep: set[str] | None = None) -> ast.FunctionDef:
    """Inline single-assignment pure locals (see module docstring).  ``fn`` is modified in place and returned."""
    keep = keep or set()
    for _ in range(12):
        counts = _stores(fn)
        params = {a.arg for a in fn.args.args + fn.args.kwonlyargs + fn.args.posonlyargs}
        if fn.args.vararg:
            params.add(fn.args.vararg.arg)
        if fn.args.kwarg:
            params.add(fn.args.kwarg.arg)
        changed = False
        work: list[ast.AST] = [fn]
        while work and not changed:
            node = work.pop()
            for block in _blocks(node):
                for i, st in enumerate(block):
                    tgt = val = None
                    if isinstance(st, ast.Assign) and len(st.targets) == 1 and isinstance(st.targets[0], ast.Name):
                        tgt, val = st.targets[0].id, st.value
                    elif isinstance(st, ast.AnnAssign) and isinstance(st.target, ast.Name) and st.value is not None:
                        tgt, val = st.target.id, st.value
                    if tgt is None or tgt in keep or tgt in params or counts.get(tgt, 0) != 1 or tgt.startswith("__"):
                        continue
                    if not is_pure_expr(val) or (_is_mutated(fn, tgt) and not _is_registry_alias(val)):
                        continue
                    if _is_container_ctor(val) and _is_empty_container(val):
                        continue  # an accumulator, not an alias
                    # every use must be in the statements following the definition inside this block
                    uses = [n for n in ast.walk(fn) if isinstance(n, ast.Name) and n.id == tgt and isinstance(n.ctx, ast.Load)]
                    rest = block[i + 1:]
                    if not uses or not all(any(_contains(s, u) for s in rest) for u in uses):
                        continue
                    if len(uses) > 1 and any(isinstance(n, ast.IfExp) for n in ast.walk(val)):
                        continue  # a conditional value used several times stays a local (lowered to an if statement later)
                    # uses inside nested function definitions are left alone (late binding)
                    if any(isinstance(d, (ast.FunctionDef, ast.Lambda)) and d is not fn and any(_contains(d, u) for u in uses) for d in ast.walk(fn)):
                        continue
                    last = max(j for j, s in enumerate(rest) if any(_contains(s, u) for u in uses))
                    # a use inside a loop that also lies in the clobber window is re-evaluated there: the loop body counts too
                    if _clobbers(rest[:last + 1], val) and not _only_later_clobbers(rest[:last + 1], val, uses):
                        continue
                    # self-referential?  x = f(x)
                    if any(isinstance(n, ast.Name) and n.id == tgt for n in ast.walk(val)):
                        continue
                    sub = _Subst({tgt: val})
                    for s in rest:
                        sub.visit(s)
                    del block[i]
                    if not block:
                        block.append(ast.copy_location(ast.Pass(), st))
                    changed = True
                    break
                if changed:
                    break
            if not changed:
                for ch in ast.iter_child_nodes(node):
                    if isinstance(ch, (ast.stmt, ast.ExceptHandler)) and not isinstance(ch, (ast.FunctionDef, ast.AsyncFunctionDef, ast.ClassDef)):
                        work.append(ch)
        if not changed:
            break
    ast.fix_missing_locations(fn)
    return fn


def _is_value_expr(e: ast.expr) -> bool:
    """Pure expressions, also through constructor calls (Capitalised callee): the value that flows, not a re-evaluation."""
    for n in ast.walk(e):
        if isinstance(n, ast.Call):
            name = dotted(n.func)
            if name in PURE_FUNCS or (isinstance(n.func, ast.Attribute) and n.func.attr in PURE_METHODS):
                continue
            last = (name or "").split(".")[-1]
            if last[:1].isupper() and not last.isupper():
                continue
            return False
        if isinstance(n, (ast.Await, ast.Yield, ast.YieldFrom, ast.NamedExpr, ast.Lambda)):
            return False
    return True


NAMEDTUPLE_FIELDS: dict[str, list[tuple[str, ast.expr | None]]] = {}
"""class name -> [(field, default)] of the NamedTuple classes of the analysed package (registered by srcmodel.Repo)."""


class _Project(ast.NodeTransformer):
    """``T(a, b, c).f`` -> the argument bound to field f, and ``T(a, b, c)[k]`` likewise, for NamedTuple classes of the package whose
    construction has pure arguments (a projection of a freshly built record never observes anything else).  With ``allow_calls``
    (the caller treats calls as values on the path it resolves) arguments may be calls."""

    def __init__(self, allow_calls: bool = False) -> None:
        self.allow_calls = allow_calls

    def _args(self, c: ast.Call) -> dict[str, ast.expr] | None:
        name = dotted(c.func)
        fields = NAMEDTUPLE_FIELDS.get(name or "")
        if fields is None or any(isinstance(a, ast.Starred) for a in c.args) or len(c.args) > len(fields):
            return None
        out: dict[str, ast.expr] = {}
        for (fname, _), a in zip(fields, c.args):
            out[fname] = a
        for k in c.keywords:
            if k.arg is None or k.arg in out or k.arg not in [f for f, _ in fields]:
                return None
            out[k.arg] = k.value
        for fname, dflt in fields:
            if fname not in out:
                if dflt is None:
                    return None
                out[fname] = dflt
        if not all(is_pure_expr(v) or (self.allow_calls and not any(isinstance(x, (ast.Await, ast.Yield, ast.YieldFrom, ast.NamedExpr)) for x in ast.walk(v)))
                   for v in out.values()):
            return None
        return out

    def visit_Attribute(self, node: ast.Attribute) -> ast.AST:
        self.generic_visit(node)
        if isinstance(node.value, ast.Call) and isinstance(node.ctx, ast.Load):
            b = self._args(node.value)
            if b is not None and node.attr in b:
                return copy.deepcopy(b[node.attr])
        return node

    def visit_Subscript(self, node: ast.Subscript) -> ast.AST:
        self.generic_visit(node)
        if isinstance(node.value, ast.Call) and isinstance(node.ctx, ast.Load) and isinstance(node.slice, ast.Constant) and isinstance(node.slice.value, int):
            b = self._args(node.value)
            if b is not None and 0 <= node.slice.value < len(b):
                return copy.deepcopy(list(b.values())[node.slice.value])
        return node


class PathEnv:
    """Path-local definitions of pure locals (see resolve_path)."""

    def __init__(self, allow_calls: bool = False) -> None:
        self.env: dict[str, ast.expr] = {}
        self.allow_calls = allow_calls

    def copy(self) -> "PathEnv":
        p = PathEnv(self.allow_calls)
        p.env = dict(self.env)
        return p

    def apply(self, node: ast.AST) -> ast.AST:
        n2 = copy.deepcopy(node)
        if self.env:
            if isinstance(node, (ast.For, ast.While, ast.With, ast.Try, ast.If)):
                stored = {x.id for x in ast.walk(node) if isinstance(x, ast.Name) and isinstance(x.ctx, (ast.Store, ast.Del))}
                n2 = _Subst({k: v for k, v in self.env.items() if k not in stored}).visit(n2)
            else:
                n2 = _Subst(self.env).visit(n2)
            if NAMEDTUPLE_FIELDS:
                n2 = _Project(self.allow_calls).visit(n2)
            if isinstance(n2, (ast.expr, ast.Assign, ast.Return, ast.Expr)):
                n2 = _Strings().visit(n2)  # spellings that only appear once the locals are substituted
        return ast.fix_missing_locations(n2)

    def _ok_value(self, val: ast.expr) -> bool:
        if _is_value_expr(val):
            return True
        return self.allow_calls and not any(isinstance(x, (ast.Await, ast.Yield, ast.YieldFrom, ast.NamedExpr)) for x in ast.walk(val))

    def update(self, st2: ast.stmt) -> None:
        """``st2``: the statement after substitution."""
        tgt = val = None
        if isinstance(st2, ast.Assign) and len(st2.targets) == 1 and isinstance(st2.targets[0], ast.Name):
            tgt, val = st2.targets[0].id, st2.value
        elif isinstance(st2, ast.AnnAssign) and isinstance(st2.target, ast.Name) and st2.value is not None:
            tgt, val = st2.target.id, st2.value
        will_record = tgt is not None and self._ok_value(val) and not (_is_container_ctor(val) and _is_empty_container(val))
        # (a resolved rebinding of tgt does not disturb entries that read the earlier tgt: only the evaluation of its value can)
        probe: ast.stmt = ast.copy_location(ast.Expr(value=val), st2) if will_record else st2
        for name in list(self.env):
            if _clobbers([probe], self.env[name]):
                self.env.pop(name)
        for n in ast.walk(st2):
            if isinstance(n, ast.Name) and isinstance(n.ctx, (ast.Store, ast.Del)):
                self.env.pop(n.id, None)
                if will_record and n.id == tgt:
                    # the new value of tgt is itself resolved, so tgt never occurs in later resolved text under its own name: entries that
                    # mention tgt keep denoting its earlier (opaque) value
                    continue
                for k in [k for k, v in self.env.items() if any(isinstance(x, ast.Name) and x.id == n.id for x in ast.walk(v))]:
                    self.env.pop(k)
        if tgt is not None and self._ok_value(val) and not (_is_container_ctor(val) and _is_empty_container(val)):
            # (x = E[x]: st2 is already resolved, so an x that is still read on the right is the earlier, opaque value of x; every later
            #  read of x is replaced by E[x], i.e. names in resolved text always denote their last opaque definition)
            self.env[tgt] = val
        # a, b = Record(x, y) for a NamedTuple of the package: the same as unpacking the tuple of its fields
        if isinstance(st2, ast.Assign) and len(st2.targets) == 1 and isinstance(st2.targets[0], ast.Tuple) and isinstance(st2.value, ast.Call) \
                and dotted(st2.value.func) in NAMEDTUPLE_FIELDS:
            bound = _Project(self.allow_calls)._args(st2.value)
            if bound is not None and len(bound) == len(st2.targets[0].elts):
                st2 = ast.copy_location(ast.Assign(targets=st2.targets, value=ast.Tuple(elts=list(bound.values()), ctx=ast.Load())), st2)
        # a, b = (x, y): component-wise (the right-hand side is already resolved, so a tuple-valued local works too)
        if isinstance(st2, ast.Assign) and len(st2.targets) == 1 and isinstance(st2.targets[0], ast.Tuple) and isinstance(st2.value, ast.Tuple) \
                and len(st2.targets[0].elts) == len(st2.value.elts) and all(isinstance(t, ast.Name) for t in st2.targets[0].elts):
            names = {t.id for t in st2.targets[0].elts}  # type: ignore[attr-defined]
            if not any(isinstance(x, ast.Name) and x.id in names for v in st2.value.elts for x in ast.walk(v)):
                for t, v in zip(st2.targets[0].elts, st2.value.elts):
                    if self._ok_value(v):
                        self.env[t.id] = v  # type: ignore[attr-defined]


def resolve_path(stmts: list[ast.stmt], allow_calls: bool = False) -> list[ast.stmt]:
    """Path-wise substitution over a straight-line statement list (the executed statements of one decision-tree leaf):
    a pure local is replaced by its definition in later statements as long as nothing in between clobbers what the
    definition reads.  Returns copies; definitions of substituted locals are kept in the output."""
    pe = PathEnv(allow_calls)
    out: list[ast.stmt] = []
    for st in stmts:
        st2 = pe.apply(st)
        pe.update(st2)  # type: ignore[arg-type]
        out.append(st2)  # type: ignore[arg-type]
    return out


MUTATORS = {"append", "appendleft", "extend", "extendleft", "insert", "pop", "popleft", "popitem", "remove", "clear", "update", "add", "discard",
            "sort", "reverse", "setdefault"}


def _is_mutated(fn: ast.AST, name: str) -> bool:
    for n in ast.walk(fn):
        if isinstance(n, ast.Call) and isinstance(n.func, ast.Attribute) and n.func.attr in MUTATORS and isinstance(n.func.value, ast.Name) and n.func.value.id == name:
            return True
        if isinstance(n, ast.Subscript) and isinstance(n.ctx, (ast.Store, ast.Del)) and isinstance(n.value, ast.Name) and n.value.id == name:
            return True
        if isinstance(n, ast.Attribute) and isinstance(n.ctx, (ast.Store, ast.Del)) and isinstance(n.value, ast.Name) and n.value.id == name:
            return True
        if isinstance(n, ast.Call) and dotted(n.func) in ("object.__setattr__", "setattr") and n.args and isinstance(n.args[0], ast.Name) and n.args[0].id == name:
            return True
    return False


def _is_empty_container(val: ast.expr) -> bool:
    if isinstance(val, (ast.List, ast.Set)) and not val.elts:
        return True
    if isinstance(val, ast.Dict) and not val.keys:
        return True
    if isinstance(val, ast.Call) and not val.args and not val.keywords:
        return True
    return False


def _is_container_ctor(val: ast.expr) -> bool:
    """Fresh mutable containers are state, not aliases: ``x = []``, ``d = {}``, ``q = deque()``, ``out = {}``."""
    if isinstance(val, (ast.List, ast.Dict, ast.Set, ast.ListComp, ast.DictComp, ast.SetComp)):
        return True
    if isinstance(val, ast.Call) and dotted(val.func) in ("list", "dict", "set", "deque", "collections.deque", "Deque", "defaultdict", "OrderedDict"):
        return True
    return False


def _only_later_clobbers(stmts: list[ast.stmt], rhs: ast.expr, uses: list[ast.AST]) -> bool:
    """True when every clobbering statement comes after the last statement that uses the local (at this block level)."""
    last_use = max(j for j, s in enumerate(stmts) if any(_contains(s, u) for u in uses))
    for j, s in enumerate(stmts):
        if j <= last_use and _clobbers([s], rhs):
            # the statement containing the use may itself clobber after reading (e.g. `del R[k]` after the test): allow
            # only if the clobbering node comes after all uses inside this statement
            use_pos = max(((u.lineno, u.col_offset) for u in uses if _contains(s, u)), default=None)
            if use_pos is None:
                return False
            if isinstance(s, (ast.Assign, ast.AugAssign, ast.AnnAssign)) and getattr(s, "value", None) is not None \
                    and not _clobbers([ast.Expr(value=s.value)], rhs) \
                    and all(_contains(s.value, u) for u in uses if _contains(s, u)) and not isinstance(s, ast.AugAssign):
                continue  # the right-hand side is evaluated before the store that clobbers
            if isinstance(s, ast.If) and all(_contains(s.test, u) for u in uses if _contains(s, u)) \
                    and not _clobbers([ast.Expr(value=s.test)], rhs):
                continue  # the test is evaluated before anything in the branches
            clob_pos = _first_clobber_pos(s, rhs)
            if clob_pos is None or clob_pos <= use_pos:
                return False
    return True


def _first_clobber_pos(st: ast.stmt, rhs: ast.expr) -> tuple[int, int] | None:
    best = None
    for n in ast.walk(st):
        if isinstance(n, ast.stmt) and n is not st and _clobbers([n], rhs):
            p = (n.lineno, n.col_offset)
            if best is None or p < best:
                best = p
    return best


# ----------------------------------------------------------------------------- helper inlining
def _single_trailing_return(body: list[ast.stmt]) -> tuple[list[ast.stmt], ast.expr | None] | None:
    rets = [n for st in body for n in ast.walk(st) if isinstance(n, ast.Return)]
    nested = [n for st in body for n in ast.walk(st) if isinstance(n, (ast.Yield, ast.YieldFrom))]
    if nested:
        return None
    if not rets:
        return body, None
    if len(rets) == 1 and body and rets[0] is body[-1]:
        return body[:-1], rets[0].value
    return None


def _returns_to_ifexp(body: list[ast.stmt]) -> ast.expr | None:
    """``if T: return A`` / ``elif U: return B`` / ... / ``return Z``  is  ``return A if T else (B if U else Z)`` (same evaluation order)."""
    def chain(stmts: list[ast.stmt]) -> ast.expr | None:
        if not stmts:
            return None
        st = stmts[0]
        if isinstance(st, ast.Return) and st.value is not None:
            return st.value
        if isinstance(st, ast.If):
            a_ = chain(st.body) if len(st.body) == 1 else None
            if a_ is None:
                return None
            rest = st.orelse if st.orelse else stmts[1:]
            if st.orelse and stmts[1:]:
                return None
            b_ = chain(rest)
            if b_ is None:
                return None
            return ast.copy_location(ast.IfExp(test=st.test, body=a_, orelse=b_), st)
        return None
    if len(body) < 2 and not (body and isinstance(body[0], ast.If)):
        return None
    return chain(body)


def _single_exit(body: list[ast.stmt], ret: str) -> list[ast.stmt] | None:
    """Return-elimination for structured code: returns may sit in (nested) if branches, not in loops / try / with.
    The statements after an ``if`` that returns on some branch are moved into the branches that fall through."""

    class Fail(Exception):
        pass

    def has_ret(st: ast.stmt) -> bool:
        return any(isinstance(n, ast.Return) for n in ast.walk(st) if not isinstance(n, (ast.FunctionDef, ast.Lambda)) or n is st)

    def rec(stmts: list[ast.stmt], depth: int = 0) -> tuple[list[ast.stmt], bool]:
        if depth > 12:
            raise Fail()
        out: list[ast.stmt] = []
        for i, st in enumerate(stmts):
            if isinstance(st, ast.Return):
                out.append(ast.copy_location(ast.Assign(targets=[ast.Name(id=ret, ctx=ast.Store())], value=st.value if st.value is not None else ast.Constant(value=None)), st))
                return out, True
            if isinstance(st, (ast.FunctionDef, ast.AsyncFunctionDef, ast.ClassDef)) or not has_ret(st):
                out.append(st)
                continue
            if isinstance(st, (ast.For, ast.While)) and not st.orelse:
                # returns inside a loop: `return E` -> `__ret = E; break`; what follows the loop runs only if it was not left
                # this way, i.e. it is the loop's else clause (the loop must have no break / else of its own)
                def own(ss: list[ast.stmt], kinds: tuple) -> bool:
                    for x in ss:
                        if isinstance(x, kinds):
                            return True
                        if isinstance(x, (ast.For, ast.While, ast.FunctionDef, ast.ClassDef)):
                            continue
                        if any(own(b, kinds) for b in _blocks(x)):
                            return True
                    return False

                def nested_loop_ret(ss: list[ast.stmt]) -> bool:
                    return any(isinstance(x, (ast.For, ast.While, ast.Try, ast.With)) and has_ret(x) for y in ss for x in ast.walk(y) if x is not st)

                if own(st.body, (ast.Break,)) or nested_loop_ret(st.body):
                    raise Fail()

                def brk(ss: list[ast.stmt]) -> list[ast.stmt]:
                    o: list[ast.stmt] = []
                    for x in ss:
                        if isinstance(x, ast.Return):
                            o.append(ast.copy_location(ast.Assign(targets=[ast.Name(id=ret, ctx=ast.Store())],
                                                                  value=x.value if x.value is not None else ast.Constant(value=None)), x))
                            o.append(ast.copy_location(ast.Break(), x))
                            return o
                        if isinstance(x, ast.If) and has_ret(x):
                            x = ast.copy_location(ast.If(test=x.test, body=brk(x.body) or [ast.Pass()], orelse=brk(x.orelse)), x)
                        o.append(x)
                    return o

                loop = copy.copy(st)
                loop.body = brk(copy.deepcopy(st.body))
                rest_, ralways = rec(copy.deepcopy(stmts[i + 1:]), depth + 1)
                if not ralways:
                    rest_ = rest_ + [ast.Assign(targets=[ast.Name(id=ret, ctx=ast.Store())], value=ast.Constant(value=None))]
                loop.orelse = rest_
                out.append(loop)
                return out, True
            if not isinstance(st, ast.If):
                raise Fail()
            rest = stmts[i + 1:]
            tb, talways = rec(copy.deepcopy(st.body), depth + 1)
            if not talways:
                tb, talways = rec(copy.deepcopy(st.body) + copy.deepcopy(rest), depth + 1)
            eb, ealways = rec(copy.deepcopy(st.orelse), depth + 1) if st.orelse else ([], False)
            if not ealways:
                eb, ealways = rec(copy.deepcopy(st.orelse) + copy.deepcopy(rest), depth + 1)
            out.append(ast.copy_location(ast.If(test=st.test, body=tb or [ast.Pass()], orelse=eb), st))
            return out, talways and ealways
        return out, False

    try:
        res, always = rec(body)
    except Fail:
        return None
    if not always:
        # implicit `return None` on the paths that fall off the end: make it explicit where it is missing
        def close(stmts: list[ast.stmt]) -> None:
            if stmts and isinstance(stmts[-1], ast.If) and any(isinstance(n, ast.Name) and n.id == ret for n in ast.walk(stmts[-1])):
                close(stmts[-1].body)
                if stmts[-1].orelse:
                    close(stmts[-1].orelse)
                else:
                    stmts[-1].orelse = [ast.Assign(targets=[ast.Name(id=ret, ctx=ast.Store())], value=ast.Constant(value=None))]
            elif stmts and isinstance(stmts[-1], (ast.Raise, ast.Continue, ast.Break)):
                return
            elif not (stmts and isinstance(stmts[-1], ast.Assign) and isinstance(stmts[-1].targets[0], ast.Name) and stmts[-1].targets[0].id == ret):
                stmts.append(ast.Assign(targets=[ast.Name(id=ret, ctx=ast.Store())], value=ast.Constant(value=None)))
        close(res)
    for st in res:
        ast.fix_missing_locations(st)
    return res


def _leading_calls(e: ast.expr | None) -> list[ast.Call]:
    """Calls on the 'evaluated first' spine of ``e``, innermost (= earliest evaluated) first."""
    out: list[ast.Call] = []
    while e is not None:
        if isinstance(e, ast.Call):
            out.append(e)
            e = e.func
        elif isinstance(e, ast.Compare):
            e = e.left
        elif isinstance(e, ast.UnaryOp):
            e = e.operand
        elif isinstance(e, ast.BoolOp):
            e = e.values[0]
        elif isinstance(e, (ast.Attribute, ast.Subscript)):
            e = e.value
        else:
            break
    return out[::-1]


def _leading_call(e: ast.expr) -> ast.Call | None:
    """The call that is evaluated first (unconditionally) when ``e`` is evaluated, if e starts with one."""
    if isinstance(e, ast.Call):
        return e
    if isinstance(e, ast.Compare):
        return _leading_call(e.left)
    if isinstance(e, ast.UnaryOp):
        return _leading_call(e.operand)
    if isinstance(e, ast.BoolOp):
        return _leading_call(e.values[0])
    return None


class HelperInliner:
    def __init__(self, module_tree: ast.Module, modname: str, baseline: dict[str, set[str]], other_modules: dict[str, ast.Module] | None = None) -> None:
        self.tree = module_tree
        self.modname = modname
        self.known = baseline.get(modname, None)
        self.baseline = baseline
        self.other = other_modules or {}
        self.counter = 0
        self.inlined: set[str] = set()
        self.failed: set[str] = set()
        kv = baseline.get(modname + "#vars")
        self.new_consts = new_module_constants(module_tree, set(kv) if kv is not None else None)
        # constants of later origin imported from another module of the package (from .codegen import TABLE)
        for st in module_tree.body:
            if isinstance(st, ast.ImportFrom) and st.level >= 0 and st.module:
                for other_name, other_tree in self.other.items():
                    if other_name.split(".")[-1] == st.module.split(".")[-1]:
                        okv = baseline.get(other_name + "#vars")
                        oc = new_module_constants(other_tree, set(okv) if okv is not None else None)
                        for al in st.names:
                            if al.name in oc and (al.asname or al.name) not in self.new_consts and (kv is None or (al.asname or al.name) not in kv):
                                self.new_consts[al.asname or al.name] = oc[al.name]

    def is_new(self, qualname: str, modname: str | None = None) -> bool:
        known = self.baseline.get(modname or self.modname)
        if known is None:
            return False  # unknown module: be conservative
        return qualname not in known

    # --- callee lookup
    def _module_func(self, name: str) -> tuple[ast.FunctionDef, str] | None:
        for st in self.tree.body:
            if isinstance(st, ast.FunctionDef) and st.name == name:
                return st, self.modname
        return None

    def _class_method(self, cls: ast.ClassDef | None, name: str) -> ast.FunctionDef | None:
        if cls is None:
            return None
        for st in cls.body:
            if isinstance(st, ast.FunctionDef) and st.name == name:
                return st
        return None

    def resolve(self, call: ast.Call, fn: ast.FunctionDef, cls: ast.ClassDef | None, qual: str) -> tuple[ast.FunctionDef, list[ast.expr], str] | None:
        """(callee, leading implicit args, callee qualname) when the callee is a new private helper."""
        f = call.func
        if isinstance(f, ast.Name):
            for st in fn.body:  # nested helper of this function
                if isinstance(st, ast.FunctionDef) and st.name == f.id:
                    q = f"{qual}.{f.id}"
                    return (st, [], q) if self.is_new(q) else None
            mf = self._module_func(f.id)
            if mf is not None and f.id.startswith("_"):
                return (mf[0], [], f.id) if self.is_new(f.id) else None
            return None
        if isinstance(f, ast.Attribute) and cls is not None:
            recv = f.value
            m = self._class_method(cls, f.attr)
            if m is None or not f.attr.startswith("_") or f.attr.startswith("__") and f.attr.endswith("__"):
                return None
            q = f"{cls.name}.{f.attr}"
            if not self.is_new(q):
                return None
            decos = {dotted(d) for d in m.decorator_list}
            if isinstance(recv, ast.Name) and recv.id in ("self", "cls"):
                if "staticmethod" in decos:
                    return m, [], q
                return m, [recv], q
            if isinstance(recv, ast.Name) and recv.id == cls.name:
                if "staticmethod" in decos:
                    return m, [], q
                if "classmethod" in decos:
                    return m, [recv], q
                return m, [], q  # Class.method(obj, ...) : explicit receiver is the first argument
        return None

    def _bind(self, callee: ast.FunctionDef, implicit: list[ast.expr], call: ast.Call) -> tuple[dict[str, ast.expr], list[ast.stmt]] | None:
        a = callee.args
        if a.vararg or a.kwarg or a.posonlyargs:
            return None
        params = [p.arg for p in a.args]
        args = list(implicit) + list(call.args)
        if any(isinstance(x, ast.Starred) for x in args) or any(k.arg is None for k in call.keywords):
            return None
        bound: dict[str, ast.expr] = {}
        if len(args) > len(params):
            return None
        for p, x in zip(params, args):
            bound[p] = x
        kwonly = [p.arg for p in a.kwonlyargs]
        for k in call.keywords:
            if k.arg in bound or (k.arg not in params and k.arg not in kwonly):
                return None
            bound[k.arg] = k.value  # type: ignore[index]
        defaults = dict(zip(params[len(params) - len(a.defaults):], a.defaults))
        for p, d in zip(kwonly, a.kw_defaults):
            if d is not None:
                defaults[p] = d
        for p in params + kwonly:
            if p not in bound:
                if p not in defaults:
                    return None
                bound[p] = defaults[p]
        return bound, []

    def expand(self, callee: ast.FunctionDef, bound: dict[str, ast.expr], at: ast.AST) -> tuple[list[ast.stmt], ast.expr | None] | None:
        body = [st for st in callee.body if not (isinstance(st, ast.Expr) and isinstance(st.value, ast.Constant))]
        body = copy.deepcopy(body)
        str_ret = _single_trailing_return(body)
        if str_ret is None:
            one = _returns_to_ifexp(body)
            if one is not None:
                body = [ast.copy_location(ast.Return(value=one), body[0])]
                str_ret = _single_trailing_return(body)
        if str_ret is None:
            # several returns: single-exit form (every `return E` becomes `__ret = E`, the code after an if is folded into its branches)
            se = _single_exit(body, "__ret")
            if se is None:
                return None
            str_ret = (se, ast.Name(id="__ret", ctx=ast.Load()))
            body = se
        stmts, ret = str_ret
        self.counter += 1
        sfx = f"__h{self.counter}"
        assigned = {n for n, c in _stores(ast.Module(body=body, type_ignores=[])).items()}
        nonlocals = {x for st in body for n in ast.walk(st) if isinstance(n, (ast.Nonlocal, ast.Global)) for x in n.names}
        # parameters: substitute simple arguments directly, bind the others to fresh locals
        pre: list[ast.stmt] = []
        subst: dict[str, ast.expr] = {}
        rename: dict[str, str] = {}
        for p, x in bound.items():
            simple = isinstance(x, (ast.Name, ast.Constant)) or (dotted(x) is not None)
            if simple and p not in assigned:
                subst[p] = x
            else:
                rename[p] = p + sfx
                pre.append(ast.copy_location(ast.Assign(targets=[ast.Name(id=p + sfx, ctx=ast.Store())], value=copy.deepcopy(x)), at))
        for n in assigned:
            if n not in bound and n not in nonlocals:
                rename[n] = n + sfx
        out: list[ast.stmt] = []
        for st in stmts:
            if isinstance(st, (ast.Nonlocal, ast.Global)):
                continue
            st = _Rename(rename).visit(st)
            st = _Subst(subst).visit(st)
            out.append(st)
        if ret is not None:
            ret = _Subst(subst).visit(_Rename(rename).visit(copy.deepcopy(ret)))
        for st in pre + out:
            for n in ast.walk(st):
                if not hasattr(n, "lineno"):
                    ast.copy_location(n, at)
                else:
                    n.lineno = getattr(at, "lineno", n.lineno)  # report positions at the call site
                    n.end_lineno = getattr(at, "end_lineno", None)
        return pre + out, ret

    def inline(self, fn: ast.FunctionDef, cls: ast.ClassDef | None, qual: str, depth: int = 0) -> ast.FunctionDef:
        if depth > 3:
            return fn

        def process(block: list[ast.stmt]) -> None:
            i = 0
            while i < len(block):
                st = block[i]
                call = None
                kind = None
                if isinstance(st, ast.Expr) and isinstance(st.value, ast.Call):
                    call, kind = st.value, "expr"
                elif isinstance(st, ast.Assign) and isinstance(st.value, ast.Call):
                    call, kind = st.value, "assign"
                elif isinstance(st, ast.AnnAssign) and isinstance(st.value, ast.Call):
                    call, kind = st.value, "assign"
                elif isinstance(st, ast.Return) and isinstance(st.value, ast.Call):
                    call, kind = st.value, "return"
                done = False
                if call is not None:
                    r = self.resolve(call, fn, cls, qual)
                    if r is not None:
                        callee, implicit, q = r
                        b = self._bind(callee, implicit, call)
                        ex = self.expand(callee, b[0], st) if b is not None else None
                        if ex is not None:
                            stmts, ret = ex
                            tail: list[ast.stmt] = []
                            if kind == "assign":
                                tg = st.targets if isinstance(st, ast.Assign) else [st.target]
                                tail = [ast.copy_location(ast.Assign(targets=tg, value=ret if ret is not None else ast.Constant(value=None)), st)]
                            elif kind == "return":
                                tail = [ast.copy_location(ast.Return(value=ret), st)]
                            elif ret is not None and not is_pure_expr(ret):
                                tail = [ast.copy_location(ast.Expr(value=ret), st)]
                            block[i:i + 1] = stmts + tail
                            self.inlined.add(q)
                            done = True
                        else:
                            self.failed.add(q)
                if not done and isinstance(st, (ast.Return, ast.Expr, ast.Assign)) and st.value is not None and call is None or \
                        (not done and isinstance(st, (ast.Return, ast.Expr, ast.Assign)) and st.value is not None and call is not None
                         and self.resolve(call, fn, cls, qual) is None):
                    # a helper call on the evaluated-first spine of the statement (e.g. `return helper(x)(self)`): into a temporary first
                    head0 = st.value.value if isinstance(st.value, (ast.YieldFrom, ast.Yield, ast.Await)) and st.value.value is not None else st.value
                    spine = _leading_calls(head0)
                    # the first argument of a call through a plain (dotted) name is evaluated before anything else of the statement
                    if isinstance(head0, ast.Call) and dotted(head0.func) is not None and head0.args:
                        # (likewise a later argument when everything evaluated before it is pure)
                        for a_k in head0.args:
                            if isinstance(a_k, ast.Starred):
                                break
                            if isinstance(a_k, ast.Call):
                                spine = _leading_calls(a_k) + spine
                                break
                            if not is_pure_expr(a_k):
                                break
                    for lc0 in spine:
                        if lc0 is st.value:
                            continue
                        r1 = self.resolve(lc0, fn, cls, qual)
                        if r1 is not None and not any(isinstance(n, (ast.Yield, ast.YieldFrom)) for n in ast.walk(r1[0])):
                            self.counter += 1
                            tmp = f"__c{self.counter}"
                            pre_ = ast.copy_location(ast.Assign(targets=[ast.Name(id=tmp, ctx=ast.Store())], value=lc0), st)
                            st.value = _replace_node(st.value, lc0, ast.copy_location(ast.Name(id=tmp, ctx=ast.Load()), lc0))
                            ast.fix_missing_locations(pre_)
                            block[i:i + 1] = [pre_, st]
                            done = True
                            break
                    if done:
                        continue
                if isinstance(st, ast.Raise) and isinstance(st.exc, ast.Call) and self.resolve(st.exc, fn, cls, qual) is not None \
                        and not any(isinstance(n, (ast.Yield, ast.YieldFrom)) for n in ast.walk(self.resolve(st.exc, fn, cls, qual)[0])):
                    # raise helper(...) [from e]  ->  tmp = helper(...); raise tmp [from e]
                    self.counter += 1
                    tmp = f"__c{self.counter}"
                    pre_ = ast.copy_location(ast.Assign(targets=[ast.Name(id=tmp, ctx=ast.Store())], value=st.exc), st)
                    st.exc = ast.copy_location(ast.Name(id=tmp, ctx=ast.Load()), st.exc)
                    ast.fix_missing_locations(pre_)
                    block[i:i + 1] = [pre_, st]
                    continue
                if isinstance(st, ast.If) and not done:
                    lc = _leading_call(st.test)
                    r0 = self.resolve(lc, fn, cls, qual) if lc is not None else None
                    if r0 is not None:
                        cb = [s for s in r0[0].body if not (isinstance(s, ast.Expr) and isinstance(s.value, ast.Constant))]
                        single_expr = len(cb) == 1 and isinstance(cb[0], ast.Return)
                        if not single_expr and not any(isinstance(n, (ast.Yield, ast.YieldFrom)) for n in ast.walk(r0[0])):
                            # a helper with statements in the test of an if: evaluate it into a temporary first
                            self.counter += 1
                            tmp = f"__c{self.counter}"
                            pre_ = ast.copy_location(ast.Assign(targets=[ast.Name(id=tmp, ctx=ast.Store())], value=lc), st)
                            st.test = _replace_node(st.test, lc, ast.copy_location(ast.Name(id=tmp, ctx=ast.Load()), lc))
                            ast.fix_missing_locations(pre_)
                            block[i:i + 1] = [pre_, st]
                            self._hoisted = getattr(self, "_hoisted", set()) | {id(pre_)}
                            continue
                if not done and isinstance(st, ast.With) and len(st.items) == 1 and st.items[0].optional_vars is None and isinstance(st.items[0].context_expr, ast.Call):
                    w = self._inline_contextmanager(st, fn, cls, qual)
                    if w is not None:
                        block[i:i + 1] = w
                        continue
                if not done and isinstance(st, ast.Assign) and len(st.targets) == 1 and isinstance(st.targets[0], ast.Name) and isinstance(st.value, ast.Call) \
                        and isinstance(st.value.func, ast.Name) and st.value.func.id in ("list", "tuple") and len(st.value.args) == 1 and not st.value.keywords \
                        and isinstance(st.value.args[0], ast.Call):
                    rg = self.resolve(st.value.args[0], fn, cls, qual)
                    if rg is not None and any(isinstance(n, (ast.Yield, ast.YieldFrom)) for n in ast.walk(rg[0])) and st.value.func.id == "list":
                        # x = list(helper_generator(...))  ->  x = []; for _e in helper_generator(...): x.append(_e)
                        self.counter += 1
                        ev_ = f"__e{self.counter}"
                        init = ast.copy_location(ast.Assign(targets=[ast.Name(id=st.targets[0].id, ctx=ast.Store())], value=ast.List(elts=[], ctx=ast.Load())), st)
                        app = ast.Expr(value=ast.Call(func=ast.Attribute(value=ast.Name(id=st.targets[0].id, ctx=ast.Load()), attr="append", ctx=ast.Load()),
                                                      args=[ast.Name(id=ev_, ctx=ast.Load())], keywords=[]))
                        loop_ = ast.copy_location(ast.For(target=ast.Name(id=ev_, ctx=ast.Store()), iter=st.value.args[0], body=[app], orelse=[]), st)
                        ast.fix_missing_locations(loop_)
                        block[i:i + 1] = [init, loop_]
                        continue
                if not done and isinstance(st, ast.For) and isinstance(st.iter, ast.Call) and not st.orelse:
                    g = self._inline_generator(st, fn, cls, qual)
                    if g is not None:
                        block[i:i + 1] = g
                        done = True
                if done:
                    continue  # re-examine the spliced statements
                # expression-level helpers inside this statement
                self._inline_exprs(st, fn, cls, qual)
                if isinstance(st, (ast.Return, ast.Assign)) and isinstance(st.value, (ast.DictComp, ast.ListComp)) and len(st.value.generators) == 1 \
                        and not st.value.generators[0].is_async and (isinstance(st, ast.Return) or (len(st.targets) == 1 and isinstance(st.targets[0], ast.Name))):
                    comp = st.value
                    elts = [comp.key, comp.value] if isinstance(comp, ast.DictComp) else [comp.elt]
                    helper_calls = [c for e_ in elts for c in ast.walk(e_) if isinstance(c, ast.Call) and self.resolve(c, fn, cls, qual) is not None]
                    if helper_calls:
                        # {k: helper(k) for k in X}  ->  acc = {}; for k in X: acc[k] = helper(k)   (the helper needs statements to be inlined)
                        self.counter += 1
                        acc = st.targets[0].id if isinstance(st, ast.Assign) and not any(  # type: ignore[union-attr]
                            isinstance(n, ast.Name) and n.id == st.targets[0].id for n in ast.walk(comp)) else f"__acc{self.counter}"  # type: ignore[union-attr]
                        g_ = comp.generators[0]
                        ren = {n.id: f"{n.id}__c{self.counter}" for n in ast.walk(g_.target) if isinstance(n, ast.Name)}
                        tgt_ = _Rename(ren).visit(copy.deepcopy(g_.target))
                        if isinstance(comp, ast.DictComp):
                            store: ast.stmt = ast.Assign(targets=[ast.Subscript(value=ast.Name(id=acc, ctx=ast.Load()), slice=_Rename(ren).visit(copy.deepcopy(comp.key)), ctx=ast.Store())],
                                                         value=_Rename(ren).visit(copy.deepcopy(comp.value)))
                            init_v: ast.expr = ast.Dict(keys=[], values=[])
                        else:
                            store = ast.Expr(value=ast.Call(func=ast.Attribute(value=ast.Name(id=acc, ctx=ast.Load()), attr="append", ctx=ast.Load()),
                                                            args=[_Rename(ren).visit(copy.deepcopy(comp.elt))], keywords=[]))
                            init_v = ast.List(elts=[], ctx=ast.Load())
                        inner_: list[ast.stmt] = [store]
                        for c_ in reversed(g_.ifs):
                            inner_ = [ast.If(test=_Rename(ren).visit(copy.deepcopy(c_)), body=inner_, orelse=[])]
                        loop2 = ast.For(target=tgt_, iter=g_.iter, body=inner_, orelse=[])
                        new_ = [ast.Assign(targets=[ast.Name(id=acc, ctx=ast.Store())], value=init_v), loop2]
                        if isinstance(st, ast.Return):
                            new_.append(ast.Return(value=ast.Name(id=acc, ctx=ast.Load())))
                        for x_ in new_:
                            ast.copy_location(x_, st)
                            ast.fix_missing_locations(x_)
                        block[i:i + 1] = new_
                        continue
                for sub in _blocks(st):
                    process(sub)
                i += 1

        process(fn.body)
        ast.fix_missing_locations(fn)
        return fn

    def _inline_contextmanager(self, w: ast.With, fn: ast.FunctionDef, cls: ast.ClassDef | None, qual: str) -> list[ast.stmt] | None:
        """``with helper(args): BODY`` where helper is a @contextmanager generator of later origin with a single ``yield``:
        * yield at the top level of the helper:   pre ; BODY ; post      -- an exception in BODY propagates out of the generator at the
          yield, so `post` does NOT run; a `return` in BODY leaves the with normally, so post runs first (returns are rewritten);
        * yield directly inside a try with a finally (nothing else after the yield): pre ; try: BODY finally: F."""
        r = self.resolve(w.items[0].context_expr, fn, cls, qual)  # type: ignore[arg-type]
        if r is None:
            return None
        callee, implicit, q = r
        if not any((dotted(d) or "").split(".")[-1] == "contextmanager" for d in callee.decorator_list):
            return None
        ys = [n for n in ast.walk(callee) if isinstance(n, (ast.Yield, ast.YieldFrom))]
        if len(ys) != 1 or isinstance(ys[0], ast.YieldFrom) or any(isinstance(n, ast.Return) for n in ast.walk(callee)):
            return None
        b = self._bind(callee, implicit, w.items[0].context_expr)  # type: ignore[arg-type]
        if b is None or not all(isinstance(x, (ast.Name, ast.Constant)) or dotted(x) is not None for x in b[0].values()):
            return None
        body = copy.deepcopy([s_ for s_ in callee.body if not (isinstance(s_, ast.Expr) and isinstance(s_.value, ast.Constant))])
        self.counter += 1
        sfx = f"__w{self.counter}"
        assigned = set(_stores(ast.Module(body=body, type_ignores=[])))
        rename = {n: n + sfx for n in assigned if n not in b[0]}
        body = [_Subst({k: v for k, v in b[0].items() if k not in assigned}).visit(_Rename(rename).visit(s_)) for s_ in body]

        def is_yield(s_: ast.stmt) -> bool:
            return isinstance(s_, ast.Expr) and isinstance(s_.value, ast.Yield)

        def own(ss: list[ast.stmt], kinds: tuple) -> bool:
            for x in ss:
                if isinstance(x, kinds):
                    return True
                if isinstance(x, (ast.For, ast.While, ast.FunctionDef, ast.ClassDef)):
                    continue
                if any(own(bb, kinds) for bb in _blocks(x)):
                    return True
            return False

        if own(w.body, (ast.Break, ast.Continue)):
            return None
        idx = next((k for k, s_ in enumerate(body) if is_yield(s_)), None)
        out: list[ast.stmt] | None = None
        if idx is not None:
            pre, post = body[:idx], body[idx + 1:]

            def with_post(ss: list[ast.stmt]) -> list[ast.stmt]:
                o: list[ast.stmt] = []
                for x in ss:
                    if isinstance(x, ast.Return):
                        tmp = f"__wr{self.counter}"
                        if x.value is not None:
                            o.append(ast.copy_location(ast.Assign(targets=[ast.Name(id=tmp, ctx=ast.Store())], value=x.value), x))
                        o.extend(copy.deepcopy(post))
                        o.append(ast.copy_location(ast.Return(value=ast.Name(id=tmp, ctx=ast.Load()) if x.value is not None else None), x))
                        return o
                    if isinstance(x, (ast.FunctionDef, ast.ClassDef)):
                        o.append(x)
                        continue
                    x = copy.copy(x)
                    for fld in ("body", "orelse", "finalbody"):
                        bb = getattr(x, fld, None)
                        if isinstance(bb, list) and bb and isinstance(bb[0], ast.stmt):
                            setattr(x, fld, with_post(bb))
                    if isinstance(x, ast.Try):
                        x.handlers = [ast.ExceptHandler(type=h.type, name=h.name, body=with_post(h.body)) for h in x.handlers]
                    o.append(x)
                return o

            out = pre + with_post(copy.deepcopy(w.body)) + copy.deepcopy(post)
        else:
            tries = [(k, s_) for k, s_ in enumerate(body) if isinstance(s_, ast.Try) and any(is_yield(x) for x in s_.body)]
            if len(tries) == 1:
                k, t_ = tries[0]
                yi = next(j for j, x in enumerate(t_.body) if is_yield(x))
                if not t_.body[yi + 1:] and not body[k + 1:] and not t_.orelse and not t_.handlers:
                    t2 = ast.copy_location(ast.Try(body=t_.body[:yi] + copy.deepcopy(w.body), handlers=[], orelse=[], finalbody=t_.finalbody), w)
                    out = body[:k] + [t2]
        if out is None:
            self.failed.add(q)
            return None
        for s_ in out:
            for n in ast.walk(s_):
                if hasattr(n, "lineno"):
                    n.lineno = getattr(w, "lineno", n.lineno)
                    n.end_lineno = getattr(w, "end_lineno", None)
            ast.fix_missing_locations(s_)
        self.inlined.add(q)
        return out

    def _inline_generator(self, loop: ast.For, fn: ast.FunctionDef, cls: ast.ClassDef | None, qual: str) -> list[ast.stmt] | None:
        """``for T in helper(args): BODY`` with a new generator helper: the helper's body with every ``yield E`` replaced
        by ``T = E; BODY``.  Valid when the yields are statements in tail position of their loop (so that `continue` in
        BODY resumes the helper exactly where a resumed generator would), the helper has no return, and BODY has no
        break of its own level."""
        r = self.resolve(loop.iter, fn, cls, qual)  # type: ignore[arg-type]
        if r is None:
            return None
        callee, implicit, q = r
        ys = [n for n in ast.walk(callee) if isinstance(n, (ast.Yield, ast.YieldFrom))]
        if not ys:
            return None
        if any(isinstance(n, ast.Return) for n in ast.walk(callee)):
            # `return` in a generator only ends it (a for loop drops the value): single-exit form, the marker assignments removed
            if any(isinstance(n, ast.Return) for lp_ in ast.walk(callee) if isinstance(lp_, (ast.For, ast.While, ast.Try, ast.With)) for n in ast.walk(lp_)):
                return None
            se = _single_exit(copy.deepcopy([s for s in callee.body if not (isinstance(s, ast.Expr) and isinstance(s.value, ast.Constant))]), "__gret")
            if se is None:
                return None

            def strip(stmts: list[ast.stmt]) -> list[ast.stmt]:
                out_: list[ast.stmt] = []
                for s_ in stmts:
                    if isinstance(s_, ast.Assign) and isinstance(s_.targets[0], ast.Name) and s_.targets[0].id == "__gret":
                        if not is_pure_expr(s_.value):
                            out_.append(ast.copy_location(ast.Expr(value=s_.value), s_))
                        continue
                    if isinstance(s_, ast.If):
                        s_.body = strip(s_.body) or [ast.copy_location(ast.Pass(), s_)]
                        s_.orelse = strip(s_.orelse)
                    out_.append(s_)
                return out_
            callee = copy.copy(callee)
            callee.body = strip(se) or [ast.Pass()]
            if any(isinstance(n, ast.Return) for n in ast.walk(callee)):
                return None

        def own_level(stmts: list[ast.stmt], kinds: tuple) -> bool:
            for s in stmts:
                if isinstance(s, kinds):
                    return True
                if isinstance(s, (ast.For, ast.While, ast.FunctionDef, ast.ClassDef)):
                    continue
                for sub in _blocks(s):
                    if own_level(sub, kinds):
                        return True
            return False

        if own_level(loop.body, (ast.Break,)):
            return None
        has_continue = own_level(loop.body, (ast.Continue,))
        b = self._bind(callee, implicit, loop.iter)  # type: ignore[arg-type]
        if b is None:
            return None
        body = copy.deepcopy([s for s in callee.body if not (isinstance(s, ast.Expr) and isinstance(s.value, ast.Constant))])
        self.counter += 1
        sfx = f"__g{self.counter}"

        class YF(ast.NodeTransformer):  # yield from E  ->  for _t in E: yield _t   (plain iteration, no send())
            def visit_Expr(self, node: ast.Expr) -> ast.AST:
                if isinstance(node.value, ast.YieldFrom):
                    t = ast.Name(id="_yf", ctx=ast.Store())
                    y = ast.Expr(value=ast.Yield(value=ast.Name(id="_yf", ctx=ast.Load())))
                    return ast.fix_missing_locations(ast.copy_location(ast.For(target=t, iter=node.value.value, body=[y], orelse=[]), node))
                return node

            def visit_FunctionDef(self, node):
                return node

        body = [YF().visit(s) for s in body]
        if any(isinstance(n, ast.YieldFrom) for s in body for n in ast.walk(s)):
            return None
        assigned = set(_stores(ast.Module(body=body, type_ignores=[])))
        pre: list[ast.stmt] = []
        subst: dict[str, ast.expr] = {}
        rename: dict[str, str] = {}
        for p, x in b[0].items():
            if (isinstance(x, (ast.Name, ast.Constant)) or dotted(x) is not None) and p not in assigned:
                subst[p] = x
            else:
                rename[p] = p + sfx
                pre.append(ast.copy_location(ast.Assign(targets=[ast.Name(id=p + sfx, ctx=ast.Store())], value=copy.deepcopy(x)), loop))
        for n in assigned:
            if n not in b[0]:
                rename[n] = n + sfx
        body = [_Subst(subst).visit(_Rename(rename).visit(s)) for s in body]
        ok = True

        def splice(stmts: list[ast.stmt], tail: bool, in_loop: bool) -> list[ast.stmt]:
            nonlocal ok
            out: list[ast.stmt] = []
            for k, s in enumerate(stmts):
                last = k == len(stmts) - 1
                if isinstance(s, ast.Expr) and isinstance(s.value, ast.Yield):
                    if has_continue and not (last and tail and in_loop):
                        ok = False
                    val = s.value.value if s.value.value is not None else ast.Constant(value=None)
                    out.append(ast.copy_location(ast.Assign(targets=[copy.deepcopy(loop.target)], value=val), loop))
                    out.extend(copy.deepcopy(loop.body))
                    continue
                if any(isinstance(n, ast.Yield) for n in ast.walk(s)):
                    if isinstance(s, (ast.For, ast.While)):
                        s.body = splice(s.body, True, True)
                        if any(isinstance(n, ast.Yield) for x in s.orelse for n in ast.walk(x)):
                            ok = False
                    elif isinstance(s, ast.If):
                        s.body = splice(s.body, tail and last, in_loop)
                        s.orelse = splice(s.orelse, tail and last, in_loop)
                    else:
                        ok = False
                out.append(s)
            return out

        new = splice(body, True, False)
        if not ok:
            self.failed.add(q)
            return None
        for s in pre + new:
            for n in ast.walk(s):
                if hasattr(n, "lineno"):
                    n.lineno = getattr(loop, "lineno", n.lineno)
                    n.end_lineno = getattr(loop, "end_lineno", None)
            ast.fix_missing_locations(s)
        self.inlined.add(q)
        return pre + new

    def _inline_exprs(self, st: ast.stmt, fn: ast.FunctionDef, cls: ast.ClassDef | None, qual: str) -> None:
        outer = self

        class T(ast.NodeTransformer):
            def visit_Call(self, node: ast.Call) -> ast.AST:
                self.generic_visit(node)
                r = outer.resolve(node, fn, cls, qual)
                if r is None:
                    return node
                callee, implicit, q = r
                body = [s for s in callee.body if not (isinstance(s, ast.Expr) and isinstance(s.value, ast.Constant))]
                if any(isinstance(n, (ast.Yield, ast.YieldFrom)) for n in ast.walk(callee)):
                    # a generator helper that is one `for T in E: yield V` (or `yield from E`) is the generator expression (V for T in E)
                    gen: ast.expr | None = None
                    if len(body) == 1 and isinstance(body[0], ast.For) and not body[0].orelse and len(body[0].body) == 1 \
                            and isinstance(body[0].body[0], ast.Expr) and isinstance(body[0].body[0].value, ast.Yield) and body[0].body[0].value.value is not None:
                        gen = ast.GeneratorExp(elt=body[0].body[0].value.value, generators=[ast.comprehension(target=body[0].target, iter=body[0].iter, ifs=[], is_async=0)])
                    elif len(body) == 1 and isinstance(body[0], ast.Expr) and isinstance(body[0].value, ast.YieldFrom):
                        gen = body[0].value.value
                    if gen is None:
                        return node
                    b = outer._bind(callee, implicit, node)
                    if b is not None and all(is_pure_expr(x) for x in b[0].values()):
                        outer.inlined.add(q)
                        return ast.copy_location(ast.fix_missing_locations(_Subst(dict(b[0])).visit(copy.deepcopy(gen))), node)
                    return node
                if len(body) > 1 and isinstance(body[-1], ast.Return):
                    # pure single-assignment locals of the helper collapse into its return expression
                    try:
                        cal2 = copy.deepcopy(callee)
                        cal2 = lower(cal2, tuples=True, ifexp=False)
                        cal2 = inline_locals(cal2)
                        body = [s for s in cal2.body if not (isinstance(s, ast.Expr) and isinstance(s.value, ast.Constant)) and not isinstance(s, ast.Pass)]
                    except RecursionError:
                        pass
                if not (len(body) == 1 and isinstance(body[0], ast.Return)):
                    one = _returns_to_ifexp(copy.deepcopy(body))
                    if one is not None:
                        body = [ast.copy_location(ast.Return(value=one), body[0])]
                if len(body) == 1 and isinstance(body[0], ast.Return) and body[0].value is not None:
                    b = outer._bind(callee, implicit, node)
                    if b is not None and all(is_pure_expr(x) for x in b[0].values()):
                        outer.inlined.add(q)
                        return ast.copy_location(_Subst(dict(b[0])).visit(copy.deepcopy(body[0].value)), node)
                return node

            def visit_FunctionDef(self, node: ast.FunctionDef) -> ast.AST:
                return node

        # only the header expressions of compound statements, the whole simple statement otherwise
        if isinstance(st, (ast.If, ast.While)):
            st.test = T().visit(st.test)
        elif isinstance(st, ast.For):
            st.iter = T().visit(st.iter)
        elif isinstance(st, (ast.Try, ast.With, ast.FunctionDef, ast.ClassDef)):
            return
        else:
            T().visit(st)


def _leading_walrus(e: ast.expr) -> ast.NamedExpr | None:
    """The assignment expression that is evaluated first (unconditionally) in ``e``, if any."""
    if isinstance(e, ast.NamedExpr) and isinstance(e.target, ast.Name):
        return e
    if isinstance(e, ast.Compare):
        w = _leading_walrus(e.left)
        if w is None and len(e.comparators) == 1 and is_pure_expr(e.left):
            # `a.b != (t := E)`: the left operand is a plain read; binding t first changes nothing unless the operand mentions t
            w = _leading_walrus(e.comparators[0])
            if w is not None and any(isinstance(x, ast.Name) and x.id == w.target.id for x in ast.walk(e.left)):
                w = None
        return w
    if isinstance(e, ast.UnaryOp):
        return _leading_walrus(e.operand)
    if isinstance(e, ast.BoolOp):
        return _leading_walrus(e.values[0])
    if isinstance(e, ast.Call) and e.args and not any(isinstance(a, ast.Starred) for a in e.args[:1]) and is_pure_expr(e.func):
        # `D.get(t := E)`: the callee expression is a plain read, the first argument is what is evaluated next
        w = _leading_walrus(e.args[0])
        if w is not None and any(isinstance(x, ast.Name) and x.id == w.target.id for x in ast.walk(e.func)):
            w = None
        return w
    return None


def _replace_node(root: ast.expr, old: ast.AST, new: ast.expr) -> ast.expr:
    if root is old:
        return new

    class R(ast.NodeTransformer):
        def visit(self, node: ast.AST) -> ast.AST:
            if node is old:
                return new
            return super().visit(node)

    return R().visit(root)


def _literal_elements(it: ast.expr) -> list[ast.expr] | None:
    """Elements of a literal iterable: (a, b), [a, b], {k: v}.items() / .keys() / .values() / the dict itself."""
    if isinstance(it, (ast.Tuple, ast.List)):
        return list(it.elts)
    d, what = None, "keys"
    if isinstance(it, ast.Dict):
        d = it
    elif isinstance(it, ast.Call) and isinstance(it.func, ast.Attribute) and isinstance(it.func.value, ast.Dict) and not it.args and not it.keywords \
            and it.func.attr in ("items", "keys", "values"):
        d, what = it.func.value, it.func.attr
    if d is None or any(k is None for k in d.keys):
        return None
    if what == "items":
        return [ast.Tuple(elts=[k, v], ctx=ast.Load()) for k, v in zip(d.keys, d.values)]  # type: ignore[list-item]
    return list(d.keys) if what == "keys" else list(d.values)  # type: ignore[arg-type]


def _unroll_bindings(target: ast.expr, elts: list[ast.expr]) -> list[dict[str, ast.expr]] | None:
    """Per element: loop variable(s) -> literal, for `for x in (c1, c2)` and `for a, b in ((c1, f), (c2, g))`."""
    def leaf(e: ast.expr) -> bool:
        return isinstance(e, (ast.Constant, ast.Name)) or (isinstance(e, ast.Attribute) and isinstance(e.value, ast.Name))
    out = []
    for e in elts:
        if isinstance(target, ast.Name) and leaf(e):
            out.append({target.id: e})
        elif isinstance(target, ast.Tuple) and all(isinstance(t, ast.Name) for t in target.elts) and isinstance(e, (ast.Tuple, ast.List)) \
                and len(e.elts) == len(target.elts) and all(leaf(x) for x in e.elts):
            out.append({t.id: x for t, x in zip(target.elts, e.elts)})  # type: ignore[attr-defined]
        else:
            return None
    return out


def _bind_pattern(target: ast.expr, value: ast.expr) -> dict[str, ast.expr] | None:
    if isinstance(target, ast.Name):
        return {target.id: value}
    if isinstance(target, (ast.Tuple, ast.List)) and isinstance(value, (ast.Tuple, ast.List)) and len(target.elts) == len(value.elts) \
            and not any(isinstance(x, ast.Starred) for x in list(target.elts) + list(value.elts)):
        out: dict[str, ast.expr] = {}
        for t, v in zip(target.elts, value.elts):
            sub = _bind_pattern(t, v)
            if sub is None or set(sub) & set(out):
                return None
            out.update(sub)
        return out
    return None


def _keyerror_probe(st: ast.Try) -> list[ast.stmt] | None:
    if st.finalbody or len(st.handlers) != 1 or len(st.body) != 1:
        return None
    h = st.handlers[0]
    if h.type is None or dotted(h.type) != "KeyError" or h.name is not None:
        return None
    one = st.body[0]
    if not isinstance(one, (ast.Return, ast.Assign)) or one.value is None:
        return None
    if isinstance(one, ast.Assign) and not all(isinstance(t, ast.Name) for t in one.targets):
        return None
    subs = [n for n in ast.walk(one.value) if isinstance(n, ast.Subscript)]
    if len(subs) != 1 or any(isinstance(n, (ast.Call, ast.Await, ast.Yield, ast.YieldFrom, ast.NamedExpr)) for n in ast.walk(one.value)):
        return None
    d_, k_ = subs[0].value, subs[0].slice
    if not (dotted(d_) is not None and (isinstance(k_, (ast.Name, ast.Constant)) or dotted(k_) is not None)):
        return None
    test = ast.Compare(left=copy.deepcopy(k_), ops=[ast.In()], comparators=[copy.deepcopy(d_)])
    hbody = [s_ for s_ in h.body if not isinstance(s_, ast.Pass)]
    if isinstance(one, ast.Return):
        if st.orelse:
            return None
        new: list[ast.stmt] = [ast.If(test=test, body=[one], orelse=[])] + hbody
    else:
        new = [ast.If(test=test, body=[one] + list(st.orelse), orelse=hbody)]
    for n_ in new:
        ast.copy_location(n_, st)
        ast.fix_missing_locations(n_)
    return new


_TI_COUNTER = [0]


def _traversal_unpack(st: ast.For) -> ast.For | None:
    """A loop that unpacks the traversal records of dfs()/bfs() in its header reads the record's fields by position."""
    fields = [f for f, _ in NAMEDTUPLE_FIELDS.get("NodeTraversalInfo", [])]
    if not fields or not (isinstance(st.target, ast.Tuple) and len(st.target.elts) == len(fields) and all(isinstance(x, ast.Name) for x in st.target.elts)):
        return None
    it = st.iter
    if not (isinstance(it, ast.Call) and isinstance(it.func, ast.Attribute) and it.func.attr in ("dfs", "bfs")):
        return None
    names = [x.id for x in st.target.elts]  # type: ignore[attr-defined]
    if len(set(names)) != len(names):
        dup = {n for n in names if names.count(n) > 1}
        if any(isinstance(n, ast.Name) and n.id in dup for b_ in st.body for n in ast.walk(b_)):
            return None
    if any(isinstance(n, ast.Name) and isinstance(n.ctx, (ast.Store, ast.Del)) and n.id in names for b_ in st.body + st.orelse for n in ast.walk(b_)):
        return None
    _TI_COUNTER[0] += 1
    rec = f"_ti{_TI_COUNTER[0]}"
    mapping = {n: ast.Attribute(value=ast.Name(id=rec, ctx=ast.Load()), attr=f, ctx=ast.Load()) for n, f in zip(names, fields)}
    new = copy.copy(st)
    new.target = ast.copy_location(ast.Name(id=rec, ctx=ast.Store()), st.target)
    new.body = [_Subst(mapping).visit(copy.deepcopy(b_)) for b_ in st.body]
    new.orelse = [_Subst(mapping).visit(copy.deepcopy(b_)) for b_ in st.orelse]
    return ast.fix_missing_locations(new)


def _leading_ifexp(e: ast.expr) -> ast.IfExp | None:
    """The conditional expression that is evaluated first in ``e`` (receiver of the leading call / attribute chain), if any; a bare
    conditional expression as the whole value is handled by the dedicated cases."""
    cur: ast.expr = e
    depth = 0
    while True:
        if isinstance(cur, ast.IfExp):
            return cur if depth else None
        if isinstance(cur, (ast.YieldFrom, ast.Await)) and cur.value is not None:
            cur = cur.value
        elif isinstance(cur, ast.Call):
            cur = cur.func
        elif isinstance(cur, ast.Attribute):
            cur = cur.value
        elif isinstance(cur, ast.Subscript):
            cur = cur.value
        else:
            return None
        depth += 1


def _bool_typed(e: ast.expr) -> ast.expr | None:
    """If ``e`` always evaluates to True or False exactly as the truth value of some condition C, return C."""
    if isinstance(e, ast.Call) and isinstance(e.func, ast.Name) and e.func.id == "bool" and len(e.args) == 1 and not e.keywords:
        return e.args[0]
    if isinstance(e, ast.Compare) and all(isinstance(o, (ast.Is, ast.IsNot, ast.In, ast.NotIn)) for o in e.ops):
        return e
    if isinstance(e, ast.UnaryOp) and isinstance(e.op, ast.Not):
        return e
    if isinstance(e, ast.Call) and isinstance(e.func, ast.Name) and e.func.id in ("isinstance", "issubclass", "hasattr", "callable", "any", "all"):
        return e
    return None


def lower(fn: ast.FunctionDef, tuples: bool = True, ifexp: bool = True) -> ast.FunctionDef:
    """Statement-level canonicalisation:
    * ``a, b = x, y`` (no cross dependency)            ->  ``a = x`` ; ``b = y``
    * ``x = A if c else B`` / ``return A if c else B`` / ``f(A if c else B)`` as a statement  ->  if c: ... else: ...
    """

    # locals that only ever hold True / False
    cand: dict[str, bool] = {}
    for n_ in ast.walk(fn):
        if isinstance(n_, ast.Assign) and len(n_.targets) == 1 and isinstance(n_.targets[0], ast.Name):
            okb = (isinstance(n_.value, ast.Constant) and isinstance(n_.value.value, bool)) or _bool_typed(n_.value) is not None
            cand[n_.targets[0].id] = cand.get(n_.targets[0].id, True) and okb
        elif isinstance(n_, ast.Name) and isinstance(n_.ctx, ast.Store):
            pass
    other_stores = {n_.id for n_ in ast.walk(fn) if isinstance(n_, ast.Name) and isinstance(n_.ctx, ast.Store)}
    assigned_plain = {t.id for n_ in ast.walk(fn) if isinstance(n_, ast.Assign) and len(n_.targets) == 1 for t in n_.targets if isinstance(t, ast.Name)}
    params = {a_.arg for a_ in ast.walk(fn) if isinstance(a_, ast.arg)}
    multi = set()
    for n_ in ast.walk(fn):  # names that are also bound in other ways (loop targets, tuple unpacking, with ... as)
        if isinstance(n_, (ast.For, ast.comprehension)):
            multi |= {x.id for x in ast.walk(n_.target) if isinstance(x, ast.Name)}
        elif isinstance(n_, ast.Assign) and not (len(n_.targets) == 1 and isinstance(n_.targets[0], ast.Name)):
            multi |= {x.id for t in n_.targets for x in ast.walk(t) if isinstance(x, ast.Name) and isinstance(x.ctx, ast.Store)}
        elif isinstance(n_, (ast.AugAssign, ast.AnnAssign, ast.NamedExpr)) and isinstance(n_.target, ast.Name):
            multi.add(n_.target.id)
        elif isinstance(n_, ast.With):
            multi |= {x.id for it_ in n_.items if it_.optional_vars is not None for x in ast.walk(it_.optional_vars) if isinstance(x, ast.Name)}
        elif isinstance(n_, ast.ExceptHandler) and n_.name:
            multi.add(n_.name)
    bool_names = {k for k, v in cand.items() if v and k not in multi and k not in params}

    def rewrite(block: list[ast.stmt]) -> None:
        i = 0
        while i < len(block):
            st = block[i]
            new: list[ast.stmt] | None = None
            if not tuples and isinstance(st, ast.Assign) and isinstance(st.targets[0], ast.Tuple) and isinstance(st.value, ast.Tuple):
                pass
            elif not ifexp and isinstance(getattr(st, "value", None), ast.IfExp) and not isinstance(st, ast.Return):
                pass  # (a conditional *return* is lowered in the first phase already: it creates no new binding)
            elif not ifexp and isinstance(st, ast.Expr) and isinstance(st.value, ast.Call) and len(st.value.args) == 1 and isinstance(st.value.args[0], ast.IfExp):
                pass
            elif isinstance(st, ast.Assign) and len(st.targets) == 1 and isinstance(st.targets[0], ast.Tuple) and isinstance(st.value, ast.Tuple) \
                    and len(st.targets[0].elts) == len(st.value.elts) and all(isinstance(t, ast.Name) for t in st.targets[0].elts):
                names = {t.id for t in st.targets[0].elts}  # type: ignore[attr-defined]
                reads = {n.id for v in st.value.elts for n in ast.walk(v) if isinstance(n, ast.Name)}
                if not (names & reads):
                    new = [ast.copy_location(ast.Assign(targets=[t], value=v), st) for t, v in zip(st.targets[0].elts, st.value.elts)]
            elif tuples and isinstance(st, ast.If) and not st.orelse and isinstance(st.test, ast.BoolOp) and isinstance(st.test.op, ast.And) \
                    and _leading_walrus(st.test) is None and any(_leading_walrus(v) is not None for v in st.test.values[1:]):
                # if a and (x := e) and c: B   ->   if a: if (x := e) and c: B      (no else branch)
                k = next(i for i, v in enumerate(st.test.values) if i > 0 and _leading_walrus(v) is not None)
                first = st.test.values[0] if k == 1 else ast.BoolOp(op=ast.And(), values=st.test.values[:k])
                rest_ = st.test.values[k] if k == len(st.test.values) - 1 else ast.BoolOp(op=ast.And(), values=st.test.values[k:])
                inner = ast.copy_location(ast.If(test=rest_, body=st.body, orelse=[]), st)
                new = [ast.copy_location(ast.If(test=first, body=[inner], orelse=[]), st)]
            elif tuples and isinstance(st, ast.If) and _leading_walrus(st.test) is not None:
                w = _leading_walrus(st.test)
                pre = ast.copy_location(ast.Assign(targets=[ast.Name(id=w.target.id, ctx=ast.Store())], value=w.value), st)
                st.test = _replace_node(st.test, w, ast.copy_location(ast.Name(id=w.target.id, ctx=ast.Load()), w))
                new = [pre, st]
            elif tuples and isinstance(st, ast.While) and not st.orelse and _leading_walrus(st.test) is not None:
                w = _leading_walrus(st.test)
                pre = ast.copy_location(ast.Assign(targets=[ast.Name(id=w.target.id, ctx=ast.Store())], value=w.value), st)
                t2 = _replace_node(st.test, w, ast.copy_location(ast.Name(id=w.target.id, ctx=ast.Load()), w))
                brk = ast.copy_location(ast.If(test=ast.UnaryOp(op=ast.Not(), operand=t2), body=[ast.copy_location(ast.Break(), st)], orelse=[]), st)
                new = [ast.copy_location(ast.While(test=ast.Constant(value=True), body=[pre, brk] + st.body, orelse=[]), st)]
            elif tuples and isinstance(st, ast.For) and not st.orelse and _literal_elements(st.iter) is not None and 0 < len(_literal_elements(st.iter) or []) <= 12 \
                    and _unroll_bindings(st.target, _literal_elements(st.iter) or []) is not None \
                    and not any(isinstance(n, (ast.Break, ast.Continue)) for b in st.body for n in ast.walk(b)) \
                    and not any(isinstance(n, ast.Name) and isinstance(n.ctx, ast.Store) and n.id in {x.id for x in ast.walk(st.target) if isinstance(x, ast.Name)}
                                for b in st.body for n in ast.walk(b)) \
                    and not any(isinstance(n, ast.Name) and isinstance(n.ctx, ast.Store) and n.id in {x.id for e_ in (_literal_elements(st.iter) or []) for x in ast.walk(e_) if isinstance(x, ast.Name)}
                                for b in st.body for n in ast.walk(b)):
                # a loop over a literal tuple of constants (or of equally shaped literal tuples) is its unrolling
                new = []
                for binding in _unroll_bindings(st.target, _literal_elements(st.iter) or []) or []:
                    for b in st.body:
                        new.append(ast.fix_missing_locations(_Canon().visit(_Subst(binding).visit(copy.deepcopy(b)))))
            elif tuples and isinstance(st, ast.Assign) and len(st.targets) == 1 and isinstance(st.targets[0], ast.Name) and isinstance(st.value, ast.Call) \
                    and isinstance(st.value.func, ast.Attribute) and st.value.func.attr == "setdefault" and len(st.value.args) == 2 and not st.value.keywords \
                    and all(is_pure_expr(x) for x in st.value.args) and is_pure_expr(st.value.func.value):
                # x = d.setdefault(k, v)  ==  if k not in d: d[k] = v ; x = d[k]
                d_, k_, v_ = st.value.func.value, st.value.args[0], st.value.args[1]
                store = ast.Assign(targets=[ast.Subscript(value=copy.deepcopy(d_), slice=copy.deepcopy(k_), ctx=ast.Store())], value=v_)
                new = [ast.copy_location(ast.If(test=ast.Compare(left=copy.deepcopy(k_), ops=[ast.NotIn()], comparators=[copy.deepcopy(d_)]), body=[ast.copy_location(store, st)], orelse=[]), st),
                       ast.copy_location(ast.Assign(targets=st.targets, value=ast.Subscript(value=copy.deepcopy(d_), slice=copy.deepcopy(k_), ctx=ast.Load())), st)]
            elif tuples and isinstance(st, ast.Expr) and isinstance(st.value, ast.Call) and isinstance(st.value.func, ast.Attribute) \
                    and st.value.func.attr == "setdefault" and len(st.value.args) == 2 and not st.value.keywords \
                    and all(is_pure_expr(x) for x in st.value.args) and is_pure_expr(st.value.func.value):
                # d.setdefault(k, v) with the result discarded  ==  if k not in d: d[k] = v
                d_, k_, v_ = st.value.func.value, st.value.args[0], st.value.args[1]
                store = ast.Assign(targets=[ast.Subscript(value=copy.deepcopy(d_), slice=copy.deepcopy(k_), ctx=ast.Store())], value=v_)
                new = [ast.copy_location(ast.If(test=ast.Compare(left=k_, ops=[ast.NotIn()], comparators=[d_]), body=[ast.copy_location(store, st)], orelse=[]), st)]
            elif ifexp and isinstance(st, ast.Assign) and isinstance(st.value, ast.Tuple) and sum(isinstance(x, ast.IfExp) for x in st.value.elts) == 1 \
                    and all(is_pure_expr(x) for x in st.value.elts if not isinstance(x, ast.IfExp)) \
                    and is_pure_expr(next(x for x in st.value.elts if isinstance(x, ast.IfExp)).test):
                # x = (a, B if c else C)  ->  if c: x = (a, B) else: x = (a, C)
                pos = next(i_ for i_, x in enumerate(st.value.elts) if isinstance(x, ast.IfExp))
                ife = st.value.elts[pos]

                def mkta(v: ast.expr) -> ast.stmt:
                    c = copy.deepcopy(st)
                    c.value.elts[pos] = v  # type: ignore[union-attr]
                    return c
                new = [ast.copy_location(ast.If(test=ife.test, body=[mkta(ife.body)], orelse=[mkta(ife.orelse)]), st)]
            elif isinstance(st, (ast.Assign, ast.AnnAssign)) and isinstance(st.value, ast.IfExp):
                def mk(v: ast.expr) -> ast.stmt:
                    c = copy.copy(st)
                    c.value = v
                    return c
                new = [ast.copy_location(ast.If(test=st.value.test, body=[mk(st.value.body)], orelse=[mk(st.value.orelse)]), st)]
            elif isinstance(st, ast.Return) and isinstance(st.value, ast.Tuple) and sum(isinstance(x, ast.IfExp) for x in st.value.elts) == 1 \
                    and all(is_pure_expr(x) for x in st.value.elts if not isinstance(x, ast.IfExp)) \
                    and is_pure_expr(next(x for x in st.value.elts if isinstance(x, ast.IfExp)).test):
                # return (a, B if c else C)  ->  if c: return (a, B) else: return (a, C)
                pos = next(i_ for i_, x in enumerate(st.value.elts) if isinstance(x, ast.IfExp))
                ife = st.value.elts[pos]

                def mkt(v: ast.expr) -> ast.stmt:
                    c = copy.deepcopy(st)
                    c.value.elts[pos] = v  # type: ignore[union-attr]
                    return c
                new = [ast.copy_location(ast.If(test=ife.test, body=[mkt(ife.body)], orelse=[mkt(ife.orelse)]), st)]
            elif isinstance(st, ast.Return) and isinstance(st.value, ast.Tuple) and len(st.value.elts) >= 2 and _bool_typed(st.value.elts[0]) is not None \
                    and all(is_pure_expr(x) for x in st.value.elts[1:]):
                # return (bool(C), X)  ->  if C: return (True, X) else: return (False, X)
                cond = _bool_typed(st.value.elts[0])

                def mkb(v: bool) -> ast.stmt:
                    c = copy.deepcopy(st)
                    c.value.elts[0] = ast.copy_location(ast.Constant(value=v), st)  # type: ignore[union-attr]
                    return c
                new = [ast.copy_location(ast.If(test=cond, body=[mkb(True)], orelse=[mkb(False)]), st)]
            elif isinstance(st, ast.Return) and isinstance(st.value, ast.BoolOp) and len(st.value.values) >= 2 \
                    and (_bool_typed(st.value.values[0]) is not None or (isinstance(st.value.values[0], ast.Name) and st.value.values[0].id in bool_names)):
                # return A or B  (A a boolean)  ->  if A: return True ; return B        /  return A and B  ->  if not A: return False ; return B
                first = st.value.values[0]
                rest_v = st.value.values[1] if len(st.value.values) == 2 else ast.BoolOp(op=st.value.op, values=st.value.values[1:])
                is_or = isinstance(st.value.op, ast.Or)
                test_ = first if is_or else ast.UnaryOp(op=ast.Not(), operand=first)
                new = [ast.copy_location(ast.If(test=test_, body=[ast.copy_location(ast.Return(value=ast.Constant(value=is_or)), st)], orelse=[]), st),
                       ast.copy_location(ast.Return(value=rest_v), st)]
            elif isinstance(st, ast.Return) and isinstance(st.value, ast.IfExp):
                new = [ast.copy_location(ast.If(test=st.value.test, body=[ast.copy_location(ast.Return(value=st.value.body), st)],
                                                orelse=[ast.copy_location(ast.Return(value=st.value.orelse), st)]), st)]
            elif isinstance(st, ast.Expr) and isinstance(st.value, ast.Call) and len(st.value.args) == 1 and not st.value.keywords \
                    and isinstance(st.value.args[0], ast.IfExp):
                ife = st.value.args[0]

                def mkc(v: ast.expr) -> ast.stmt:
                    c = copy.deepcopy(st)
                    c.value.args = [v]  # type: ignore[attr-defined]
                    return c
                new = [ast.copy_location(ast.If(test=ife.test, body=[mkc(ife.body)], orelse=[mkc(ife.orelse)]), st)]
            elif tuples and isinstance(st, ast.Try) and _keyerror_probe(st) is not None:
                # try: <use D[K]> except KeyError: H   ->   if K in D: <use D[K]> else: H     (nothing else in the statement can raise KeyError)
                new = _keyerror_probe(st)
            elif tuples and isinstance(st, ast.For) and not st.orelse and isinstance(st.iter, ast.Call) and dotted(st.iter.func) in ("chain", "itertools.chain") \
                    and st.iter.args and not st.iter.keywords and not any(isinstance(a_, ast.Starred) for a_ in st.iter.args) \
                    and all(is_pure_expr(a_) or k_ == 0 for k_, a_ in enumerate(st.iter.args)) \
                    and not any(isinstance(n, ast.Break) for b_ in st.body for n in ast.walk(b_)):
                # for x in chain(A, B): body  ->  for x in A: body ; for x in B: body      (no break: every part is iterated to its end)
                new = []
                for a_ in st.iter.args:
                    c = copy.deepcopy(st)
                    c.iter = a_
                    new.append(c)
            elif tuples and isinstance(st, ast.For) and isinstance(st.iter, ast.GeneratorExp) and len(st.iter.generators) == 1 and not st.iter.generators[0].is_async \
                    and not st.orelse and not any(isinstance(n, ast.Name) and n.id in {x.id for x in ast.walk(st.iter.generators[0].target) if isinstance(x, ast.Name)}
                                                   and isinstance(n.ctx, ast.Store) for b_ in st.body for n in ast.walk(b_)):
                # for T in (E for t in IT if c): body  ->  for t in IT: if c: T = E ; body
                g_ = st.iter.generators[0]
                inner_body: list[ast.stmt] = [ast.copy_location(ast.Assign(targets=[st.target], value=st.iter.elt), st)] + list(st.body)
                for c_ in reversed(g_.ifs):
                    inner_body = [ast.copy_location(ast.If(test=c_, body=inner_body, orelse=[]), st)]
                new = [ast.copy_location(ast.For(target=g_.target, iter=g_.iter, body=inner_body, orelse=[]), st)]
            elif tuples and isinstance(st, ast.For) and _traversal_unpack(st) is not None:
                # for node, parent, field, index in x.dfs():  ->  for _ti in x.dfs(): (node -> _ti.node, ...)
                new = [_traversal_unpack(st)]  # type: ignore[list-item]
            elif ifexp and isinstance(st, (ast.Expr, ast.Return, ast.Assign)) and st.value is not None and _leading_ifexp(st.value) is not None:
                # (A if c else B).m(x) as the first thing a statement evaluates: branch on c at statement level
                ife = _leading_ifexp(st.value)

                def mkl2(v: ast.expr) -> ast.stmt:
                    c = copy.deepcopy(st)
                    c.value = _replace_node(c.value, _leading_ifexp(c.value), v)  # type: ignore[arg-type]
                    return c
                new = [ast.copy_location(ast.If(test=ife.test, body=[mkl2(copy.deepcopy(ife.body))], orelse=[mkl2(copy.deepcopy(ife.orelse))]), st)]
            elif ifexp and isinstance(st, ast.For) and isinstance(st.iter, ast.IfExp):
                # for x in (A if c else B): body [else: E]   ->   if c: for x in A: ... else: for x in B: ...   (c is evaluated once, first)
                ife = st.iter

                def mkl(it: ast.expr) -> ast.stmt:
                    c = copy.deepcopy(st)
                    c.iter = it
                    return c
                new = [ast.copy_location(ast.If(test=ife.test, body=[mkl(ife.body)], orelse=[mkl(ife.orelse)]), st)]
            elif ifexp and isinstance(st, (ast.Assign, ast.AnnAssign, ast.Expr, ast.Return)) and isinstance(getattr(st, "value", None), ast.Call) \
                    and isinstance(st.value.func, ast.IfExp) and is_pure_expr(st.value.func.test):
                # (f if c else g)(args)  ->  if c: f(args) else: g(args)     (c is evaluated before the arguments either way)
                ife = st.value.func

                def mkf(fx: ast.expr) -> ast.stmt:
                    c = copy.deepcopy(st)
                    c.value.func = fx  # type: ignore[attr-defined]
                    return c
                new = [ast.copy_location(ast.If(test=ife.test, body=[mkf(ife.body)], orelse=[mkf(ife.orelse)]), st)]
            elif ifexp and isinstance(st, (ast.Assign, ast.AnnAssign, ast.Expr, ast.Return)) and isinstance(getattr(st, "value", None), ast.Call) \
                    and dotted(st.value.func) is not None:
                # f(x, A if c else B, ...) with otherwise pure arguments: branch on c at statement level
                call = st.value
                slots = [("a", k) for k, x in enumerate(call.args) if isinstance(x, ast.IfExp)] + [("k", k) for k, x in enumerate(call.keywords) if isinstance(x.value, ast.IfExp)]
                others = [x for x in call.args if not isinstance(x, ast.IfExp)] + [x.value for x in call.keywords if not isinstance(x.value, ast.IfExp)]
                if len(slots) == 1 and all(is_pure_expr(x) for x in others) and not any(isinstance(x, ast.Starred) for x in call.args):
                    kind, pos = slots[0]
                    ife = call.args[pos] if kind == "a" else call.keywords[pos].value
                    if is_pure_expr(ife.test):
                        def mka(v: ast.expr) -> ast.stmt:
                            c = copy.deepcopy(st)
                            if kind == "a":
                                c.value.args[pos] = v  # type: ignore[attr-defined]
                            else:
                                c.value.keywords[pos].value = v  # type: ignore[attr-defined]
                            return c
                        new = [ast.copy_location(ast.If(test=ife.test, body=[mka(ife.body)], orelse=[mka(ife.orelse)]), st)]
            if new is not None:
                block[i:i + 1] = new
                continue
            for sub in _blocks(st):
                rewrite(sub)
            i += 1

    rewrite(fn.body)
    ast.fix_missing_locations(fn)
    return fn


def new_module_constants(tree: ast.Module, known_vars: set[str] | None) -> dict[str, ast.expr]:
    """Module-level names that do not exist on the pinned tree, are bound exactly once, to a literal structure
    (constants, tuples / lists / sets / dicts of such, names of module-level functions and classes allowed as leaves),
    and are never rebound through ``global``.  Their uses inside functions are replaced by the literal."""
    if known_vars is None:
        return {}
    stores: dict[str, int] = {}
    defs: dict[str, ast.expr] = {}
    for st in tree.body:
        if isinstance(st, (ast.FunctionDef, ast.AsyncFunctionDef, ast.ClassDef)):
            continue
        for n in ast.walk(st):
            if isinstance(n, ast.Name) and isinstance(n.ctx, ast.Store):
                stores[n.id] = stores.get(n.id, 0) + 1
        tg = val = None
        if isinstance(st, ast.Assign) and len(st.targets) == 1 and isinstance(st.targets[0], ast.Name):
            tg, val = st.targets[0].id, st.value
        elif isinstance(st, ast.AnnAssign) and isinstance(st.target, ast.Name) and st.value is not None:
            tg, val = st.target.id, st.value
        if tg is not None and val is not None:
            defs[tg] = val
    for n in ast.walk(tree):
        if isinstance(n, ast.Global):
            for x in n.names:
                stores[x] = stores.get(x, 0) + 2
    toplevel = {st.name for st in tree.body if isinstance(st, (ast.FunctionDef, ast.ClassDef))}
    for st in ast.walk(tree):
        if isinstance(st, (ast.Import, ast.ImportFrom)):
            toplevel |= {(a.asname or a.name).split(".")[0] for a in st.names}

    def literal(e: ast.expr, depth: int = 0) -> bool:
        if depth > 4:
            return False
        if isinstance(e, ast.Constant):
            return True
        if isinstance(e, ast.Name):
            return e.id in toplevel
        if isinstance(e, ast.Attribute):  # SerializationOption.SKIP_CLASS and the like
            return isinstance(e.value, ast.Name) and e.value.id[:1].isupper()
        if isinstance(e, (ast.Tuple, ast.List, ast.Set)):
            return all(literal(x, depth + 1) for x in e.elts)
        if isinstance(e, ast.Dict):
            return all(k is not None and literal(k, depth + 1) and literal(v, depth + 1) for k, v in zip(e.keys, e.values))
        if isinstance(e, ast.Call) and isinstance(e.func, ast.Name) and e.func.id in ("frozenset", "tuple") and len(e.args) == 1 and not e.keywords:
            return literal(e.args[0], depth + 1)
        if isinstance(e, ast.UnaryOp) and isinstance(e.op, ast.USub):
            return literal(e.operand, depth + 1)
        return False

    parents: dict[int, ast.AST] = {}
    for p in ast.walk(tree):
        for c in ast.iter_child_nodes(p):
            parents[id(c)] = p

    def read_only(name: str) -> bool:
        """A mutable literal (list / dict / set) is a constant only if it is never mutated and never escapes: every use is an
        iteration, a membership test, a subscript load or a call of items() / keys() / values() / get()."""
        for n in ast.walk(tree):
            if not (isinstance(n, ast.Name) and n.id == name and isinstance(n.ctx, ast.Load)):
                continue
            p = parents.get(id(n))
            if isinstance(p, ast.Attribute) and p.value is n and p.attr in ("items", "keys", "values", "get", "__contains__", "__getitem__"):
                continue
            if isinstance(p, ast.Subscript) and p.value is n and isinstance(p.ctx, ast.Load):
                continue
            if isinstance(p, ast.Compare) and n in p.comparators and all(isinstance(o, (ast.In, ast.NotIn)) for o in p.ops):
                continue
            if isinstance(p, (ast.For, ast.comprehension)) and p.iter is n:
                continue
            return False
        return True

    out = {}
    for name, val in defs.items():
        if name in known_vars or stores.get(name) != 1 or not literal(val):
            continue
        if any(isinstance(x, (ast.List, ast.Dict, ast.Set)) for x in ast.walk(val)) and not read_only(name):
            continue
        if isinstance(val, ast.Call):  # frozenset((..)) / tuple([..]) of literals: the literal sequence itself
            val = ast.copy_location(ast.Tuple(elts=list(val.args[0].elts), ctx=ast.Load()), val) if isinstance(val.args[0], (ast.Tuple, ast.List, ast.Set)) else val
        out[name] = val
    return out


class _Canon(ast.NodeTransformer):
    """Expression / statement spellings with one meaning get one form:
    * ``x: T = v`` inside a function is ``x = v`` (local annotations are not evaluated); a bare ``x: T`` disappears
    * ``not (a is b)`` -> ``a is not b``; ``not (a in b)`` -> ``a not in b`` (and the other way round for double negation)
    * in an identity comparison a constant operand (None / True / False / ...) stands on the right
    """

    def visit_AnnAssign(self, node: ast.AnnAssign) -> ast.AST:
        self.generic_visit(node)
        if node.value is None:
            return ast.copy_location(ast.Pass(), node)
        return ast.copy_location(ast.Assign(targets=[node.target], value=node.value), node)

    def visit_UnaryOp(self, node: ast.UnaryOp) -> ast.AST:
        self.generic_visit(node)
        if isinstance(node.op, ast.Not) and isinstance(node.operand, ast.Compare) and len(node.operand.ops) == 1:
            flip = {ast.Is: ast.IsNot, ast.IsNot: ast.Is, ast.In: ast.NotIn, ast.NotIn: ast.In}
            op = node.operand.ops[0]
            if type(op) in flip:
                return ast.copy_location(ast.Compare(left=node.operand.left, ops=[flip[type(op)]()], comparators=node.operand.comparators), node)
        return node

    def visit_Compare(self, node: ast.Compare) -> ast.AST:
        self.generic_visit(node)
        if len(node.ops) == 1 and isinstance(node.ops[0], (ast.Is, ast.IsNot)) and isinstance(node.left, ast.Constant) \
                and not isinstance(node.comparators[0], ast.Constant) and not any(isinstance(x, ast.NamedExpr) for x in ast.walk(node)):
            return ast.copy_location(ast.Compare(left=node.comparators[0], ops=node.ops, comparators=[node.left]), node)
        return node

    def visit_Expr(self, node: ast.Expr) -> ast.AST:
        self.generic_visit(node)
        v = node.value
        if isinstance(v, ast.Call) and isinstance(v.func, ast.Name) and v.func.id == "setattr" and len(v.args) == 3 and not v.keywords \
                and isinstance(v.args[1], ast.Constant) and isinstance(v.args[1].value, str) and v.args[1].value.isidentifier() \
                and isinstance(v.args[0], ast.Name) and v.args[0].id in ("cls", "clz", "klass"):
            # setattr(cls, "name", v) on a class object is the attribute assignment cls.name = v
            return ast.copy_location(ast.Assign(targets=[ast.Attribute(value=v.args[0], attr=v.args[1].value, ctx=ast.Store())], value=v.args[2]), node)
        return node

    def visit_ClassDef(self, node: ast.ClassDef) -> ast.AST:
        return node  # class bodies keep their annotations (dataclass fields)

    # ---- "..{}..".format(a, b) -> f"..{a}..{b}"  (same str()/format() calls on the same values)
    def visit_Call(self, node: ast.Call) -> ast.AST:
        self.generic_visit(node)
        f = node.func
        lazy = _map_to_genexp(node)
        if lazy is not None:
            return ast.copy_location(lazy, node)
        if isinstance(f, ast.Name) and f.id == "str" and len(node.args) == 1 and not node.keywords and isinstance(node.args[0], ast.Constant) and isinstance(node.args[0].value, str):
            return node.args[0]  # str("text") is "text"
        if isinstance(f, ast.Name) and f.id == "getattr" and len(node.args) == 2 and not node.keywords and isinstance(node.args[1], ast.Constant) \
                and isinstance(node.args[1].value, str) and node.args[1].value.isidentifier() and not node.args[1].value.startswith("__"):
            # getattr(x, "name") with a literal name is x.name
            return ast.copy_location(ast.Attribute(value=node.args[0], attr=node.args[1].value, ctx=ast.Load()), node)
        if isinstance(f, ast.Attribute) and f.attr == "format" and isinstance(f.value, ast.Constant) and isinstance(f.value.value, str) \
                and not any(isinstance(a, ast.Starred) for a in node.args) and all(k.arg is not None for k in node.keywords):
            js = _format_to_fstring(f.value.value, node.args, {k.arg: k.value for k in node.keywords})
            if js is not None:
                return ast.copy_location(js, node)
        return node

    # ---- a comprehension over a generator expression is one comprehension: (E(t) for t in (V for T in X))  ->  (E(V) for T in X)
    def _fuse(self, node: Any) -> Any:
        self.generic_visit(node)
        if len(node.generators) != 1:
            return node
        g = node.generators[0]
        # for a, b in zip(A, repeat(X)):  b is X for every element of A
        if isinstance(g.iter, ast.Call) and dotted(g.iter.func) == "zip" and len(g.iter.args) == 2 and not g.iter.keywords \
                and isinstance(g.target, ast.Tuple) and len(g.target.elts) == 2 and all(isinstance(x, ast.Name) for x in g.target.elts):
            for pos in (0, 1):
                rp = g.iter.args[pos]
                if isinstance(rp, ast.Call) and dotted(rp.func) in ("repeat", "itertools.repeat") and len(rp.args) == 1 and not rp.keywords and is_pure_expr(rp.args[0]):
                    other = g.iter.args[1 - pos]
                    if isinstance(other, ast.Call) and dotted(other.func) in ("repeat", "itertools.repeat"):
                        break
                    m_ = {g.target.elts[pos].id: rp.args[0]}  # type: ignore[attr-defined]
                    new0 = copy.copy(node)
                    for fld in ("elt", "key", "value"):
                        if hasattr(node, fld):
                            setattr(new0, fld, _Subst(m_).visit(copy.deepcopy(getattr(node, fld))))
                    new0.generators = [ast.comprehension(target=g.target.elts[1 - pos], iter=other, ifs=[_Subst(m_).visit(copy.deepcopy(c)) for c in g.ifs], is_async=0)]
                    node = ast.copy_location(ast.fix_missing_locations(new0), node)
                    g = node.generators[0]
                    break
        inner = g.iter
        if not (isinstance(inner, ast.GeneratorExp) and len(inner.generators) == 1 and not g.is_async and not inner.generators[0].is_async):
            return node
        one = _bind_pattern(g.target, inner.elt)
        if one is None or not all(is_pure_expr(v) for v in one.values()):
            return node
        binding = [one]
        ig = inner.generators[0]
        inner_names = {n.id for n in ast.walk(ig.target) if isinstance(n, ast.Name)}
        outer_free = {n.id for x in [getattr(node, "elt", None), getattr(node, "key", None), getattr(node, "value", None)] + list(g.ifs) if x is not None
                      for n in ast.walk(x) if isinstance(n, ast.Name)} - set(binding[0])
        if inner_names & outer_free:
            return node  # the inner loop variable would capture a name of the outer element
        m = binding[0]
        new = copy.copy(node)
        for fld in ("elt", "key", "value"):
            if hasattr(node, fld):
                setattr(new, fld, _Subst(m).visit(copy.deepcopy(getattr(node, fld))))
        new.generators = [ast.comprehension(target=ig.target, iter=ig.iter, ifs=list(ig.ifs) + [_Subst(m).visit(copy.deepcopy(c)) for c in g.ifs], is_async=0)]
        return ast.copy_location(ast.fix_missing_locations(new), node)

    visit_GeneratorExp = _fuse
    visit_ListComp = _fuse
    visit_SetComp = _fuse
    visit_DictComp = _fuse

    # ---- constants in and / or chains: `None or X` is X, `'' or X` is X, `1 and X` is X (a constant operand decides nothing at run time)
    def visit_BoolOp(self, node: ast.BoolOp) -> ast.AST:
        self.generic_visit(node)
        vals = list(node.values)
        is_or = isinstance(node.op, ast.Or)
        out: list[ast.expr] = []
        for k, v in enumerate(vals):
            last = k == len(vals) - 1
            if isinstance(v, ast.Constant) and not last:
                truthy = bool(v.value)
                if truthy == is_or:
                    out.append(v)  # `X or 1 or Y`: evaluation stops here with this constant
                    break
                continue  # falsy constant in `or` / truthy constant in `and`: skipped
            out.append(v)
        if len(out) == 1:
            return out[0]
        if len(out) != len(vals):
            return ast.copy_location(ast.BoolOp(op=node.op, values=out), node)
        return node

    # ---- `A if A else B` is `A or B` (A pure: evaluated once or twice makes no difference)
    def visit_IfExp(self, node: ast.IfExp) -> ast.AST:
        self.generic_visit(node)
        if isinstance(node.test, ast.Constant):  # a constant condition (an inlined helper called with a literal)
            return node.body if node.test.value else node.orelse
        if isinstance(node.body, ast.Call) and isinstance(node.body.func, ast.Name) and node.body.func.id == "str" and len(node.body.args) == 1 \
                and not node.body.keywords and is_pure_expr(node.test) and ast.dump(node.body.args[0]) == ast.dump(node.test) \
                and isinstance(node.orelse, ast.Constant) and isinstance(node.orelse.value, str):
            # str(A) if A else "c"  ==  str(A or "c")
            return ast.copy_location(ast.Call(func=ast.Name(id="str", ctx=ast.Load()), args=[ast.BoolOp(op=ast.Or(), values=[node.test, node.orelse])], keywords=[]), node)
        if is_pure_expr(node.test) and ast.dump(node.test) == ast.dump(node.body):
            return ast.copy_location(ast.BoolOp(op=ast.Or(), values=[node.body, node.orelse]), node)
        if isinstance(node.test, ast.UnaryOp) and isinstance(node.test.op, ast.Not) and is_pure_expr(node.test.operand) \
                and ast.dump(node.test.operand) == ast.dump(node.orelse):
            return ast.copy_location(ast.BoolOp(op=ast.Or(), values=[node.orelse, node.body]), node)
        return node

    # ---- string building: constants inside f-strings are literal text; "lit" + <known str> is an f-string
    def visit_JoinedStr(self, node: ast.JoinedStr) -> ast.AST:
        self.generic_visit(node)
        return _fold_joined(node)

    def visit_BinOp(self, node: ast.BinOp) -> ast.AST:
        self.generic_visit(node)
        if isinstance(node.op, ast.Add) and _known_str(node.left) and _known_str(node.right) \
                and (isinstance(node.left, (ast.Constant, ast.JoinedStr)) or isinstance(node.right, (ast.Constant, ast.JoinedStr))):
            parts: list[ast.expr] = []
            for side in (node.left, node.right):
                if isinstance(side, ast.JoinedStr):
                    parts += side.values
                elif isinstance(side, ast.Constant):
                    parts.append(side)
                else:
                    parts.append(ast.FormattedValue(value=side, conversion=-1, format_spec=None))
            return ast.copy_location(_fold_joined(ast.JoinedStr(values=parts)), node)
        return node

    # ---- match statements over value / singleton / class / wildcard patterns are if-chains
    def visit_Match(self, node: ast.Match) -> Any:
        self.generic_visit(node)
        out = _lower_match(node)
        return out if out is not None else node


_MAP_COUNTER = [0]


def _map_to_genexp(node: ast.Call) -> ast.expr | None:
    """map(f, it) / map(lambda x: E, it) / starmap(lambda a, b: E, it)  ->  the generator expression with the same elements
    (both are lazy and evaluate `it` when they are created)."""
    name = dotted(node.func)
    if name not in ("map", "starmap", "itertools.starmap") or len(node.args) != 2 or node.keywords or any(isinstance(a, ast.Starred) for a in node.args):
        return None
    fn_, it = node.args
    star = name != "map"
    if isinstance(fn_, ast.Lambda):
        a = fn_.args
        if a.vararg or a.kwarg or a.kwonlyargs or a.defaults or a.posonlyargs:
            return None
        params = [x.arg for x in a.args]
        if (not star and len(params) != 1) or (star and not params):
            return None
        tgt: ast.expr = ast.Name(id=params[0], ctx=ast.Store()) if not star else ast.Tuple(elts=[ast.Name(id=p_, ctx=ast.Store()) for p_ in params], ctx=ast.Store())
        elt: ast.expr = fn_.body
    elif isinstance(fn_, (ast.Name, ast.Attribute)) and not star:
        _MAP_COUNTER[0] += 1
        v = f"_m{_MAP_COUNTER[0]}"
        tgt = ast.Name(id=v, ctx=ast.Store())
        elt = ast.Call(func=fn_, args=[ast.Name(id=v, ctx=ast.Load())], keywords=[])
    else:
        return None
    return ast.GeneratorExp(elt=elt, generators=[ast.comprehension(target=tgt, iter=it, ifs=[], is_async=0)])


def _known_str(e: ast.expr) -> bool:
    """Expressions that are str objects whatever the input (so that + on them is concatenation and {} prints them unchanged)."""
    if isinstance(e, ast.Constant):
        return isinstance(e.value, str)
    if isinstance(e, ast.JoinedStr):
        return True
    if isinstance(e, ast.Attribute) and e.attr in ("__name__", "__qualname__", "__module__"):
        return True
    if isinstance(e, ast.Call) and isinstance(e.func, ast.Name) and e.func.id in ("str", "repr") and len(e.args) == 1 and not e.keywords:
        return True
    if isinstance(e, ast.BinOp) and isinstance(e.op, ast.Add):
        return _known_str(e.left) and _known_str(e.right)
    return False


def _fold_joined(node: ast.JoinedStr) -> ast.expr:
    vals: list[ast.expr] = []
    for v in node.values:
        if isinstance(v, ast.FormattedValue) and v.conversion == -1 and v.format_spec is None:
            if isinstance(v.value, ast.Constant) and isinstance(v.value.value, str):
                v = ast.Constant(value=v.value.value)
            elif isinstance(v.value, ast.JoinedStr):  # f"{f'..'}" prints the inner string unchanged
                for w in v.value.values:
                    vals.append(w)
                continue
        if isinstance(v, ast.Constant) and vals and isinstance(vals[-1], ast.Constant):
            vals[-1] = ast.Constant(value=vals[-1].value + v.value)
        else:
            vals.append(v)
    # merge constants that became adjacent through the splice above
    out: list[ast.expr] = []
    for v in vals:
        if isinstance(v, ast.Constant) and out and isinstance(out[-1], ast.Constant):
            out[-1] = ast.Constant(value=out[-1].value + v.value)
        else:
            out.append(v)
    if len(out) == 1 and isinstance(out[0], ast.Constant):
        return ast.copy_location(out[0], node)
    if not out:
        return ast.copy_location(ast.Constant(value=""), node)
    return ast.copy_location(ast.JoinedStr(values=out), node)


def _format_to_fstring(fmt: str, args: list[ast.expr], kwargs: dict[str, ast.expr]) -> ast.JoinedStr | None:
    import string
    try:
        parts = list(string.Formatter().parse(fmt))
    except ValueError:
        return None
    values: list[ast.expr] = []
    auto = 0
    used: list[Any] = []
    for lit, field, spec, conv in parts:
        if lit:
            values.append(ast.Constant(value=lit))
        if field is None:
            continue
        if spec and ("{" in spec or "}" in spec):
            return None
        if field == "":
            key: Any = auto
            auto += 1
        elif field.isdigit():
            key = int(field)
        elif field.isidentifier():
            key = field
        else:
            return None  # attribute / index access inside the field
        if isinstance(key, int):
            if key >= len(args):
                return None
            val = args[key]
        else:
            if key not in kwargs:
                return None
            val = kwargs[key]
        if key in used and not isinstance(val, (ast.Name, ast.Constant)):
            return None
        used.append(key)
        values.append(ast.FormattedValue(value=copy.deepcopy(val), conversion=ord(conv) if conv else -1,
                                         format_spec=ast.JoinedStr(values=[ast.Constant(value=spec)]) if spec else None))
    if len(set(used)) != len(args) + len(kwargs):
        return None  # an argument that is evaluated but not printed
    # arguments are evaluated left to right in both spellings only if they are used in order
    order = [k if isinstance(k, int) else len(args) + list(kwargs).index(k) for k in used]
    if order != sorted(order) and not all(is_pure_expr(a) for a in list(args) + list(kwargs.values())):
        return None
    return ast.JoinedStr(values=values)


_MATCH_COUNTER = [0]


def _lower_match(node: ast.Match) -> list[ast.stmt] | None:
    """match S: case P1 [if g]: B1 ...  ->  [tmp = S]; if T1: B1 elif ...   for patterns whose test is one expression and that bind
    at most the whole subject (value, singleton, class without sub-patterns, wildcard, capture, `as`, alternatives of those)."""
    subj = node.subject
    pre: list[ast.stmt] = []
    if not (isinstance(subj, ast.Name) or (isinstance(subj, ast.Attribute) and is_pure_expr(subj) and not any(isinstance(x, (ast.Call, ast.Subscript)) for x in ast.walk(subj)))):
        _MATCH_COUNTER[0] += 1
        tmp = f"_m{_MATCH_COUNTER[0]}__subj"
        pre.append(ast.copy_location(ast.Assign(targets=[ast.Name(id=tmp, ctx=ast.Store())], value=subj), node))
        subj = ast.Name(id=tmp, ctx=ast.Load())

    def test(p: ast.pattern) -> tuple[ast.expr | None, str | None] | None:
        """(test expression or None for irrefutable, bound name)"""
        if isinstance(p, ast.MatchValue):
            return ast.Compare(left=copy.deepcopy(subj), ops=[ast.Eq()], comparators=[p.value]), None
        if isinstance(p, ast.MatchSingleton):
            return ast.Compare(left=copy.deepcopy(subj), ops=[ast.Is()], comparators=[ast.Constant(value=p.value)]), None
        if isinstance(p, ast.MatchClass) and not p.patterns and not p.kwd_patterns:
            return ast.Call(func=ast.Name(id="isinstance", ctx=ast.Load()), args=[copy.deepcopy(subj), p.cls], keywords=[]), None
        if isinstance(p, ast.MatchClass) and not p.patterns and p.kwd_patterns and all(isinstance(k, (ast.MatchValue, ast.MatchSingleton)) for k in p.kwd_patterns):
            # C(attr=<constant>, ...): isinstance(S, C) and S.attr == <constant> and ...  (attributes are looked up in the order written)
            parts: list[ast.expr] = [ast.Call(func=ast.Name(id="isinstance", ctx=ast.Load()), args=[copy.deepcopy(subj), p.cls], keywords=[])]
            for a_, k in zip(p.kwd_attrs, p.kwd_patterns):
                left = ast.Attribute(value=copy.deepcopy(subj), attr=a_, ctx=ast.Load())
                if isinstance(k, ast.MatchValue):
                    parts.append(ast.Compare(left=left, ops=[ast.Eq()], comparators=[k.value]))
                else:
                    parts.append(ast.Compare(left=left, ops=[ast.Is()], comparators=[ast.Constant(value=k.value)]))
            return ast.BoolOp(op=ast.And(), values=parts), None
        if isinstance(p, ast.MatchAs):
            if p.pattern is None:
                return None, p.name
            inner = test(p.pattern)
            if inner is None or inner[1] is not None:
                return None if inner is None else None
            return inner[0], p.name
        if isinstance(p, ast.MatchOr):
            ts = [test(x) for x in p.patterns]
            if any(t is None or t[1] is not None or t[0] is None for t in ts):
                return None
            return ast.BoolOp(op=ast.Or(), values=[t[0] for t in ts]), None  # type: ignore[index,misc]
        return None

    chain: list[tuple[ast.expr | None, list[ast.stmt]]] = []
    for case in node.cases:
        # an irrefutable MatchAs returns (None, name); an unsupported pattern returns None: tell them apart
        if isinstance(case.pattern, ast.MatchAs) and case.pattern.pattern is None:
            t: tuple[ast.expr | None, str | None] | None = (None, case.pattern.name)
        else:
            t = test(case.pattern)
            if t is None or t[0] is None:
                return None
        cond, name = t
        body = list(case.body)
        if name is not None:
            if case.guard is not None:
                return None  # the guard may read the binding
            body = [ast.copy_location(ast.Assign(targets=[ast.Name(id=name, ctx=ast.Store())], value=copy.deepcopy(subj)), case.pattern)] + body
        if case.guard is not None:
            cond = case.guard if cond is None else ast.BoolOp(op=ast.And(), values=[cond, case.guard])
        chain.append((cond, body))
        if cond is None:
            break
    out: list[ast.stmt] = []
    cur = out
    for cond, body in chain:
        if cond is None:
            cur.extend(body)
            break
        st = ast.copy_location(ast.If(test=cond, body=body, orelse=[]), node)
        cur.append(st)
        cur = st.orelse
    res = pre + out
    for st in res:
        ast.fix_missing_locations(st)
    return res or [ast.copy_location(ast.Pass(), node)]


def _while_true_break(fn: ast.FunctionDef) -> None:
    """``while True: if c: break; rest``  ->  ``while not c: rest`` (no else clause; `continue` re-evaluates the test either way)."""
    for n in ast.walk(fn):
        if isinstance(n, ast.While) and not n.orelse and isinstance(n.test, ast.Constant) and n.test.value is True and len(n.body) >= 2:
            first = n.body[0]
            if isinstance(first, ast.If) and not first.orelse and len(first.body) == 1 and isinstance(first.body[0], ast.Break) \
                    and not any(isinstance(x, ast.NamedExpr) for x in ast.walk(first.test)):
                t = first.test
                n.test = t.operand if isinstance(t, ast.UnaryOp) and isinstance(t.op, ast.Not) else ast.copy_location(ast.UnaryOp(op=ast.Not(), operand=t), t)
                n.body = n.body[1:]


def _rotate_loops(fn: ast.FunctionDef) -> None:
    """Two spellings of a worklist loop whose expansion step has been rotated to the top of an outer ``while True``:

    B   ``while True: E; while W: ...; break(s)  else: break``   ->   ``E; while W: ... (each break -> E; continue)``
        (after a ``break`` of the inner loop control returns to the top of the outer loop, runs E and re-enters the inner loop: the same as
        running E and carrying on; exhaustion of the inner loop is the only way out)
    A   ``while True: if f: E; if not W: break; BODY``           ->   ``if f: E; while W: BODY; if f: E``
        (BODY has no break / continue; the guard and E are re-evaluated with the values BODY has just assigned)

    E must not contain break / continue / return / yield-free is not required (E is plain statements: assignments, loops that fill W)."""

    def has_jump(stmts: list[ast.stmt], kinds: tuple) -> bool:
        def rec(b: list[ast.stmt], in_loop: bool) -> bool:
            for st in b:
                if isinstance(st, (ast.FunctionDef, ast.ClassDef)):
                    continue
                if isinstance(st, ast.Return) and ast.Return in kinds:
                    return True
                if isinstance(st, (ast.Break, ast.Continue)) and type(st) in kinds and not in_loop:
                    return True
                if isinstance(st, (ast.For, ast.While)):
                    if rec(st.body, True) or rec(st.orelse, in_loop):
                        return True
                    continue
                for sub in _blocks(st):
                    if rec(sub, in_loop):
                        return True
            return False
        return rec(stmts, False)

    def replace_breaks(block: list[ast.stmt], repl: list[ast.stmt]) -> bool:
        """Replace the breaks of the loop that owns ``block``; False when one of them is not the last statement of its block."""
        ok = True
        i = 0
        while i < len(block):
            st = block[i]
            if isinstance(st, ast.Break):
                if i != len(block) - 1:
                    ok = False
                block[i:i + 1] = copy.deepcopy(repl) + [ast.copy_location(ast.Continue(), st)]
                i += len(repl) + 1
                continue
            if isinstance(st, (ast.For, ast.While)):
                ok = replace_breaks(st.orelse, repl) and ok
            elif not isinstance(st, (ast.FunctionDef, ast.ClassDef)):
                for sub in _blocks(st):
                    ok = replace_breaks(sub, repl) and ok
            i += 1
        return ok

    def rewrite(block: list[ast.stmt]) -> None:
        i = 0
        while i < len(block):
            st = block[i]
            if isinstance(st, ast.While) and isinstance(st.test, ast.Constant) and st.test.value is True and not st.orelse and len(st.body) >= 2:
                k_in = next((k for k in range(len(st.body) - 1, -1, -1) if isinstance(st.body[k], ast.While)), len(st.body) - 1)
                inner = st.body[k_in]
                E = st.body[:k_in]
                TAIL = st.body[k_in + 1:]  # (runs after a break of the inner loop, before the outer loop starts over)
                # --- B
                if isinstance(inner, ast.While) and len(inner.orelse) == 1 and isinstance(inner.orelse[0], ast.Break) and E \
                        and not has_jump(E + TAIL, (ast.Break, ast.Continue, ast.Return)) \
                        and not has_jump(inner.body, (ast.Continue, ast.Return)) and not any(isinstance(x, (ast.Yield, ast.YieldFrom)) for e_ in E + TAIL for x in ast.walk(e_)):
                    body = copy.deepcopy(inner.body)
                    # temporaries of E (bound in E, read nowhere else) get names of their own in the copy that moves into the loop:
                    # every local keeps a single definition, as the later normal forms expect
                    in_E = {id(x) for e_ in E for x in ast.walk(e_)}
                    bound = {x.id for e_ in E for x in ast.walk(e_) if isinstance(x, ast.Name) and isinstance(x.ctx, ast.Store)}
                    elsewhere = {x.id for x in ast.walk(fn) if isinstance(x, ast.Name) and id(x) not in in_E}
                    temps = bound - elsewhere
                    E2 = copy.deepcopy(E)
                    for e_ in E2:
                        for x in ast.walk(e_):
                            if isinstance(x, ast.Name) and x.id in temps:
                                x.id = x.id + "__rot"
                    if replace_breaks(body, TAIL + E2):
                        new_loop = ast.copy_location(ast.While(test=inner.test, body=body, orelse=[]), st)
                        block[i:i + 1] = copy.deepcopy(E) + [new_loop]
                        ast.fix_missing_locations(new_loop)
                        i += len(E)
                        continue
                # --- A
                head = st.body[0]
                if isinstance(head, ast.If) and not head.orelse and len(st.body) >= 3 and isinstance(st.body[1], ast.If) and not st.body[1].orelse \
                        and len(st.body[1].body) == 1 and isinstance(st.body[1].body[0], ast.Break) and not has_jump(head.body, (ast.Break, ast.Continue, ast.Return)) \
                        and not has_jump(st.body[2:], (ast.Break, ast.Continue, ast.Return)) \
                        and not any(isinstance(x, (ast.Yield, ast.YieldFrom, ast.NamedExpr)) for x in ast.walk(head)):
                    t = st.body[1].test
                    test = t.operand if isinstance(t, ast.UnaryOp) and isinstance(t.op, ast.Not) else ast.copy_location(ast.UnaryOp(op=ast.Not(), operand=t), t)
                    new_loop = ast.copy_location(ast.While(test=test, body=copy.deepcopy(st.body[2:]) + [copy.deepcopy(head)], orelse=[]), st)
                    block[i:i + 1] = [copy.deepcopy(head), new_loop]
                    ast.fix_missing_locations(new_loop)
                    i += 1
                    continue
            for sub in _blocks(st):
                rewrite(sub)
            i += 1

    rewrite(fn.body)


def _flatten_else(fn: ast.FunctionDef) -> None:
    """``if c: ...; return/raise/continue/break`` ``else: rest``  ->  guard clause followed by ``rest`` (same block)."""

    def leaves(body: list[ast.stmt]) -> bool:
        if not body:
            return False
        last = body[-1]
        if isinstance(last, (ast.Return, ast.Raise, ast.Continue, ast.Break)):
            return True
        if isinstance(last, ast.If) and last.orelse:
            return leaves(last.body) and leaves(last.orelse)
        return False

    def rewrite(block: list[ast.stmt]) -> None:
        i = 0
        while i < len(block):
            st = block[i]
            if isinstance(st, ast.If) and st.orelse and leaves(st.body) and not any(isinstance(x, (ast.FunctionDef, ast.ClassDef)) for x in st.orelse):
                rest = st.orelse
                st.orelse = []
                block[i + 1:i + 1] = rest
            for sub in _blocks(st):
                rewrite(sub)
            i += 1

    rewrite(fn.body)


def _break_to_exit(fn: ast.FunctionDef) -> None:
    """``for ..: .. break ..  else: E (leaves)``  followed by ``AFTER`` (at most 3 simple statements, the last a return / raise, the end of
    its block): the only way to reach AFTER is a ``break`` of this loop, so every such ``break`` becomes a copy of AFTER and the else
    suite follows the loop (exhaustion is the only way past it)."""

    def simple_exit(after: list[ast.stmt]) -> bool:
        return 0 < len(after) <= 3 and isinstance(after[-1], (ast.Return, ast.Raise)) \
            and all(isinstance(x, (ast.Expr, ast.Assign, ast.AugAssign, ast.AnnAssign, ast.Return, ast.Raise, ast.Assert)) for x in after)

    def leaves(body: list[ast.stmt]) -> bool:
        return bool(body) and isinstance(body[-1], (ast.Return, ast.Raise))

    def replace_breaks(block: list[ast.stmt], after: list[ast.stmt]) -> None:
        i = 0
        while i < len(block):
            st = block[i]
            if isinstance(st, ast.Break):
                block[i:i + 1] = copy.deepcopy(after)
                i += len(after)
                continue
            if isinstance(st, (ast.For, ast.While, ast.FunctionDef, ast.ClassDef)):
                if isinstance(st, (ast.For, ast.While)):
                    pass  # a nested loop owns its breaks (its else suite belongs to the outer level but cannot hold a break of ours... it can)
                    replace_breaks(st.orelse, after)
                i += 1
                continue
            for sub in _blocks(st):
                replace_breaks(sub, after)
            i += 1

    def owned(node: ast.AST, top: bool = True) -> int:
        """Number of break statements that belong to the loop `node` (any nesting of statements that are not loops / definitions)."""
        n = 0
        for ch in ast.iter_child_nodes(node):
            if isinstance(ch, ast.Break):
                n += 1
            elif isinstance(ch, (ast.For, ast.While)):
                n += sum(owned_stmt(x) for x in ch.orelse)
            elif isinstance(ch, (ast.FunctionDef, ast.AsyncFunctionDef, ast.ClassDef, ast.Lambda)):
                continue
            elif isinstance(ch, ast.AST):
                n += owned(ch, False)
        return n

    def owned_stmt(x: ast.stmt) -> int:
        return 1 if isinstance(x, ast.Break) else owned(x, False)

    def reachable(block: list[ast.stmt]) -> int:
        """The breaks replace_breaks gets at."""
        n = 0
        for st in block:
            if isinstance(st, ast.Break):
                n += 1
            elif isinstance(st, (ast.For, ast.While)):
                n += reachable(st.orelse)
            elif isinstance(st, (ast.FunctionDef, ast.ClassDef)):
                continue
            else:
                for sub in _blocks(st):
                    n += reachable(sub)
        return n

    def rewrite(block: list[ast.stmt]) -> None:
        i = 0
        while i < len(block):
            st = block[i]
            if isinstance(st, (ast.For, ast.While)) and st.orelse and leaves(st.orelse) and simple_exit(block[i + 1:]) \
                    and not (isinstance(st, ast.While) and isinstance(st.test, ast.Constant)) \
                    and sum(owned_stmt(x) for x in st.body) == reachable(st.body) > 0:
                after = block[i + 1:]
                replace_breaks(st.body, after)
                del block[i + 1:]
                block.extend(st.orelse)
                st.orelse = []
            for sub in _blocks(st):
                rewrite(sub)
            i += 1

    rewrite(fn.body)


def _inline_adjacent(fn: ast.FunctionDef) -> None:
    """``t = <any expression>`` immediately followed by a statement whose *first evaluated* expression is ``t`` (its only
    use): the definition moves into the use.  Nothing is evaluated in between, so this holds for impure values too."""

    def leads(e: ast.expr | None) -> list[ast.Name]:
        """The names that are read before anything with an effect of its own is evaluated in ``e`` (in evaluation order)."""
        out: list[ast.Name] = []
        while e is not None:
            if isinstance(e, ast.Name):
                out.append(e)
                return out
            if isinstance(e, (ast.YieldFrom, ast.Await)):
                e = e.value
            elif isinstance(e, ast.Compare):
                e = e.left
            elif isinstance(e, ast.UnaryOp):
                e = e.operand
            elif isinstance(e, ast.BoolOp):
                e = e.values[0]
            elif isinstance(e, ast.Attribute):
                e = e.value
            elif isinstance(e, ast.Subscript):
                e = e.value
            elif isinstance(e, ast.Call):
                f_ = e.func
                if isinstance(f_, ast.Name):
                    out.append(f_)  # the callee is looked up first
                elif isinstance(f_, ast.Attribute) and isinstance(f_.value, ast.Name):
                    out.append(f_.value)
                else:
                    return out + leads(f_)
                # looking up a function / a method of a local evaluates nothing of its own: the first argument comes next
                if e.args and not isinstance(e.args[0], ast.Starred):
                    e = e.args[0]
                else:
                    return out
            else:
                return out
        return out

    def lead(e: ast.expr | None) -> ast.expr | None:
        ls = leads(e)
        return ls[-1] if ls else None

    counts = _stores(fn)

    def rewrite(block: list[ast.stmt]) -> None:
        i = 0
        while i + 1 < len(block):
            st, nxt = block[i], block[i + 1]
            done = False
            if isinstance(st, ast.Assign) and len(st.targets) == 1 and isinstance(st.targets[0], ast.Name) and counts.get(st.targets[0].id) == 1:
                nm = st.targets[0].id
                uses = [n for n in ast.walk(fn) if isinstance(n, ast.Name) and n.id == nm and isinstance(n.ctx, ast.Load)]
                head = nxt.test if isinstance(nxt, ast.If) else (nxt.value if isinstance(nxt, (ast.Return, ast.Expr, ast.Assign)) else None)
                ld = lead(head)
                if len(uses) == 1 and any(x is uses[0] for x in leads(head)):
                    ld = uses[0]
                if len(uses) == 1 and isinstance(st.value, ast.Name) and not isinstance(nxt, (ast.For, ast.While, ast.Try, ast.With, ast.FunctionDef, ast.ClassDef)) \
                        and any(n is uses[0] for n in ast.walk(nxt)) \
                        and not any(isinstance(n, ast.Name) and n.id == st.value.id and isinstance(n.ctx, (ast.Store, ast.Del)) for n in ast.walk(nxt)) \
                        and not any(isinstance(n, (ast.Lambda, ast.FunctionDef)) for n in ast.walk(nxt)):
                    # t = y (another name of the same object) used once in the very next simple statement: the use reads y
                    uses[0].id = st.value.id
                    del block[i]
                    continue
                if len(uses) == 1 and ld is uses[0] and not any(isinstance(x, (ast.Yield, ast.YieldFrom, ast.Await, ast.NamedExpr)) for x in ast.walk(st.value)) \
                        and not (_is_container_ctor(st.value) and _is_empty_container(st.value)):
                    new_head = _replace_node(head, ld, st.value)
                    if isinstance(nxt, ast.If):
                        nxt.test = new_head
                    else:
                        nxt.value = new_head  # type: ignore[union-attr]
                    del block[i]
                    done = True
            if not done:
                for sub in _blocks(st):
                    rewrite(sub)
                i += 1
        if block:
            for sub in _blocks(block[-1]):
                rewrite(sub)

    rewrite(fn.body)


class _Strings(ast.NodeTransformer):
    """The string spellings of _Canon only (run again after locals were substituted)."""
    visit_JoinedStr = _Canon.visit_JoinedStr
    visit_BinOp = _Canon.visit_BinOp
    visit_IfExp = _Canon.visit_IfExp
    visit_BoolOp = _Canon.visit_BoolOp
    _fuse = _Canon._fuse
    visit_GeneratorExp = _Canon._fuse
    visit_ListComp = _Canon._fuse
    visit_SetComp = _Canon._fuse
    visit_DictComp = _Canon._fuse

    def visit_ClassDef(self, node: ast.ClassDef) -> ast.AST:
        return node


def _quantifier(cond: ast.expr, target: ast.expr, it: ast.expr, k_hit: bool) -> ast.expr:
    """The value of `for T in IT: if C: <k_hit>; stop` / otherwise `not k_hit`, as any()/all() over the same tests in the same order."""
    def gen(elt: ast.expr) -> ast.expr:
        return ast.GeneratorExp(elt=elt, generators=[ast.comprehension(target=copy.deepcopy(target), iter=it, ifs=[], is_async=0)])
    neg = isinstance(cond, ast.UnaryOp) and isinstance(cond.op, ast.Not)
    if k_hit:
        return ast.Call(func=ast.Name(id="any", ctx=ast.Load()), args=[gen(cond)], keywords=[])
    if neg:
        return ast.Call(func=ast.Name(id="all", ctx=ast.Load()), args=[gen(cond.operand)], keywords=[])  # type: ignore[union-attr]
    return ast.UnaryOp(op=ast.Not(), operand=ast.Call(func=ast.Name(id="any", ctx=ast.Load()), args=[gen(cond)], keywords=[]))


def _search_loops(fn: ast.FunctionDef) -> None:
    """Boolean search loops are quantifiers (same tests, same order, same short circuit):
    * ``for T in IT: if C: return K`` ; ``return not K``
    * ``for T in IT: if C: X = K; break`` ``else: X = not K``            (and the form with ``X = not K`` before the loop)
    with K a boolean constant and no other statement in the loop."""
    def boolc(e: ast.expr | None) -> bool | None:
        return e.value if isinstance(e, ast.Constant) and isinstance(e.value, bool) else None

    def shape(lp: ast.stmt) -> tuple[ast.expr, ast.stmt] | None:
        if not (isinstance(lp, ast.For) and len(lp.body) == 1 and isinstance(lp.body[0], ast.If) and not lp.body[0].orelse):
            return None
        if any(isinstance(n, (ast.Yield, ast.YieldFrom, ast.Await, ast.NamedExpr)) for n in ast.walk(lp.body[0].test)):
            return None
        return lp.body[0].test, lp.body[0]

    def rewrite(block: list[ast.stmt]) -> None:
        i = 0
        while i < len(block):
            st = block[i]
            sh = shape(st)
            new: list[ast.stmt] | None = None
            if sh is not None:
                cond, iff = sh
                nxt = block[i + 1] if i + 1 < len(block) else None
                b = iff.body
                if len(b) == 1 and isinstance(b[0], ast.Return) and boolc(b[0].value) is not None and not st.orelse \
                        and isinstance(nxt, ast.Return) and boolc(nxt.value) == (not boolc(b[0].value)):
                    new = [ast.copy_location(ast.Return(value=_quantifier(cond, st.target, st.iter, bool(boolc(b[0].value)))), st)]
                    block[i:i + 2] = new
                elif len(b) == 1 and isinstance(b[0], ast.Break) and len(st.orelse) == 1 and isinstance(st.orelse[0], ast.Return) and boolc(st.orelse[0].value) is not None \
                        and isinstance(nxt, ast.Return) and boolc(nxt.value) == (not boolc(st.orelse[0].value)):
                    # for T in IT: if C: break   else: return K2   ;  return not K2
                    new = [ast.copy_location(ast.Return(value=_quantifier(cond, st.target, st.iter, bool(boolc(nxt.value)))), st)]
                    block[i:i + 2] = new
                elif len(b) == 2 and isinstance(b[1], ast.Break) and isinstance(b[0], ast.Assign) and len(b[0].targets) == 1 and isinstance(b[0].targets[0], ast.Name) \
                        and boolc(b[0].value) is not None:
                    x = b[0].targets[0].id
                    k = bool(boolc(b[0].value))
                    used = any(isinstance(n, ast.Name) and n.id == x for e_ in (cond, st.iter, st.target) for n in ast.walk(e_))
                    if not used and len(st.orelse) == 1 and isinstance(st.orelse[0], ast.Assign) and len(st.orelse[0].targets) == 1 \
                            and norm(st.orelse[0].targets[0]) == x and boolc(st.orelse[0].value) == (not k):
                        new = [ast.copy_location(ast.Assign(targets=[ast.Name(id=x, ctx=ast.Store())], value=_quantifier(cond, st.target, st.iter, k)), st)]
                        block[i:i + 1] = new
                    elif not used and not st.orelse and i > 0 and isinstance(block[i - 1], ast.Assign) and len(block[i - 1].targets) == 1 \
                            and norm(block[i - 1].targets[0]) == x and boolc(block[i - 1].value) == (not k):
                        new = [ast.copy_location(ast.Assign(targets=[ast.Name(id=x, ctx=ast.Store())], value=_quantifier(cond, st.target, st.iter, k)), st)]
                        block[i - 1:i + 1] = new
                        i -= 1
            if new is not None:
                for n_ in new:
                    ast.fix_missing_locations(n_)
                i += 1
                continue
            for sub in _blocks(st):
                rewrite(sub)
            i += 1

    rewrite(fn.body)


def _dead_copies(fn: ast.FunctionDef) -> None:
    """``x = y`` at the top level of a function, y not used afterwards and x bound only here: from here on x *is* y (renamed back)."""
    counts = _stores(fn)
    i = 0
    while i < len(fn.body):
        st = fn.body[i]
        if isinstance(st, ast.Assign) and len(st.targets) == 1 and isinstance(st.targets[0], ast.Name) and isinstance(st.value, ast.Name) \
                and counts.get(st.targets[0].id) == 1 and st.targets[0].id != st.value.id:
            x, y = st.targets[0].id, st.value.id
            after = fn.body[i + 1:]
            before = fn.body[:i]
            y_later = any(isinstance(n, ast.Name) and n.id == y for b_ in after for n in ast.walk(b_))
            x_before = any(isinstance(n, ast.Name) and n.id == x for b_ in before for n in ast.walk(b_))
            scoped = any(isinstance(n, (ast.Nonlocal, ast.Global)) and (x in n.names or y in n.names) for n in ast.walk(fn))
            params = {a_.arg for a_ in ast.walk(fn.args) if isinstance(a_, ast.arg)}
            if not y_later and not x_before and not scoped and x not in params:
                for b_ in after:
                    for n in ast.walk(b_):
                        if isinstance(n, ast.Name) and n.id == x:
                            n.id = y
                del fn.body[i]
                counts = _stores(fn)
                continue
        i += 1


def _param_copies(fn: ast.FunctionDef) -> None:
    """``x = p`` at the top of a function, p a parameter that is not used anywhere else: x *is* p under another name (renamed back)."""
    params = {a_.arg for a_ in fn.args.args + fn.args.kwonlyargs + fn.args.posonlyargs}
    for st in list(fn.body):
        if isinstance(st, (ast.For, ast.While, ast.If, ast.Try, ast.With)):
            break
        if not (isinstance(st, ast.Assign) and len(st.targets) == 1 and isinstance(st.targets[0], ast.Name) and isinstance(st.value, ast.Name)):
            continue
        x, p_ = st.targets[0].id, st.value.id
        if p_ not in params or x in params or x == p_:
            continue
        uses_p = [n for n in ast.walk(fn) if isinstance(n, ast.Name) and n.id == p_ and n is not st.value]
        if uses_p:
            continue
        # x must not be visible to nested scopes by its own name in a way renaming would break (nonlocal / global)
        if any(isinstance(n, (ast.Nonlocal, ast.Global)) and (x in n.names or p_ in n.names) for n in ast.walk(fn)):
            continue
        first = next((n for n in ast.walk(ast.Module(body=fn.body, type_ignores=[])) if isinstance(n, ast.Name) and n.id == x), None)
        if first is not st.targets[0]:
            continue
        # a copy that is re-bound later is a cursor, not another name of the parameter (the rules read `self` as the receiver throughout)
        if any(isinstance(n, ast.Name) and n.id == x and isinstance(n.ctx, (ast.Store, ast.Del)) and n is not st.targets[0] for n in ast.walk(fn)):
            continue
        fn.body.remove(st)
        for n in ast.walk(fn):
            if isinstance(n, ast.Name) and n.id == x:
                n.id = p_


LAZY_SOURCES = {"dfs", "bfs", "get_child_nodes", "get_child_nodes_with_field", "iter_child_fields", "get_properties", "ancestors", "get_ancestors", "gather", "findall"}


def _lazy_stream_locals(fn: ast.FunctionDef) -> None:
    """``s = (E for t in x.dfs())`` ... ``for v in s:`` (the only use of s): the generator expression moves into the loop header.  Nothing
    is evaluated when a generator expression over a generator method is created (the method call only creates a generator), so it does
    not matter what runs in between."""
    counts = _stores(fn)
    for blk in [fn.body] + [b for n in ast.walk(fn) for b in _blocks(n) if n is not fn]:
        for i, st in enumerate(list(blk)):
            if not (isinstance(st, ast.Assign) and len(st.targets) == 1 and isinstance(st.targets[0], ast.Name) and isinstance(st.value, ast.GeneratorExp)):
                continue
            nm = st.targets[0].id
            g0 = st.value.generators[0]
            if counts.get(nm) != 1 or not (isinstance(g0.iter, ast.Call) and isinstance(g0.iter.func, ast.Attribute) and g0.iter.func.attr in LAZY_SOURCES
                                          and dotted(g0.iter.func.value) is not None and all(is_pure_expr(a_) for a_ in g0.iter.args)):
                continue
            uses = [n for n in ast.walk(fn) if isinstance(n, ast.Name) and n.id == nm and isinstance(n.ctx, ast.Load)]
            loops = [lp for lp in blk[i + 1:] if isinstance(lp, ast.For) and lp.iter is (uses[0] if uses else None)]
            if len(uses) == 1 and len(loops) == 1:
                # the receiver must still name the same object when the loop starts
                recv = {x.id for x in ast.walk(g0.iter.func.value) if isinstance(x, ast.Name)}
                between = blk[i + 1:blk.index(loops[0])]
                if not any(isinstance(n, ast.Name) and isinstance(n.ctx, ast.Store) and n.id in recv for b_ in between for n in ast.walk(b_)):
                    loops[0].iter = st.value
                    blk.remove(st)


def _collect_loops(fn: ast.FunctionDef) -> None:
    """``X = {}`` / ``[]`` followed by a loop that does nothing but fill X (guards spelled as ``if C: continue`` or ``if C: <store>``) is the
    comprehension with the same elements in the same order.  The loop variables must not be read after the loop."""
    def negate(c: ast.expr) -> ast.expr:
        return _Canon().visit(ast.UnaryOp(op=ast.Not(), operand=c)) if not (isinstance(c, ast.UnaryOp) and isinstance(c.op, ast.Not)) else c.operand

    def body_shape(body: list[ast.stmt], x: str) -> tuple[list[ast.expr], ast.stmt] | None:
        conds: list[ast.expr] = []
        cur = list(body)
        while cur:
            st = cur[0]
            if isinstance(st, ast.If) and not st.orelse and len(st.body) == 1 and isinstance(st.body[0], ast.Continue) and len(cur) > 1:
                conds.append(negate(st.test))
                cur = cur[1:]
                continue
            if isinstance(st, ast.If) and not st.orelse and len(cur) == 1:
                conds.append(st.test)
                cur = list(st.body)
                continue
            break
        if len(cur) != 1:
            return None
        st = cur[0]
        if isinstance(st, ast.Assign) and len(st.targets) == 1 and isinstance(st.targets[0], ast.Subscript) and norm(st.targets[0].value) == x:
            return conds, st
        if isinstance(st, ast.Expr) and isinstance(st.value, ast.Call) and isinstance(st.value.func, ast.Attribute) and st.value.func.attr == "append" \
                and norm(st.value.func.value) == x and len(st.value.args) == 1 and not st.value.keywords:
            return conds, st
        return None

    def rewrite(block: list[ast.stmt]) -> None:
        i = 0
        while i < len(block):
            st = block[i]
            if i + 1 < len(block) and isinstance(st, ast.Assign) and len(st.targets) == 1 and isinstance(st.targets[0], ast.Name) \
                    and ((isinstance(st.value, ast.Dict) and not st.value.keys) or (isinstance(st.value, ast.List) and not st.value.elts)) \
                    and isinstance(block[i + 1], ast.For) and not block[i + 1].orelse:
                x = st.targets[0].id
                lp = block[i + 1]
                sh = body_shape(lp.body, x)
                tnames = {n.id for n in ast.walk(lp.target) if isinstance(n, ast.Name)}
                reads_x = any(isinstance(n, ast.Name) and n.id == x for e_ in [lp.iter] + (sh[0] if sh else []) for n in ast.walk(e_))
                later = any(isinstance(n, ast.Name) and n.id in tnames and isinstance(n.ctx, ast.Load) for b_ in block[i + 2:] for n in ast.walk(b_))
                if sh is not None and not reads_x and not later and not any(isinstance(n, (ast.Yield, ast.YieldFrom, ast.Await)) for n in ast.walk(lp)):
                    conds, store = sh
                    is_dict = isinstance(st.value, ast.Dict)
                    elems = [store.targets[0].slice, store.value] if isinstance(store, ast.Assign) else [store.value.args[0]]  # type: ignore[union-attr]
                    if (is_dict == isinstance(store, ast.Assign)) and not any(isinstance(n, ast.Name) and n.id == x for e_ in elems for n in ast.walk(e_)):
                        gen = ast.comprehension(target=lp.target, iter=lp.iter, ifs=conds, is_async=0)
                        comp: ast.expr = ast.DictComp(key=elems[0], value=elems[1], generators=[gen]) if is_dict else ast.ListComp(elt=elems[0], generators=[gen])
                        new = ast.copy_location(ast.Assign(targets=st.targets, value=comp), st)
                        ast.fix_missing_locations(new)
                        nxt2 = block[i + 2] if i + 2 < len(block) else None
                        if isinstance(nxt2, ast.Return) and isinstance(nxt2.value, ast.Name) and nxt2.value.id == x \
                                and not any(isinstance(n, ast.Name) and n.id == x for b_ in block[:i] + block[i + 3:] for n in ast.walk(b_)):
                            ret = ast.copy_location(ast.Return(value=comp), nxt2)
                            ast.fix_missing_locations(ret)
                            block[i:i + 3] = [ret]
                            i += 1
                            continue
                        block[i:i + 2] = [new]
                        i += 1
                        continue
            for sub in _blocks(st):
                rewrite(sub)
            i += 1

    rewrite(fn.body)


def _canon_body(fn: ast.FunctionDef) -> list[ast.stmt]:
    m = ast.Module(body=list(fn.body), type_ignores=[])
    m = _Canon().visit(m)
    _drop_pass(m.body)
    return m.body or [ast.copy_location(ast.Pass(), fn)]


def _drop_pass(block: list[ast.stmt]) -> None:
    """`pass` next to other statements is noise; a block that consists of it alone keeps one."""
    for st in block:
        for sub in _blocks(st):
            if sub is not None and not isinstance(st, (ast.FunctionDef, ast.AsyncFunctionDef, ast.ClassDef)):
                _drop_pass(sub)
    if len(block) > 1:
        keep = [st for st in block if not isinstance(st, ast.Pass)]
        block[:] = keep or block[:1]


def _iadd_to_extend(fn: ast.FunctionDef) -> None:
    """``W += E`` for a local that is also popped from (hence a list / deque, for which += is in-place concatenation) is ``W.extend(E)``."""
    popped = {n.func.value.id for n in ast.walk(fn) if isinstance(n, ast.Call) and isinstance(n.func, ast.Attribute) and n.func.attr in ("pop", "popleft")
              and isinstance(n.func.value, ast.Name)}
    if not popped:
        return

    class T(ast.NodeTransformer):
        def visit_AugAssign(self, n: ast.AugAssign) -> ast.AST:
            if isinstance(n.op, ast.Add) and isinstance(n.target, ast.Name) and n.target.id in popped:
                call = ast.Call(func=ast.Attribute(value=ast.Name(id=n.target.id, ctx=ast.Load()), attr="extend", ctx=ast.Load()), args=[n.value], keywords=[])
                return ast.fix_missing_locations(ast.copy_location(ast.Expr(value=call), n))
            return n
    fn.body = [T().visit(st) for st in fn.body]


def _helper_refs_to_lambdas(fn: ast.FunctionDef, inliner: "HelperInliner") -> None:
    """``key=_by_name`` / ``map(_f, xs)`` with ``_f`` a private module-level function of later origin whose body is one ``return E``:
    the reference becomes ``lambda <params>: E`` (what the call sites of the audited tree spell out)."""
    shadow = {n.id for n in ast.walk(fn) if isinstance(n, ast.Name) and isinstance(n.ctx, ast.Store)} | {a.arg for a in ast.walk(fn) if isinstance(a, ast.arg)}

    def lam(name: str) -> ast.Lambda | None:
        if name in shadow or not name.startswith("_") or not inliner.is_new(name):
            return None
        mf = inliner._module_func(name)
        if mf is None:
            # `_pick = attrgetter("node")` / `itemgetter(0)` at module level: the same thing as `lambda x: x.node` / `lambda x: x[0]`
            for st in inliner.tree.body:
                if isinstance(st, ast.Assign) and len(st.targets) == 1 and isinstance(st.targets[0], ast.Name) and st.targets[0].id == name and isinstance(st.value, ast.Call) \
                        and len(st.value.args) == 1 and not st.value.keywords and isinstance(st.value.args[0], ast.Constant):
                    fn_ = (dotted(st.value.func) or "").split(".")[-1]
                    k = st.value.args[0].value
                    args = ast.arguments(posonlyargs=[], args=[ast.arg(arg="_x")], vararg=None, kwonlyargs=[], kw_defaults=[], kwarg=None, defaults=[])
                    if fn_ == "attrgetter" and isinstance(k, str) and k.isidentifier():
                        return ast.Lambda(args=args, body=ast.Attribute(value=ast.Name(id="_x", ctx=ast.Load()), attr=k, ctx=ast.Load()))
                    if fn_ == "itemgetter" and isinstance(k, (int, str)):
                        return ast.Lambda(args=args, body=ast.Subscript(value=ast.Name(id="_x", ctx=ast.Load()), slice=ast.Constant(value=k), ctx=ast.Load()))
            return None
        d = mf[0]
        body = [st for st in d.body if not (isinstance(st, ast.Expr) and isinstance(st.value, ast.Constant) and isinstance(st.value.value, str))]
        if len(body) != 1 or not isinstance(body[0], ast.Return) or body[0].value is None or d.decorator_list:
            return None
        a = d.args
        if a.vararg or a.kwarg or a.kwonlyargs or a.defaults or a.posonlyargs:
            return None
        if any(isinstance(x, (ast.Yield, ast.YieldFrom, ast.Await, ast.NamedExpr)) for x in ast.walk(body[0].value)):
            return None
        args = ast.arguments(posonlyargs=[], args=[ast.arg(arg=x.arg) for x in a.args], vararg=None, kwonlyargs=[], kw_defaults=[], kwarg=None, defaults=[])
        return ast.Lambda(args=args, body=_StripCasts().visit(copy.deepcopy(body[0].value)))

    for c in ast.walk(fn):
        if not isinstance(c, ast.Call):
            continue
        for k in c.keywords:
            if k.arg in ("key", "filter", "prune", "default") and isinstance(k.value, ast.Name):
                l_ = lam(k.value.id)
                if l_ is not None:
                    k.value = ast.copy_location(l_, k.value)
        if dotted(c.func) in ("map", "filter", "sorted", "min", "max", "itertools.starmap", "starmap") and c.args and isinstance(c.args[0], ast.Name):
            l_ = lam(c.args[0].id)
            if l_ is not None:
                c.args[0] = ast.copy_location(l_, c.args[0])
    ast.fix_missing_locations(fn)


def normalize(fn: ast.FunctionDef, cls: ast.ClassDef | None, qual: str, inliner: HelperInliner | None, keep: set[str] | None = None, _depth: int = 0) -> ast.FunctionDef:
    new = copy.deepcopy(fn)
    new = _StripCasts().visit(new)
    if inliner is not None:
        _helper_refs_to_lambdas(new, inliner)
    _iadd_to_extend(new)
    _rotate_loops(new)
    if inliner is not None and inliner.new_consts:
        shadow = {n.id for n in ast.walk(new) if isinstance(n, ast.Name) and isinstance(n.ctx, ast.Store)} | {a.arg for a in ast.walk(new) if isinstance(a, ast.arg)}
        consts = {k: v for k, v in inliner.new_consts.items() if k not in shadow}
        if consts:
            new.body = [_Subst(consts).visit(st) for st in new.body]
    new.body = _canon_body(new)
    if inliner is not None:
        new = lower(new, tuples=True, ifexp=False)  # (leading walrus of an if / while: its call becomes a statement the inliner can expand)
        new = inliner.inline(new, cls, qual)
        # nested helpers of later origin that were inlined at every use are dropped
        for st in list(new.body):
            if isinstance(st, ast.FunctionDef) and inliner.is_new(f"{qual}.{st.name}") and f"{qual}.{st.name}" in inliner.inlined:
                used = any(isinstance(n, ast.Name) and n.id == st.name and isinstance(n.ctx, ast.Load) for x in new.body if x is not st for n in ast.walk(x))
                if not used:
                    new.body.remove(st)
    if inliner is not None and inliner.inlined:
        new = _StripCasts().visit(new)
        if inliner.new_consts:
            shadow = {n.id for n in ast.walk(new) if isinstance(n, ast.Name) and isinstance(n.ctx, ast.Store)} | {a.arg for a in ast.walk(new) if isinstance(a, ast.arg)}
            consts = {k: v for k, v in inliner.new_consts.items() if k not in shadow}
            if consts:
                new.body = [_Subst(consts).visit(st) for st in new.body]
        new.body = _canon_body(new)  # inlined helper bodies get the same canonical spellings
    new = lower(new, tuples=True, ifexp=False)
    _lazy_stream_locals(new)
    new = lower(new, tuples=True, ifexp=False)
    _param_copies(new)
    _search_loops(new)
    _collect_loops(new)
    _break_to_exit(new)
    new = inline_locals(new, keep)
    _inline_adjacent(new)
    _dead_copies(new)
    _collect_loops(new)  # (again: a loop body that was `t = E; X.append(t)` is a single store now)
    new = lower(new, tuples=True, ifexp=True)
    _while_true_break(new)
    _flatten_else(new)
    new.body = _Strings().visit(ast.Module(body=new.body, type_ignores=[])).body  # substituted text pieces fold into their f-strings
    if _depth < 2:
        # closures defined inside the function are functions too: the same normal forms apply to their bodies
        class Nested(ast.NodeTransformer):
            def visit_FunctionDef(self, node: ast.FunctionDef) -> ast.AST:
                try:
                    return normalize(node, cls, f"{qual}.{node.name}", None, None, _depth + 1)
                except RecursionError:
                    return node

            def visit_Lambda(self, node: ast.Lambda) -> ast.AST:
                return node

            def visit_ClassDef(self, node: ast.ClassDef) -> ast.AST:
                return node
        new.body = [Nested().visit(st) for st in new.body]
    ast.fix_missing_locations(new)
    return new
