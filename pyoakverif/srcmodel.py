"""Source model of /repo/src/pyoak: parsed modules, classes, functions.

Nothing in here imports pyoak. Everything is read with ``ast`` from the files
as they are on disk at the moment of the run.
"""
from __future__ import annotations

import ast
import hashlib
import os
from dataclasses import dataclass, field
from pathlib import Path
from typing import Iterator

REPO_ROOT = Path(os.environ.get("PYOAK_VERIF_REPO", "/repo"))
PKG_DIR = "src/pyoak"


class AnchorMissing(Exception):
    """An anchor (module, class, function) named by a rule does not exist."""

    def __init__(self, what: str) -> None:
        super().__init__(what)
        self.what = what


class Unsupported(Exception):
    """The code uses a shape outside the analyser's enumerated idioms."""

    def __init__(self, what: str, node: ast.AST | None = None) -> None:
        super().__init__(what)
        self.what = what
        self.node = node


@dataclass
class Mod:
    name: str  # dotted, e.g. pyoak.match.xpath
    path: Path
    rel: str  # path relative to repo root
    source: str
    tree: ast.Module
    digest: str

    def segment(self, node: ast.AST) -> str:
        return ast.get_source_segment(self.source, node) or ""


@dataclass
class Func:
    mod: Mod
    qualname: str
    node: ast.FunctionDef | ast.AsyncFunctionDef  # normalised body (helpers of later origin and pure locals inlined)
    cls: ast.ClassDef | None = None  # innermost enclosing class
    raw: ast.FunctionDef | ast.AsyncFunctionDef | None = None  # the function as written

    @property
    def where(self) -> str:
        return f"{self.mod.rel}:{self.node.lineno} {self.qualname}"

    @property
    def key(self) -> str:
        return f"{self.mod.name}:{self.qualname}"


@dataclass
class Cls:
    mod: Mod
    name: str
    node: ast.ClassDef
    bases: list[str] = field(default_factory=list)  # dotted names as written

    @property
    def where(self) -> str:
        return f"{self.mod.rel}:{self.node.lineno} class {self.name}"


def _dotted(node: ast.AST) -> str | None:
    if isinstance(node, ast.Name):
        return node.id
    if isinstance(node, ast.Attribute):
        b = _dotted(node.value)
        return None if b is None else f"{b}.{node.attr}"
    if isinstance(node, ast.Subscript):  # Generic[...] / ASTVisitor[X]
        return _dotted(node.value)
    return None


class Repo:
    def __init__(self, root: Path | None = None) -> None:
        self.root = Path(root) if root else REPO_ROOT
        self.pkg = self.root / PKG_DIR
        if not self.pkg.is_dir():
            raise AnchorMissing(f"package directory {self.pkg}")
        self.mods: dict[str, Mod] = {}
        self.consulted: set[str] = set()
        for p in sorted(self.pkg.rglob("*.py")):
            rel = p.relative_to(self.root).as_posix()
            parts = list(p.relative_to(self.root / "src").with_suffix("").parts)
            if parts[-1] == "__init__":
                parts = parts[:-1]
            name = ".".join(parts)
            src = p.read_text(encoding="utf-8")
            try:
                tree = ast.parse(src, filename=str(p))
            except SyntaxError as e:  # a syntax error anywhere is analysis-incomplete
                raise Unsupported(f"syntax error in {rel}: {e}")
            self.mods[name] = Mod(
                name, p, rel, src, tree, hashlib.sha256(src.encode()).hexdigest()[:16]
            )
        self._register_namedtuples()
        self._classes: dict[str, list[Cls]] | None = None
        self._norm_cache: dict[tuple[str, str], ast.FunctionDef] = {}
        self._inliners: dict[str, object] = {}
        self.normalize = not os.environ.get("PYOAK_VERIF_NO_NORMALIZE")
        self.new_helpers_inlined: set[str] = set()
        self.new_helpers_failed: set[str] = set()

    def _register_namedtuples(self) -> None:
        from . import normalize as N
        table: dict[str, list] = {}
        clash: set[str] = set()
        for m in self.mods.values():
            for st in ast.walk(m.tree):
                if isinstance(st, ast.ClassDef) and any(_dotted(b_) in ("NamedTuple", "typing.NamedTuple", "t.NamedTuple") for b_ in st.bases):
                    fields = [(x.target.id, x.value) for x in st.body if isinstance(x, ast.AnnAssign) and isinstance(x.target, ast.Name)]
                    if any(d is not None and not isinstance(d, ast.Constant) for _, d in fields):
                        continue
                    sig = [(f_, ast.dump(d) if d is not None else None) for f_, d in fields]
                    if st.name in table and [(f_, ast.dump(d) if d is not None else None) for f_, d in table[st.name]] != sig:
                        clash.add(st.name)
                    table[st.name] = fields
        N.NAMEDTUPLE_FIELDS.clear()
        N.NAMEDTUPLE_FIELDS.update({k: v for k, v in table.items() if k not in clash})

    def _normalised(self, m: Mod, qualname: str, node, cls):
        if not self.normalize:
            return node
        key = (m.name, qualname)
        if key not in self._norm_cache:
            from .normalize import HelperInliner, load_baseline, normalize
            if not hasattr(self, "_baseline"):
                self._baseline = load_baseline()
            inl = self._inliners.get(m.name)
            if inl is None:
                inl = HelperInliner(m.tree, m.name, self._baseline, {k: v.tree for k, v in self.mods.items() if k != m.name})
                self._inliners[m.name] = inl
            try:
                self._norm_cache[key] = normalize(node, cls, qualname, inl)
            except RecursionError:
                self._norm_cache[key] = node
            self.new_helpers_inlined |= {f"{m.name}:{q}" for q in inl.inlined}
            self.new_helpers_failed |= {f"{m.name}:{q}" for q in inl.failed}
        return self._norm_cache[key]

    def is_new_helper(self, m: Mod, qualname: str) -> bool:
        """A private function that does not exist on the pinned tree."""
        if not self.normalize:
            return False
        from .normalize import load_baseline
        if not hasattr(self, "_baseline"):
            self._baseline = load_baseline()
        known = self._baseline.get(m.name)
        last = qualname.split(".")[-1]
        return known is not None and qualname not in known and last.startswith("_") and not (last.startswith("__") and last.endswith("__"))

    # ------------------------------------------------------------------ modules
    def mod(self, name: str) -> Mod:
        m = self.mods.get(name)
        if m is None:
            raise AnchorMissing(f"module {name}")
        self.consulted.add(name)
        return m

    def nonlegacy(self) -> list[Mod]:
        out = [m for n, m in self.mods.items() if ".legacy" not in n]
        for m in out:
            self.consulted.add(m.name)
        return out

    def legacy(self) -> list[Mod]:
        out = [m for n, m in self.mods.items() if ".legacy" in n]
        for m in out:
            self.consulted.add(m.name)
        return out

    # ---------------------------------------------------------------- functions
    def func(self, modname: str, qualname: str) -> Func:
        m = self.mod(modname)
        parts = qualname.split(".")
        body: list[ast.stmt] = m.tree.body
        node: ast.AST | None = None
        cls: ast.ClassDef | None = None
        for i, part in enumerate(parts):
            found = None
            for st in _iter_defs(body):
                if isinstance(st, (ast.FunctionDef, ast.AsyncFunctionDef, ast.ClassDef)) and st.name == part:
                    found = st  # last definition wins, like at run time
            if found is None:
                raise AnchorMissing(f"{modname}:{qualname} (no definition named {part!r})")
            node = found
            if isinstance(found, ast.ClassDef):
                cls = found
            body = found.body
        if not isinstance(node, (ast.FunctionDef, ast.AsyncFunctionDef)):
            raise AnchorMissing(f"{modname}:{qualname} is not a function")
        return Func(m, qualname, self._normalised(m, qualname, node, cls), cls, node)

    def has_func(self, modname: str, qualname: str) -> bool:
        try:
            self.func(modname, qualname)
            return True
        except AnchorMissing:
            return False

    def cls(self, modname: str, name: str) -> Cls:
        m = self.mod(modname)
        found = None
        for st in _iter_defs(m.tree.body):
            if isinstance(st, ast.ClassDef) and st.name == name:
                found = st
        if found is None:
            raise AnchorMissing(f"class {modname}:{name}")
        return Cls(m, name, found, [b for b in (_dotted(x) for x in found.bases) if b])

    def functions(self, mods: list[Mod]) -> Iterator[Func]:
        """Every function/method (also nested ones) of the given modules."""

        def rec(m: Mod, body: list[ast.stmt], prefix: str, cls: ast.ClassDef | None) -> Iterator[Func]:
            for st in _iter_defs(body):
                if isinstance(st, (ast.FunctionDef, ast.AsyncFunctionDef)):
                    q = f"{prefix}{st.name}"
                    if self.is_new_helper(m, q) and f"{m.name}:{q}" not in self.new_helpers_failed:
                        # analysed inlined at its call sites (normalize.py); nested defs of a new helper likewise
                        continue
                    yield Func(m, q, self._normalised(m, q, st, cls), cls, st)
                    yield from rec(m, st.body, q + ".", cls)
                elif isinstance(st, ast.ClassDef):
                    yield from rec(m, st.body, f"{prefix}{st.name}.", st)

        for m in mods:
            yield from rec(m, m.tree.body, "", None)

    # ------------------------------------------------------------------ classes
    def classes(self) -> dict[str, list[Cls]]:
        if self._classes is None:
            out: dict[str, list[Cls]] = {}
            for m in self.mods.values():
                for st in ast.walk(m.tree):
                    if isinstance(st, ast.ClassDef):
                        c = Cls(m, st.name, st, [b for b in (_dotted(x) for x in st.bases) if b])
                        out.setdefault(st.name, []).append(c)
            self._classes = out
        return self._classes

    def import_aliases(self, m: Mod) -> dict[str, str]:
        """local name -> original name for ``from x import A as B`` (module level and nested)."""
        out: dict[str, str] = {}
        for st in ast.walk(m.tree):
            if isinstance(st, ast.ImportFrom):
                for a in st.names:
                    out[a.asname or a.name] = a.name
        return out

    def subclasses_of(self, base: str, mods: list[Mod]) -> list[Cls]:
        """Classes in ``mods`` that derive (transitively, by name inside the package) from ``base``."""
        allc = [c for cs in self.classes().values() for c in cs if c.mod in mods]
        known = {base}
        res: list[Cls] = []
        changed = True
        while changed:
            changed = False
            for c in allc:
                if c in res:
                    continue
                al = self.import_aliases(c.mod)
                for b in c.bases:
                    bn = b.split(".")[-1]
                    bn = al.get(bn, bn)
                    if bn in known:
                        res.append(c)
                        known.add(c.name)
                        changed = True
                        break
        return res

    def digests(self) -> dict[str, str]:
        return {n: self.mods[n].digest for n in sorted(self.consulted)}


def _iter_defs(body: list[ast.stmt]) -> Iterator[ast.stmt]:
    """Statements of a body, looking through if/try/with blocks (version guards etc.)."""
    for st in body:
        yield st
        if isinstance(st, ast.If):
            yield from _iter_defs(st.body)
            yield from _iter_defs(st.orelse)
        elif isinstance(st, ast.Try):
            yield from _iter_defs(st.body)
            for h in st.handlers:
                yield from _iter_defs(h.body)
            yield from _iter_defs(st.orelse)
            yield from _iter_defs(st.finalbody)
        elif isinstance(st, (ast.With,)):
            yield from _iter_defs(st.body)
