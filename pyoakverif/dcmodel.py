"""Dataclass field tables read from class bodies (own and inherited inside the package)."""
from __future__ import annotations

import ast
from dataclasses import dataclass

from .astutil import dotted, is_const, kw, norm
from .srcmodel import Cls, Repo


@dataclass
class DField:
    name: str
    init: bool
    compare: bool
    owner: str
    node: ast.AST


def own_fields(c: Cls) -> list[DField]:
    out = []
    for st in c.node.body:
        if isinstance(st, ast.AnnAssign) and isinstance(st.target, ast.Name):
            ann = norm(st.annotation)
            if "ClassVar" in ann:
                continue
            init = compare = True
            v = st.value
            if isinstance(v, ast.Call) and dotted(v.func) in ("field", "dataclasses.field"):
                i = kw(v, "init")
                if i is not None and is_const(i, False):
                    init = False
                cmpv = kw(v, "compare")
                if cmpv is not None and is_const(cmpv, False):
                    compare = False
            out.append(DField(st.target.id, init, compare, c.name, st))
    return out


def all_fields(repo: Repo, c: Cls, _depth: int = 0) -> dict[str, DField]:
    """Fields in MRO-ish order: bases first (left to right reversed like dataclasses), own fields override."""
    fields: dict[str, DField] = {}
    if _depth > 8:
        return fields
    aliases = repo.import_aliases(c.mod)
    for b in reversed(c.bases):
        bn = b.split(".")[-1]
        bn = aliases.get(bn, bn)
        cands = repo.classes().get(bn, [])
        cands = [x for x in cands if (".legacy" in x.mod.name) == (".legacy" in c.mod.name)] or cands
        if cands:
            for k, v in all_fields(repo, cands[0], _depth + 1).items():
                fields[k] = v
    for f in own_fields(c):
        fields[f.name] = f
    return fields


def caching_new(c: Cls) -> ast.FunctionDef | None:
    """__new__ that returns a cached instance (assigns a class attribute and returns it)."""
    for st in c.node.body:
        if isinstance(st, ast.FunctionDef) and st.name == "__new__":
            stores = [n for n in ast.walk(st) if isinstance(n, ast.Attribute) and isinstance(n.ctx, ast.Store) and norm(n.value) in ("cls", c.name)]
            if stores:
                return st
    return None


def fresh_object_local(fn: ast.FunctionDef) -> str | None:
    """The local that holds the object re-created on this path: bound exactly once, to ``super(...)._deserialize(...)``
    (role-based: the name itself does not matter)."""
    from .astutil import walk_body
    cands: dict[str, int] = {}
    stores: dict[str, int] = {}
    for n in walk_body(fn.body):
        if isinstance(n, ast.Name) and isinstance(n.ctx, ast.Store):
            stores[n.id] = stores.get(n.id, 0) + 1
        if isinstance(n, (ast.Assign, ast.AnnAssign)):
            tg = n.targets[0] if isinstance(n, ast.Assign) and len(n.targets) == 1 else getattr(n, "target", None)
            v = n.value
            while isinstance(v, ast.Call) and isinstance(v.func, (ast.Name, ast.Attribute)) and (
                    (isinstance(v.func, ast.Name) and v.func.id == "cast") or (isinstance(v.func, ast.Attribute) and v.func.attr == "cast")) and len(v.args) == 2:
                v = v.args[1]
            if isinstance(tg, ast.Name) and isinstance(v, ast.Call) and isinstance(v.func, ast.Attribute) and v.func.attr == "_deserialize" \
                    and isinstance(v.func.value, ast.Call) and isinstance(v.func.value.func, ast.Name) and v.func.value.func.id == "super":
                cands[tg.id] = cands.get(tg.id, 0) + 1
    one = [k for k, c in cands.items() if c == 1 and stores.get(k) == 1]
    return one[0] if len(one) == 1 else None


def positional_call(repo: Repo, e: ast.expr, modname: str) -> ast.expr:
    """Constructor calls of dataclasses of module ``modname`` spelled with keywords are rewritten to the positional spelling
    (init fields in declaration order); anything else is returned unchanged.  Applied recursively to the arguments."""
    import copy

    class T(ast.NodeTransformer):
        def visit_Call(self, node: ast.Call) -> ast.AST:
            self.generic_visit(node)
            name = dotted(node.func)
            if name is None or not node.keywords or any(k.arg is None for k in node.keywords) or any(isinstance(a, ast.Starred) for a in node.args):
                return node
            try:
                c = repo.cls(modname, name.split(".")[-1])
            except Exception:
                return node
            fields = [f.name for f in all_fields(repo, c).values() if f.init]
            slots: list[ast.expr | None] = [None] * len(fields)
            if len(node.args) > len(fields):
                return node
            for i, a in enumerate(node.args):
                slots[i] = a
            for k in node.keywords:
                if k.arg not in fields or slots[fields.index(k.arg)] is not None:
                    return node
                slots[fields.index(k.arg)] = k.value
            # trailing omitted fields (defaults) are fine; a hole in the middle is not expressible positionally
            while slots and slots[-1] is None:
                slots.pop()
            if any(x is None for x in slots):
                return node
            return ast.copy_location(ast.Call(func=node.func, args=list(slots), keywords=[]), node)  # type: ignore[arg-type]

    return ast.fix_missing_locations(T().visit(copy.deepcopy(e)))
