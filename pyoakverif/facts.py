"""Branch facts by dominance: which comparison facts hold at a program point on every path that reaches it.

FactSem is a flow.Semantics whose state is a frozenset of (canonical comparison key, polarity).  Facts are added by the
conditions of if / while (conjunctions contribute all their conjuncts when true, disjunctions all their disjuncts when
false, `not` flips) and killed when a name they mention is re-assigned.  ``at[id(node)]`` lists the states in which the
expression / statement node is evaluated.
"""
from __future__ import annotations

import ast

from .astutil import norm, walk_local
from .finite import canon_cmp
from .flow import Interp, Semantics


def atoms(test: ast.expr, pol: bool) -> list[tuple[str, bool]]:
    t = test
    while isinstance(t, ast.UnaryOp) and isinstance(t.op, ast.Not):
        t, pol = t.operand, not pol
    if isinstance(t, ast.BoolOp):
        if (isinstance(t.op, ast.And) and pol) or (isinstance(t.op, ast.Or) and not pol):
            out: list[tuple[str, bool]] = []
            for v in t.values:
                out += atoms(v, pol)
            return out
        return []
    if isinstance(t, ast.Compare):
        c = canon_cmp(t)
        return [(c[0], c[1] == pol)] if c is not None else []
    if isinstance(t, (ast.Name, ast.Attribute, ast.Call, ast.Subscript)):
        return [(norm(t), pol)]
    return []


def _mentions(key: str, names: set[str]) -> bool:
    import re
    toks = set(re.findall(r"[A-Za-z_][A-Za-z_0-9]*", key))
    return bool(toks & names)


class FactSem(Semantics):
    def __init__(self) -> None:
        self.at: dict[int, list[frozenset]] = {}

    def may_raise_expr(self, e):
        return False

    def may_raise_stmt(self, st):
        return False

    def _record(self, state, node: ast.AST) -> None:
        for n in walk_local(node):
            self.at.setdefault(id(n), []).append(state)

    def simple(self, state, st):
        self._record(state, st)
        names = {n.id for n in walk_local(st) if isinstance(n, ast.Name) and isinstance(n.ctx, ast.Store)}
        if names:
            state = frozenset((k, p) for k, p in state if not _mentions(k, names))
        return (state,)

    def on_return(self, state, st):
        self._record(state, st)
        return (state,)

    def on_raise(self, state, st):
        self._record(state, st)
        return (state,)

    def bind_loop(self, state, st):
        names = {n.id for n in ast.walk(st.target) if isinstance(n, ast.Name)}
        return (frozenset((k, p) for k, p in state if not _mentions(k, names)),)

    def cond(self, state, test):
        # the sub-expressions of a condition are evaluated left to right: later conjuncts see the earlier ones as facts
        self._record_test(state, test)
        return (frozenset(set(state) | set(atoms(test, True))),), (frozenset(set(state) | set(atoms(test, False))),)

    def _record_test(self, state, t: ast.expr) -> None:
        if isinstance(t, ast.BoolOp):
            cur = state
            for v in t.values:
                self._record_test(cur, v)
                cur = frozenset(set(cur) | set(atoms(v, isinstance(t.op, ast.And))))
            self.at.setdefault(id(t), []).append(state)
            return
        if isinstance(t, ast.UnaryOp) and isinstance(t.op, ast.Not):
            self._record_test(state, t.operand)
            self.at.setdefault(id(t), []).append(state)
            return
        self._record(state, t)


def facts_in(fn: ast.FunctionDef) -> FactSem:
    sem = FactSem()
    Interp(sem, max_rounds=8).block(fn.body, {frozenset()})
    return sem
