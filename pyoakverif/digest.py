"""Contribution list of a string accumulator that flows into a digest (component C).

The statements of a function are walked in program order; string-valued locals
are tracked symbolically as ordered segment lists: literals, dynamic parts
(expression + conversion + format spec) and loops (iteration source, targets,
per-iteration segments).  At every ``hashlib.<algo>(X.encode(...))`` call the
current value of ``X`` is snapshotted together with the attribute the digest is
stored to.
"""
from __future__ import annotations

import ast
import copy
from dataclasses import dataclass, field
from typing import Any

from .astutil import dotted, norm, walk_body, walk_local
from .srcmodel import Func, Unsupported


@dataclass
class Lit:
    text: str


@dataclass
class Dyn:
    expr: ast.expr
    conv: str = ""  # "", "s", "r", "a"
    spec: str | None = None
    node: ast.AST | None = None

    @property
    def src(self) -> str:
        return norm(self.expr)


@dataclass
class Loop:
    iter: ast.expr
    targets: ast.expr
    body: list  # segments
    node: ast.AST | None = None
    filters: tuple = ()  # tests under which an element of the loop is skipped (continue / break before its contribution)


Seg = Any


class _Subst(ast.NodeTransformer):
    def __init__(self, m: dict[str, ast.expr]) -> None:
        self.m = m

    def visit_Name(self, node: ast.Name) -> ast.AST:
        if isinstance(node.ctx, ast.Load) and node.id in self.m:
            return copy.deepcopy(self.m[node.id])
        return node


def subst(e: ast.expr, m: dict[str, ast.expr]) -> ast.expr:
    if not m:
        return e
    return ast.fix_missing_locations(_Subst(m).visit(copy.deepcopy(e)))


class Env(dict):  # type: ignore[type-arg]
    """name -> text pieces; ``lists`` names the entries that are lists of pieces (only meaningful under "".join)."""

    def __init__(self, *a: Any, **k: Any) -> None:
        super().__init__(*a, **k)
        self.lists: set[str] = set()


def _without(env: "Env", names: Any) -> "Env":
    e2 = Env({k: v for k, v in env.items() if k not in names})
    e2.lists = set(env.lists)
    return e2


def _is_list(env: dict, name: str) -> bool:
    return name in getattr(env, "lists", ())


def is_strish(e: ast.expr, env: dict[str, list]) -> bool:
    if isinstance(e, ast.Constant) and isinstance(e.value, str):
        return True
    if isinstance(e, ast.Call) and isinstance(e.func, ast.Attribute) and e.func.attr == "join" and isinstance(e.func.value, ast.Constant) and e.func.value.value in ("", b""):
        return True
    if isinstance(e, ast.JoinedStr):
        return True
    if isinstance(e, ast.Name) and e.id in env and not _is_list(env, e.id):
        return True
    if isinstance(e, ast.Attribute) and norm(e) in env:
        return True  # a field of a record (NamedTuple) built from text pieces
    if isinstance(e, ast.BinOp) and isinstance(e.op, ast.Add):
        return is_strish(e.left, env) or is_strish(e.right, env)
    return False


def _fold_const(e: ast.expr) -> ast.Constant | None:
    """Constant, or an and/or of constants (``0 or '0'``) folded to the constant Python would produce."""
    if isinstance(e, ast.Constant):
        return e
    if isinstance(e, ast.BoolOp):
        vals = [_fold_const(x) for x in e.values]
        if any(v is None for v in vals):
            return None
        cur = vals[0]
        for v in vals[1:]:
            take_next = bool(cur.value) if isinstance(e.op, ast.And) else not bool(cur.value)  # type: ignore[union-attr]
            if take_next:
                cur = v
            else:
                break
        return cur
    return None


def coalesce(segs: list) -> list:
    """Adjacent literal pieces are one literal (how the text was split over f-strings / concatenations is immaterial)."""
    out: list = []
    for s in segs:
        if isinstance(s, Lit) and out and isinstance(out[-1], Lit):
            out[-1] = Lit(out[-1].text + s.text)
        elif isinstance(s, Lit) and not s.text:
            continue
        else:
            out.append(s)
    return out


def eval_str(e: ast.expr, env: dict[str, list], alias: dict[str, ast.expr]) -> list:
    return coalesce(_eval_str(e, env, alias))


def _eval_str(e: ast.expr, env: dict[str, list], alias: dict[str, ast.expr]) -> list:
    if isinstance(e, ast.Constant) and isinstance(e.value, str):
        return [Lit(e.value)] if e.value else []
    if isinstance(e, ast.Name) and e.id in env and not _is_list(env, e.id):
        return list(env[e.id])
    if isinstance(e, ast.Attribute) and norm(e) in env:
        return list(env[norm(e)])
    if isinstance(e, ast.JoinedStr):
        out: list = []
        for v in e.values:
            if isinstance(v, ast.Constant):
                out.append(Lit(str(v.value)))
            elif isinstance(v, ast.FormattedValue):
                conv = {-1: "", 115: "s", 114: "r", 97: "a"}[v.conversion]
                spec = None
                if v.format_spec is not None:
                    spec = norm(v.format_spec)
                folded = _fold_const(v.value)
                if folded is not None and conv in ("", "s") and spec is None and isinstance(folded.value, (str, int)) and not isinstance(folded.value, bool):
                    out.append(Lit(str(folded.value)))  # a constant formatted into the text is that text
                elif isinstance(v.value, ast.Name) and v.value.id in env and not _is_list(env, v.value.id) and not conv and spec is None:
                    out.extend(env[v.value.id])
                elif isinstance(v.value, ast.Attribute) and norm(v.value) in env and not conv and spec is None:
                    out.extend(env[norm(v.value)])
                elif not conv and spec is None and isinstance(v.value, ast.Call) and is_strish(v.value, env):
                    out.extend(eval_str(v.value, env, alias))  # "".join(...) formatted into the text
                elif not conv and spec is None and (isinstance(v.value, ast.JoinedStr) or (
                        isinstance(v.value, ast.BinOp) and isinstance(v.value.op, ast.Add) and is_strish(v.value, env))):
                    out.extend(eval_str(v.value, env, alias))  # nested f-string / concatenation (an inlined intermediate)
                else:
                    out.append(Dyn(subst(v.value, alias), conv, spec, v))
        return out
    if isinstance(e, ast.BinOp) and isinstance(e.op, ast.Add):
        return eval_str(e.left, env, alias) + eval_str(e.right, env, alias)
    if isinstance(e, ast.Call) and isinstance(e.func, ast.Attribute) and e.func.attr == "join" and isinstance(e.func.value, ast.Constant) \
            and e.func.value.value in ("", b"") and len(e.args) == 1 and not e.keywords:
        a = e.args[0]
        if isinstance(a, (ast.GeneratorExp, ast.ListComp)) and len(a.generators) == 1 and not a.generators[0].ifs:
            g = a.generators[0]
            inner_env = env
            return [Loop(subst(g.iter, alias), g.target, eval_str(a.elt, inner_env, alias), e)]
        if isinstance(a, ast.Name) and a.id in env:
            return list(env[a.id])  # a list of pieces collected with append(): the same text as += on a string
        if isinstance(a, (ast.List, ast.Tuple)):
            out2: list = []
            for x in a.elts:
                out2 += eval_str(x, env, alias)
            return out2
    if isinstance(e, ast.Call) and dotted(e.func) == "str" and len(e.args) == 1:
        return [Dyn(subst(e.args[0], alias), "s", None, e)]
    if isinstance(e, ast.Call) and dotted(e.func) == "repr" and len(e.args) == 1:
        return [Dyn(subst(e.args[0], alias), "r", None, e)]
    return [Dyn(subst(e, alias), "", None, e)]


def _nt_fields() -> dict:
    from .normalize import NAMEDTUPLE_FIELDS
    return NAMEDTUPLE_FIELDS


@dataclass
class Sink:
    attr: str  # attribute the digest is stored to (content_id / id / ...)
    segs: list
    call: ast.Call  # the hashlib call
    algo: str
    node: ast.stmt


def contributions(func: Func) -> list[Sink]:
    fn = func.node
    env: Env = Env()
    alias: dict[str, ast.expr] = {}
    pending: dict[str, tuple[list, ast.Call, str, ast.stmt]] = {}  # local var holding a digest -> snapshot
    sinks: list[Sink] = []
    lists = env.lists

    def find_hash_call(st: ast.stmt) -> ast.Call | None:
        for n in walk_local(st):
            if isinstance(n, ast.Call) and (dotted(n.func) or "").startswith("hashlib."):
                return n
        return None

    def snapshot(call: ast.Call, st: ast.stmt) -> list:
        if not call.args:
            raise Unsupported("hashlib call without data argument (incremental hashing)", call)
        a = call.args[0]
        if isinstance(a, ast.Call) and isinstance(a.func, ast.Attribute) and a.func.attr == "encode":
            src = a.func.value
        else:
            src = a
        if isinstance(src, ast.Name) and src.id in env and not _is_list(env, src.id):
            return list(env[src.id])
        return eval_str(strip_encode(src), env, alias)

    def setattr_target(st: ast.stmt) -> tuple[str, ast.expr] | None:
        for n in walk_local(st):
            if isinstance(n, ast.Call) and dotted(n.func) in ("object.__setattr__", "setattr") and len(n.args) == 3 \
                    and isinstance(n.args[1], ast.Constant) and norm(n.args[0]) == "self":
                return n.args[1].value, n.args[2]
        return None

    hashers: dict[str, ast.Call] = {}
    # locals that are joined into one text somewhere in the function
    joined = {c.args[0].id for c in walk_local(fn) if isinstance(c, ast.Call) and isinstance(c.func, ast.Attribute) and c.func.attr == "join"
              and isinstance(c.func.value, ast.Constant) and c.func.value.value in ("", b"") and len(c.args) == 1 and isinstance(c.args[0], ast.Name)}

    def strip_encode(a: ast.expr) -> ast.expr:
        if isinstance(a, ast.Call) and isinstance(a.func, ast.Attribute) and a.func.attr == "encode":
            return a.func.value
        if isinstance(a, ast.BinOp) and isinstance(a.op, ast.Add):  # bytes concatenation of encoded pieces
            return ast.copy_location(ast.BinOp(left=strip_encode(a.left), op=ast.Add(), right=strip_encode(a.right)), a)
        if isinstance(a, ast.Constant) and isinstance(a.value, bytes):
            try:
                return ast.copy_location(ast.Constant(value=a.value.decode("utf-8")), a)
            except UnicodeDecodeError:
                return a
        if isinstance(a, ast.Name) and a.id in alias and strip_encode(alias[a.id]) is not alias[a.id]:
            return strip_encode(alias[a.id])
        return a

    def walk(stmts: list[ast.stmt], top: bool) -> None:
        for st in stmts:
            if isinstance(st, ast.If) and any(isinstance(n, ast.Call) and (dotted(n.func) or "").startswith("hashlib.") for n in walk_local(st)):
                # a digest computed under a condition (legacy: only when no id was supplied): analyse the branch as a region of its own
                walk(st.body, False)
                continue
            hc = find_hash_call(st)
            # incremental hashing: h = hashlib.sha256()
            if hc is not None and not hc.args and isinstance(st, ast.Assign) and isinstance(st.targets[0], ast.Name) and st.value is hc:
                hashers[st.targets[0].id] = hc
                env[st.targets[0].id] = []
                continue
            if isinstance(st, ast.Expr) and isinstance(st.value, ast.Call) and isinstance(st.value.func, ast.Attribute) \
                    and st.value.func.attr == "update" and isinstance(st.value.func.value, ast.Name) and st.value.func.value.id in hashers \
                    and len(st.value.args) == 1:
                h = st.value.func.value.id
                env[h] = env[h] + eval_str(strip_encode(st.value.args[0]), _without(env, hashers), alias)
                continue
            sa0 = setattr_target(st)
            if sa0 is not None and isinstance(sa0[1], ast.Call) and isinstance(sa0[1].func, ast.Attribute) and sa0[1].func.attr == "hexdigest" \
                    and isinstance(sa0[1].func.value, ast.Name) and sa0[1].func.value.id in hashers:
                h = sa0[1].func.value.id
                sinks.append(Sink(sa0[0], list(env[h]), hashers[h], dotted(hashers[h].func) or "?", st))
                continue
            if isinstance(st, (ast.Assign, ast.AnnAssign)) and isinstance(getattr(st, "value", None), ast.Call) \
                    and isinstance(st.value.func, ast.Attribute) and st.value.func.attr == "hexdigest" \
                    and isinstance(st.value.func.value, ast.Name) and st.value.func.value.id in hashers:
                tg = st.targets[0] if isinstance(st, ast.Assign) else st.target
                if isinstance(tg, ast.Name):
                    h = st.value.func.value.id
                    pending[tg.id] = (list(env[h]), hashers[h], dotted(hashers[h].func) or "?", st)
                    continue
            if hc is not None:
                segs = snapshot(hc, st)
                sa = setattr_target(st)
                algo = dotted(hc.func) or "?"
                if sa is not None:
                    sinks.append(Sink(sa[0], segs, hc, algo, st))
                elif isinstance(st, (ast.Assign, ast.AnnAssign)):
                    tg = st.targets[0] if isinstance(st, ast.Assign) else st.target
                    if isinstance(tg, ast.Name):
                        pending[tg.id] = (segs, hc, algo, st)
                    else:
                        raise Unsupported("digest assigned to a non-local", st)
                else:
                    raise Unsupported("digest result is neither stored nor bound", st)
                continue
            sa = setattr_target(st)
            if sa is not None and isinstance(sa[1], ast.Name) and sa[1].id in pending:
                segs, hc2, algo, st0 = pending[sa[1].id]
                sinks.append(Sink(sa[0], segs, hc2, algo, st0))
                continue
            if sa is not None and isinstance(sa[1], ast.Call) and isinstance(sa[1].func, ast.Attribute) and sa[1].func.attr == "hexdigest" \
                    and isinstance(sa[1].func.value, ast.Name) and sa[1].func.value.id in pending:
                segs, hc2, algo, st0 = pending[sa[1].func.value.id]  # h = hashlib.x(data) ... setattr(self, attr, h.hexdigest())
                sinks.append(Sink(sa[0], segs, hc2, algo, st0))
                continue
            if isinstance(st, ast.Assign) and len(st.targets) == 1 and isinstance(st.targets[0], ast.Name) and isinstance(st.value, ast.List) \
                    and (not st.value.elts or st.targets[0].id in joined) and not any(isinstance(x, ast.Starred) for x in st.value.elts):
                pieces: list = []  # a list of text pieces (joined later), possibly with first pieces given in the literal
                for x in st.value.elts:
                    pieces += eval_str(strip_encode(x), env, alias)
                env[st.targets[0].id] = pieces
                lists.add(st.targets[0].id)
                continue
            if isinstance(st, ast.Assign) and len(st.targets) == 1 and isinstance(st.targets[0], ast.Name) and isinstance(st.value, ast.Call) \
                    and (dotted(st.value.func) or "") in _nt_fields():
                # a record (NamedTuple of the package) holding text pieces: its fields are tracked like locals
                fields = [f_ for f_, _ in _nt_fields()[dotted(st.value.func) or ""]]
                bound = dict(zip(fields, st.value.args))
                bound.update({k.arg: k.value for k in st.value.keywords if k.arg})
                for f_, x in bound.items():
                    if is_strish(x, env):
                        env[f"{st.targets[0].id}.{f_}"] = eval_str(x, env, alias)
                continue
            if isinstance(st, ast.Expr) and isinstance(st.value, ast.Call) and isinstance(st.value.func, ast.Attribute) and st.value.func.attr == "append" \
                    and isinstance(st.value.func.value, ast.Name) and st.value.func.value.id in lists and len(st.value.args) == 1:
                nm = st.value.func.value.id
                env[nm] = env[nm] + eval_str(strip_encode(st.value.args[0]), env, alias)
                continue
            if isinstance(st, ast.Assign) and len(st.targets) == 1 and isinstance(st.targets[0], ast.Name):
                name = st.targets[0].id
                if is_strish(st.value, env):
                    env[name] = eval_str(st.value, env, alias)
                    alias.pop(name, None)
                elif name in pending:
                    pass  # e.g. new_id = _get_next_unique_id(new_id): still the same digest, made unique
                else:
                    env.pop(name, None)
                    alias[name] = subst(st.value, alias)
                continue
            if isinstance(st, ast.AnnAssign) and isinstance(st.target, ast.Name) and st.value is not None:
                if is_strish(st.value, env):
                    env[st.target.id] = eval_str(st.value, env, alias)
                else:
                    alias[st.target.id] = subst(st.value, alias)
                continue
            if isinstance(st, ast.AugAssign) and isinstance(st.target, ast.Name) and st.target.id in env:
                if not isinstance(st.op, ast.Add):
                    raise Unsupported("non-additive update of a digest accumulator", st)
                env[st.target.id] = env[st.target.id] + eval_str(st.value, env, alias)
                continue
            if isinstance(st, ast.For):
                touched = {n.target.id for n in walk_body(st.body) if isinstance(n, ast.AugAssign) and isinstance(n.target, ast.Name) and n.target.id in env}
                touched |= {n.func.value.id for n in walk_body(st.body) if isinstance(n, ast.Call) and isinstance(n.func, ast.Attribute) and n.func.attr == "update"
                            and isinstance(n.func.value, ast.Name) and n.func.value.id in hashers}
                touched |= {t.id for n in walk_body(st.body) if isinstance(n, ast.Assign) for t in n.targets if isinstance(t, ast.Name) and t.id in env}
                touched |= {n.func.value.id for n in walk_body(st.body) if isinstance(n, ast.Call) and isinstance(n.func, ast.Attribute) and n.func.attr == "append"
                            and isinstance(n.func.value, ast.Name) and n.func.value.id in lists}
                if not touched:
                    continue
                saved = {k: env[k] for k in touched}
                for k in touched:
                    env[k] = []
                saved_alias = dict(alias)
                walk(st.body, False)
                # an element is skipped (or the loop left) under a condition: what follows in the body is contributed conditionally
                filt = tuple(norm(x.test)[:80] for x in st.body if isinstance(x, ast.If)
                             and any(isinstance(y, (ast.Continue, ast.Break)) for y in walk_local(x))
                             and not any(isinstance(y, ast.AugAssign) or (isinstance(y, ast.Call) and isinstance(y.func, ast.Attribute) and y.func.attr in ("update", "append"))
                                         for y in walk_local(x)))
                for k in touched:
                    body = env[k]
                    env[k] = saved[k] + [Loop(subst(st.iter, saved_alias), st.target, body, st, filt)]
                alias.clear()
                alias.update(saved_alias)
                continue
            if isinstance(st, (ast.If, ast.While, ast.Try, ast.With)):
                names = {n.id for n in walk_local(st) if isinstance(n, ast.Name) and isinstance(n.ctx, ast.Store)}
                if names & set(env):
                    raise Unsupported("digest accumulator modified under a condition", st)
                # pending digests may be post-processed (uniqueness suffix) or renamed: a local that is bound, on every branch, to a
                # pending digest or to a call that receives one, carries that digest
                for nm in sorted(names):
                    vals = [n.value for n in walk_local(st) if isinstance(n, ast.Assign) and len(n.targets) == 1 and isinstance(n.targets[0], ast.Name) and n.targets[0].id == nm]
                    srcs = set()
                    for v in vals:
                        if isinstance(v, ast.Name) and v.id in pending:
                            srcs.add(v.id)
                        elif isinstance(v, ast.Call) and len(v.args) == 1 and isinstance(v.args[0], ast.Name) and v.args[0].id in pending and not v.keywords:
                            srcs.add(v.args[0].id)
                        else:
                            srcs.add(None)
                    if len(srcs) == 1 and None not in srcs and nm not in pending:
                        pending[nm] = pending[next(iter(srcs))]
                continue

    walk(fn.body, True)
    return sinks


# ----------------------------------------------------------------------------- queries over a contribution list
def flatten(segs: list, loop: Loop | None = None) -> list[tuple[Seg, Loop | None]]:
    out = []
    for s in segs:
        if isinstance(s, Loop):
            if loop is not None:
                raise Unsupported("nested loops in digest input")
            out.append((s, None))
            out.extend(flatten(s.body, s))
        else:
            out.append((s, loop))
    return out


def describe(segs: list) -> list[Any]:
    out: list[Any] = []
    for s in segs:
        if isinstance(s, Lit):
            out.append(s.text)
        elif isinstance(s, Dyn):
            out.append("{" + s.src + ("!" + s.conv if s.conv else "") + (":" + s.spec if s.spec else "") + "}")
        elif isinstance(s, Loop):
            out.append({"for": norm(s.targets), "in": norm(s.iter), "each": describe(s.body)})
    return out
