"""C19 — A rejected legacy operation changes nothing (effect / compensation analysis, R-LEG-ROLLBACK).

Effect primitives on *pre-existing* nodes (DESIGN.md Appendix B):
  P_CLR(x)  x._clear_parent()            P_SET(x)  x._set_parent(...)
  R_POP(x)  AwareASTNode._nodes.pop(x.id) R_SET(x)  AwareASTNode._nodes[x.id] = x
  A_SET(x.a) object.__setattr__(x, "a", v) REPLACED(x) a completed x.replace_with(...)
Helper calls are expanded through summaries that are re-confirmed against the helper bodies on every run.
The flow interpreter carries the set of outstanding effects (and the branch facts needed to correlate a guarded
effect with its equally guarded compensation) to every failure exit; an effect that reaches a failure exit
without having met its inverse is a violation.
"""
from __future__ import annotations

import ast
from typing import Any

from ..astutil import dotted, is_const, is_none, norm, walk_body, walk_local
from ..finite import k_eq, k_is, k_none, canon_cmp
from ..flow import Interp, Semantics
from ..report import Checker
from ..srcmodel import Func, Unsupported

LNODE = "pyoak.legacy.node"
CLS = "AwareASTNode"
REG = "AwareASTNode._nodes"

# helper -> primitive kinds its body must contain (re-confirmed on every run)
SUMMARY_CONFIRM = {
    "_clear_parent": {"A_SET:_parent_id", "A_SET:_parent_field", "A_SET:_parent_index", "A_SET:_xpath"},
    "_set_parent": {"A_SET:_parent_id", "A_SET:_parent_field", "A_SET:_parent_index"},
    "detach": {"P_CLR", "R_POP", "CALL:detach"},
    "detach_self": {"CALL:detach"},
    "_attach": {"CALL:_attach_inner"},
    "_attach_inner": {"P_SET", "R_SET", "CALL:_attach_inner"},
}
RAISING_CALLS = ("_attach", "_attach_inner", "replace", "dataclasses.replace", "replace_with", "visit", "transform", "duplicate", "attach")


def primitives_of(fn: ast.FunctionDef) -> set[str]:
    out: set[str] = set()
    for n in walk_body(fn.body):
        if isinstance(n, ast.Call):
            name = dotted(n.func) or ""
            if name.endswith("._clear_parent"):
                out.add("P_CLR")
            elif name.endswith("._set_parent"):
                out.add("P_SET")
            elif name == f"{REG}.pop":
                out.add("R_POP")
            elif name == "object.__setattr__" and len(n.args) == 3 and isinstance(n.args[1], ast.Constant):
                out.add(f"A_SET:{n.args[1].value}")
            elif isinstance(n.func, ast.Attribute) and n.func.attr in ("detach", "_attach_inner", "_attach", "detach_self"):
                out.add(f"CALL:{n.func.attr}")
        if isinstance(n, ast.Subscript) and isinstance(n.ctx, ast.Store) and norm(n.value) == REG:
            out.add("R_SET")
    return out


class RollbackSem(Semantics):
    """State = (frozenset of outstanding effect tokens, frozenset of (fact key, bool))."""

    assert_may_fail = False  # `assert` states a belief of the author; AssertionError is not a documented rejection

    def __init__(self, f: Func, roles: dict[str, str], under_construction: set[str]) -> None:
        self.f = f
        self.roles = roles
        self.uc = under_construction
        self.failure_returns: list[tuple[ast.Return, Any]] = []
        self.loop_roles: dict[str, str] = {}
        self.pending: dict[str, str | None] = {}  # local holding the result of R._attach_inner(...) -> role R
        # compensation code inside handlers is assumed not to fail itself (stated assumption)
        self.in_handler = {id(n) for h in ast.walk(f.node) if isinstance(h, ast.ExceptHandler) for st in h.body for n in ast.walk(st)}

    # ---------------------------------------------------------------- helpers
    def role(self, e: ast.expr) -> str | None:
        t = norm(e)
        if t in self.roles:
            return self.roles[t]
        if t in self.loop_roles:
            return self.loop_roles[t]
        return None

    def _calls(self, st: ast.AST) -> list[ast.Call]:
        return sorted([n for n in walk_local(st) if isinstance(n, ast.Call)], key=lambda c: (c.lineno, c.col_offset))

    def may_raise_expr(self, e):
        if e is None:
            return False
        for n in walk_local(e):
            if isinstance(n, ast.Call) and id(n) not in self.in_handler:
                name = dotted(n.func) or ""
                last = name.split(".")[-1]
                if last in RAISING_CALLS or name in ("replace",):
                    return True
                if isinstance(n.func, ast.Attribute) and isinstance(n.func.value, ast.Call) and dotted(n.func.value.func) == "super":
                    return True
        return False

    def may_raise_stmt(self, st):
        return any(self.may_raise_expr(x) for x in ast.iter_child_nodes(st) if isinstance(x, ast.expr)) or \
            (isinstance(st, (ast.Assign, ast.Expr, ast.AugAssign, ast.AnnAssign)) and self.may_raise_expr(st.value))

    # ---------------------------------------------------------------- effects
    def effects(self, toks: set, st: ast.stmt, completed: bool) -> set:
        """Apply the effects of a simple statement.  ``completed`` False: the statement raised inside its raising call
        (effects of that call are the callee's own business; effects before it in the same statement do not occur here)."""
        toks = set(toks)
        for c in self._calls(st):
            name = dotted(c.func) or ""
            last = name.split(".")[-1]
            recv = c.func.value if isinstance(c.func, ast.Attribute) else None
            r = self.role(recv) if recv is not None else None
            if last == "_clear_parent" and r and r not in self.uc:
                toks.add(("P_CLR", r))
            elif last == "_set_parent" and r and r not in self.uc:
                if ("P_CLR", r) in toks:
                    toks.discard(("P_CLR", r))
                else:
                    toks.add(("P_SET", r))
            elif name == f"{REG}.pop" and c.args:
                k = c.args[0]
                rr = self.role(k.value) if isinstance(k, ast.Attribute) and k.attr == "id" else None
                if rr and rr not in self.uc:
                    toks.add(("R_POP", rr))
            elif name == "object.__setattr__" and len(c.args) == 3 and isinstance(c.args[1], ast.Constant):
                rr = self.role(c.args[0])
                if rr and rr not in self.uc:
                    tok = ("A_SET", f"{rr}.{c.args[1].value}")
                    if tok in toks and isinstance(c.args[2], ast.Name) and c.args[2].id.startswith(("old_", "saved_", "orig_", "prev_")):
                        toks.discard(tok)  # restored from a remembered value
                    else:
                        toks.add(tok)
            elif last == "detach_self" and r and r not in self.uc and completed:
                toks |= {("P_CLR", f"kids({r})"), ("R_POP", r)}
            elif last == "detach" and r and r not in self.uc and completed:
                toks |= {("P_CLR", f"desc({r})"), ("R_POP", r), ("R_POP", f"desc({r})")}
            elif last == "_attach_inner" and r and completed and self._result_tested(st, c):
                # the registration happened only if the result is None: decided where the result is tested (cond)
                pass
            elif last in ("_attach", "_attach_inner") and r and completed:
                inv = {("R_POP", r), ("R_POP", f"desc({r})"), ("P_CLR", f"desc({r})"), ("P_CLR", f"kids({r})")}
                if toks & inv:
                    toks -= inv
                elif r not in self.uc:
                    toks.add(("ATTACHED", r))
            elif last == "replace_with" and r and completed:
                toks.add(("REPLACED", r))
        # registry store
        if isinstance(st, ast.Assign) and isinstance(st.targets[0], ast.Subscript) and norm(st.targets[0].value) == REG:
            k = st.targets[0].slice
            rr = self.role(k.value) if isinstance(k, ast.Attribute) and k.attr == "id" else None
            if rr and rr not in self.uc:
                if ("R_POP", rr) in toks:
                    toks.discard(("R_POP", rr))
                else:
                    toks.add(("R_SET", rr))
        return toks

    def _result_tested(self, st: ast.stmt, c: ast.Call) -> bool:
        """``x = R._attach_inner(...)``: remember which role x reports on; the effect is applied where x is compared with None."""
        if isinstance(st, (ast.Assign, ast.AnnAssign)) and st.value is c:
            tg = st.targets[0] if isinstance(st, ast.Assign) else st.target
            if isinstance(tg, ast.Name):
                self.pending[tg.id] = self.role(c.func.value)  # type: ignore[attr-defined]
                return True
        return False

    def _attached(self, toks: set, r: str) -> set:
        inv = {("R_POP", r), ("R_POP", f"desc({r})"), ("P_CLR", f"desc({r})"), ("P_CLR", f"kids({r})")}
        toks = set(toks)
        if toks & inv:
            toks -= inv
        elif r not in self.uc:
            toks.add(("ATTACHED", r))
        return toks

    def _facts_assign(self, facts: set, st: ast.stmt) -> set:
        names = {n.id for n in walk_local(st) if isinstance(n, ast.Name) and isinstance(n.ctx, ast.Store)}
        copied = set()
        if isinstance(st, (ast.Assign, ast.AnnAssign)) and isinstance(getattr(st, "value", None), ast.Name):
            tg = st.targets[0] if isinstance(st, ast.Assign) and len(st.targets) == 1 else getattr(st, "target", None)
            if isinstance(tg, ast.Name):  # x = y : what is known about y holds for x
                copied = {(tg.id, v) for k, v in facts if k == st.value.id} | {(k_none(tg.id), v) for k, v in facts if k == k_none(st.value.id)}
                if st.value.id in self.pending:
                    self.pending[tg.id] = self.pending[st.value.id]
        facts = {(k, v) for k, v in facts if not any(k == n or k == k_none(n) for n in names)} | copied
        if isinstance(st, ast.Assign) and len(st.targets) == 1 and isinstance(st.targets[0], ast.Name) and isinstance(st.value, ast.Constant) \
                and isinstance(st.value.value, bool):
            facts.add((st.targets[0].id, st.value.value))
        return facts

    def simple(self, state, st):
        toks, facts = state
        return ((frozenset(self.effects(set(toks), st, True)), frozenset(self._facts_assign(set(facts), st))),)

    def simple_exc(self, state, st):
        toks, facts = state
        return ((frozenset(self.effects(set(toks), st, False)), facts),)

    def on_return(self, state, st):
        if st.value is not None and not is_none(st.value) and self.f.qualname.endswith("._attach_inner"):
            self.failure_returns.append((st, state))
        return (state,)

    def bind_loop(self, state, st):
        it = st.iter
        if isinstance(it, ast.Call) and isinstance(it.func, ast.Attribute) and it.func.attr in ("get_child_nodes_with_field", "get_child_nodes", "dfs"):
            owner = self.role(it.func.value)
            tg = st.target.elts[0] if isinstance(st.target, ast.Tuple) else st.target
            if owner and isinstance(tg, ast.Name):
                self.loop_roles[tg.id] = f"kids({owner})" if it.func.attr != "dfs" else f"desc({owner})"
        return (state,)

    @staticmethod
    def _atoms(test: ast.expr, pol: bool) -> list[tuple[str, bool]] | None:
        """Facts implied by test == pol, if the test is a literal / negated literal / pure conjunction (for pol True)."""
        t = test
        while isinstance(t, ast.UnaryOp) and isinstance(t.op, ast.Not):
            t, pol = t.operand, not pol
        if isinstance(t, ast.BoolOp):
            if isinstance(t.op, ast.And) and pol or isinstance(t.op, ast.Or) and not pol:
                out = []
                for v in t.values:
                    sub = RollbackSem._atoms(v, pol)
                    if sub:
                        out += sub
                return out
            return []
        if isinstance(t, ast.Compare):
            c = canon_cmp(t)
            if c is not None:
                return [(c[0], c[1] == pol)]
            return []
        if isinstance(t, (ast.Name, ast.Attribute)):
            return [(norm(t), pol)]
        if isinstance(t, ast.NamedExpr):
            return []
        return []

    def cond(self, state, test):
        toks, facts = state
        fd = dict(facts)
        res = []
        for pol in (True, False):
            at = self._atoms(test, pol) or []
            if any(k in fd and fd[k] != v for k, v in at):
                res.append(())
            else:
                t2 = toks
                for k, v in at:
                    for name, r in self.pending.items():
                        if r and k == k_none(name) and v is True:
                            t2 = frozenset(self._attached(set(t2), r))  # _attach_inner returned None: the node is registered
                res.append(((t2, frozenset(set(facts) | set(at))),))
        return res[0], res[1]


OPS = [
    # qualname, roles, under construction, description
    (f"{CLS}.replace", {"self": "self", "cur_parent": "par"}, set()),
    (f"{CLS}.replace_with", {"self": "self", "new": "new", "cur_parent": "par"}, set()),
    (f"{CLS}._attach_inner", {"self": "self"}, set()),
    (f"{CLS}._attach", {"self": "self"}, set()),
    (f"{CLS}.attach", {"self": "self"}, set()),
    (f"{CLS}.__post_init__", {"self": "self"}, {"self"}),
    ("ASTTransformVisitor.transform", {"node": "clone", "orig_node": "orig", "transformed": "result"}, {"clone"}),
    ("ASTTransformer.execute", {"node": "root", "child": "child"}, set()),
]


def r_blanket_release(ck: Checker) -> None:
    """After _attach_inner has claimed a child, a child that was an attached root before the call and one that was detached before the call
    look alike (registered, parent = the new node).  A clean-up loop that detaches the claimed children *unconditionally* therefore
    removes from the registry sub-trees that were attached before the rejected operation began (positive pattern: `x.detach()` /
    `x.detach_self()` on the elements of an enumeration of the children, under no condition on x other than where to stop, on a path that raises)."""
    n = 0
    for q in ("_attach", "attach", "__post_init__", "replace", "replace_with"):
        f = ck.repo.func(LNODE, f"{CLS}.{q}")
        fn = f.raw or f.node
        n += 1
        what = f"{CLS}.{q}: a rejected operation does not detach children wholesale (which of them were attached before cannot be told afterwards)"
        bad = None
        for lp in ast.walk(fn):
            if not (isinstance(lp, ast.For) and isinstance(lp.target, ast.Name)):
                continue
            if not any(k in norm(lp.iter) for k in ("get_child_nodes", "children", "iter_child_fields", "dfs(", "bfs(")):
                continue
            t = lp.target.id
            for st in lp.body:  # top level of the loop body only: a guarded detach is not this pattern
                if isinstance(st, ast.Expr) and isinstance(st.value, ast.Call) and isinstance(st.value.func, ast.Attribute) \
                        and st.value.func.attr in ("detach", "detach_self") and norm(st.value.func.value) == t:
                    # the loop must sit on a failing path: a raise follows it in the same block or it is inside a handler
                    par = {id(c): p_ for p_ in ast.walk(fn) for c in ast.iter_child_nodes(p_)}
                    blk = par.get(id(lp))
                    sibs = []
                    for fld in ("body", "orelse", "finalbody"):
                        b_ = getattr(blk, fld, None)
                        if isinstance(b_, list) and lp in b_:
                            sibs = b_[b_.index(lp) + 1:]
                    if any(isinstance(s_, ast.Raise) for s_ in sibs) or isinstance(blk, ast.ExceptHandler):
                        bad = (st, norm(lp.iter)[:40])
        if bad:
            ck.violation("R-LEG-ROLLBACK", f, bad[0], what, positive=True,
                         construct=f"{CLS}.{q}: {norm(bad[0])} for every element of {bad[1]} before raising — children that were attached roots before the call are unregistered together with their sub-trees")
        else:
            ck.holds("R-LEG-ROLLBACK", f, f.node, what)


def r_rollback(ck: Checker) -> None:
    c = ck.repo.cls(LNODE, CLS)
    methods = {st.name: ck.repo.func(LNODE, f"{CLS}.{st.name}").node for st in c.node.body if isinstance(st, ast.FunctionDef) and st.name in SUMMARY_CONFIRM}
    for name, want in SUMMARY_CONFIRM.items():
        fn = methods.get(name)
        if fn is None:
            raise Unsupported(f"legacy helper {name} vanished")
        got = primitives_of(fn)
        if not want <= got:
            ck.incomplete("R-LEG-ROLLBACK", (c.mod.rel, f"{CLS}.{name}"), fn,
                          f"effect summary of {name} is stale: expected primitives {sorted(want)}, body has {sorted(got)}")
            return
        extra = {g for g in got if g.startswith(("P_", "R_", "A_SET")) and g not in want}
        if extra:
            ck.incomplete("R-LEG-ROLLBACK", (c.mod.rel, f"{CLS}.{name}"), fn, f"effect summary of {name} is stale: new primitives {sorted(extra)}")
            return
    for q, roles, uc in OPS:
        f = ck.repo.func(LNODE, q)
        sem = RollbackSem(f, roles, uc)
        out = Interp(sem, max_rounds=8).block(f.node.body, {(frozenset(), frozenset())})
        exits = [s for s in out.exc] + [s for _, s in sem.failure_returns]
        leaks: dict[tuple, int] = {}
        clean = 0
        for toks, facts in exits:
            if not toks:
                clean += 1
            for t in toks:
                leaks[t] = leaks.get(t, 0) + 1
        what = f"{q}: every effect on a pre-existing node is compensated before a failure leaves the operation"
        if not exits:
            ck.holds("R-LEG-ROLLBACK", f, f.node, f"{q}: no failure exit after an effect (pure checks, then effects that cannot fail)", evaluations=1)
            continue
        if not leaks:
            ck.holds("R-LEG-ROLLBACK", f, f.node, what, evaluations=len(exits), failure_exits=len(exits))
            continue
        if clean:
            ck.holds("R-LEG-ROLLBACK", f, f.node, f"{q}: {clean} failure exits are reached with no outstanding effect", evaluations=clean)
        for (kind, role), cnt in sorted(leaks.items()):
            ck.violation("R-LEG-ROLLBACK", f, f.node, what, evaluations=cnt,
                         construct=f"{q}: {kind}({role}) is not compensated on a failure exit", failure_exits_with_it=cnt)
    ck.require_count("R-LEG-ROLLBACK", len(OPS))


def r_prechecks(ck: Checker) -> None:
    """Documented pre-checks are pure: they read and raise, nothing else."""
    f = ck.repo.func(LNODE, f"{CLS}._check_unique_children")
    # duplicates are children with the same *id* (two objects with one id cannot both be registered): the seen-set holds ids
    lps = [st for st in f.node.body if isinstance(st, ast.For) and "get_child_nodes" in norm(st.iter)]
    if len(lps) == 1 and isinstance(lps[0].target, (ast.Tuple, ast.Name)):
        cvar = norm(lps[0].target.elts[0]) if isinstance(lps[0].target, ast.Tuple) else norm(lps[0].target)
        adds = [c for c in walk_body(lps[0].body) if isinstance(c, ast.Call) and isinstance(c.func, ast.Attribute) and c.func.attr == "add" and c.args]
        tests = [c for c in walk_body(lps[0].body) if isinstance(c, ast.Compare) and len(c.ops) == 1 and isinstance(c.ops[0], (ast.In, ast.NotIn))]
        keys = {norm(c.args[0]) for c in adds} | {norm(c.left) for c in tests}
        what_u = "_check_unique_children rejects two children with the same id (not only the same object listed twice)"
        if keys == {f"{cvar}.id"}:
            ck.holds("R-LEG-PRECHECK", f, lps[0], what_u)
        elif keys and all(k.startswith("id(") or k == cvar for k in keys):
            ck.violation("R-LEG-PRECHECK", f, lps[0], what_u, construct=f"_check_unique_children compares {sorted(keys)[0]} (object identity): a node and its detached clone with the same id pass, "
                         "and the collision is detected only after the first one was attached")
        else:
            raise Unsupported(f"_check_unique_children: duplicate test on {sorted(keys)}", f.node)
    prim = primitives_of(f.node)
    what = "_check_unique_children only reads and raises"
    (ck.holds if not prim else ck.violation)("R-LEG-PRECHECK", f, f.node, what, **({} if not prim else {"construct": f"_check_unique_children has effects {sorted(prim)}"}))
    pi = ck.repo.func(LNODE, f"{CLS}.__post_init__")
    body = [st for st in pi.node.body if not (isinstance(st, ast.Expr) and isinstance(st.value, ast.Constant))]
    what = "construction checks for duplicate children before anything else"
    ok = norm(body[0]) == "self._check_unique_children()"
    (ck.holds if ok else ck.violation)("R-LEG-PRECHECK", pi, body[0], what, **({} if ok else {"construct": f"__post_init__ starts with {norm(body[0])[:50]}"}))
    # rejections (raise statements of the normal flow, i.e. outside exception handlers) happen before anything was changed
    from ..dtree import decision_tree

    def effect(st: ast.AST) -> str | None:
        for n in ast.walk(st):
            if isinstance(n, ast.Call):
                last = (dotted(n.func) or "").split(".")[-1]
                if last in ("_clear_parent", "detach_self", "detach", "_attach", "attach", "_attach_inner", "_set_parent", "_replace_child"):
                    return last
                if dotted(n.func) in ("object.__setattr__", "setattr", f"{REG}.pop", f"{REG}.__setitem__", f"{REG}.__delitem__"):
                    return dotted(n.func)
            if isinstance(n, ast.Subscript) and isinstance(n.ctx, (ast.Store, ast.Del)) and dotted(n.value) == REG:
                return f"{REG}[...]"
        return None

    for q, label in ((f"{CLS}.replace", "replace rejects forbidden keys before its first effect"),
                     (f"{CLS}.replace_with", "replace_with performs its parent / type / optionality checks before its first effect")):
        fq = ck.repo.func(LNODE, q)
        body_q = [st for st in fq.node.body if not (isinstance(st, ast.Expr) and isinstance(st.value, ast.Constant))]
        leaves = decision_tree(body_q, try_as_body=True, max_atoms=18)
        rejections = [lf for lf in leaves if lf.outcome == "raise"]
        late = [(lf, next(e_ for e_ in (effect(st) for st in lf.stmts) if e_)) for lf in rejections if any(effect(st) for st in lf.stmts)]
        if late:
            lf, eff = late[0]
            ck.violation("R-LEG-PRECHECK", fq, fq.node, label, evaluations=len(leaves),
                         construct=f"{q.split('.')[-1]}: the rejection `raise {norm(lf.value)[:60] if lf.value is not None else ''}` is reached after {eff} has already run")
        elif not rejections:
            raise Unsupported(f"{q}: no rejection found on the normal flow", fq.node)
        else:
            ck.holds("R-LEG-PRECHECK", fq, fq.node, label, evaluations=len(leaves), pre_checks=len(rejections))


def r_clone(ck: Checker) -> None:
    """The transform visitor works on a detached clone whenever the node it is given is attached (root or subtree).
    Decided path by path on the resolved function: what is handed to visit(), and where the result is put back."""
    from ..dtree import decision_tree
    from ..finite import k_none

    f = ck.repo.func(LNODE, "ASTTransformVisitor.transform")
    fn = f.node
    nodep = fn.args.args[1].arg
    what = ("transform clones every attached node (attached root or attached subtree) into a detached copy before visiting it, so a failing "
            "visitor cannot leave a partial rewrite in the live tree")
    k_det = f"{nodep}.detached"
    k_root, k_sub = f"{nodep}.is_attached_root", f"{nodep}.is_attached_subtree"
    k_att = f"{nodep}.is_attached"
    clone = f"{nodep}.duplicate(as_detached_clone=True)"
    body = [st for st in fn.body if not (isinstance(st, ast.Expr) and isinstance(st.value, ast.Constant))]
    leaves = decision_tree(body, preset={k_none(nodep): False}, resolve="calls", try_as_body=True, max_atoms=10)
    bad: list[str] = []
    n_attached = 0
    for lf in leaves:
        if lf.outcome == "raise":
            continue
        a = lf.assign
        unknown = set(a) - {k_det, k_root, k_sub, k_att, k_none(nodep)}
        if unknown:
            raise Unsupported(f"transform decides on {sorted(unknown)}", fn)
        if k_det in a:
            attached: bool | None = not a[k_det]
        elif k_att in a:
            attached = a[k_att]
        elif k_root in a or k_sub in a:
            attached = True if (a.get(k_root) or a.get(k_sub)) else (False if (a.get(k_root) is False and a.get(k_sub) is False) else None)
        else:
            attached = None
        stmts, rv = lf.resolved(calls=True)
        seq: list[ast.AST] = list(stmts) + ([ast.Expr(value=rv)] if rv is not None else [])
        visits = [(i_, c) for i_, st in enumerate(seq) for c in ast.walk(st) if isinstance(c, ast.Call) and isinstance(c.func, ast.Attribute)
                  and c.func.attr in ("visit", "generic_visit") and c.args and norm(c.func.value) in ("super()", "self")]
        # the same call text occurs again wherever its result is used (calls are values on a resolved path): the first occurrence is the call
        if not visits:
            raise Unsupported("transform: a completing path does not visit anything", fn)
        vi, vc = visits[0]
        arg = norm(vc.args[0])
        if attached is None:
            if arg == nodep and len({norm(c.args[0]) for _, c in visits}) == 1:
                bad.append("the node is visited as it is, whether attached or not (no detached clone is made)")
                continue
            raise Unsupported(f"transform: a path visits {arg[:50]} without deciding whether the node is attached", fn)
        if attached:
            n_attached += 1
            if arg == nodep:
                bad.append(f"on the path {dict(a)} an attached node is visited in place (a failing visitor leaves a partial rewrite in the live tree)")
                continue
            if arg != clone:
                raise Unsupported(f"transform: an attached node is visited as {arg[:60]}", fn)
            for i_, st in enumerate(seq):
                for c in ast.walk(st):
                    if isinstance(c, ast.Call) and isinstance(c.func, ast.Attribute) and c.func.attr == "replace_with":
                        if norm(c.func.value) != nodep:
                            raise Unsupported(f"transform: replace_with on {norm(c.func.value)[:40]}", fn)
                        if i_ < vi:
                            bad.append("the original is replaced before the visit has succeeded")
        elif arg not in (nodep, clone):
            raise Unsupported(f"transform: a detached node is visited as {arg[:60]}", fn)
    if bad:
        ck.violation("R-LEG-CLONE", f, fn, what, evaluations=len(leaves), construct=f"transform: {bad[0]}")
    elif not n_attached:
        raise Unsupported("transform: no path for an attached node found", fn)
    else:
        ck.holds("R-LEG-CLONE", f, fn, what, evaluations=len(leaves))


def r_clone_collections(ck: Checker) -> None:
    """The detached clone shares nothing with the live tree: duplicate() copies every kind of child collection the child
    enumeration walks into (sibling agreement of get_child_nodes_with_field and duplicate)."""
    def coll_classes(fn: ast.FunctionDef) -> set[str] | None:
        out: set[str] = set()
        for c in ast.walk(fn):
            if isinstance(c, ast.Call) and dotted(c.func) == "isinstance" and len(c.args) == 2:
                names = {norm(x) for x in (c.args[1].elts if isinstance(c.args[1], ast.Tuple) else [c.args[1]])}
                if names <= {"list", "tuple", "Sequence", "t.Sequence", "abc.Sequence", "set", "frozenset", "Iterable", "t.Iterable"}:
                    out |= names
        return out or None

    en = ck.repo.func(LNODE, f"{CLS}.get_child_nodes_with_field")
    du = ck.repo.func(LNODE, f"{CLS}.duplicate")
    e_, d_ = coll_classes(en.node), coll_classes(du.node)
    what = "duplicate copies every kind of child collection that the child enumeration walks into (the clone shares no child container with the original)"
    if e_ is None or d_ is None:
        raise Unsupported(f"collection tests of get_child_nodes_with_field / duplicate not found ({e_}, {d_})", du.node)
    if e_ <= d_ or d_ & {"Sequence", "t.Sequence", "abc.Sequence", "Iterable", "t.Iterable"}:
        ck.holds("R-LEG-CLONE", du, du.node, what, enumeration=sorted(e_), duplicate=sorted(d_))
    else:
        ck.violation("R-LEG-CLONE", du, du.node, what, positive=True, construct=f"duplicate copies child collections of type {sorted(d_)} only, the enumeration also walks into {sorted(e_ - d_)}: such a "
                     "collection (and the nodes in it) is shared between the live tree and the detached clone a transformer works on")


def run(ck: Checker) -> None:
    ck.explanation = (
        "Effect / compensation analysis of the legacy operations that can be rejected (replace, replace_with, _attach_inner via __post_init__/"
        "attach, the transform visitor and the transformer): the flow interpreter carries the set of outstanding effect primitives on "
        "pre-existing nodes (parent cleared/set, registry pop/store, id/original_id rewritten, completed replacements) to every failure exit, "
        "helper calls being expanded through summaries that are re-confirmed against the helper bodies; an effect that reaches a failure exit "
        "without having met its inverse is reported. Whether the restored values are the old values in every history is not decided."
    )
    ck.rule_text = "one obligation per operation and per uncompensated effect kind; evaluations = failure exits reached"
    ck.assumptions += ["_clear_parent/_set_parent/registry pops with default/dict stores do not raise",
                       "a raising helper call leaves its own partial effects to its own analysis (reported at the helper)",
                       "compensation calls inside except handlers do not fail themselves"]
    from . import state_rules as SPOS
    ck.guard("R-LEG-ROLLBACK", lambda: SPOS.r_position_presence(ck, "R-LEG-ROLLBACK", "pyoak.legacy.node", "the restored / rewritten position of the first element of a sequence is 0"))
    ck.guard("R-LEG-ROLLBACK", lambda: r_rollback(ck))
    ck.guard("R-LEG-ROLLBACK", lambda: r_blanket_release(ck))
    from .c18 import r_leg_eq_search
    ck.guard("R-LEG-ROLLBACK", lambda: r_leg_eq_search(ck, "R-LEG-ROLLBACK"))  # the position restored after a rejection is the recorded one
    from . import state_rules as S_
    ck.guard("R-LEG-PRECHECK", lambda: S_.r_class_attr_cache(ck, "R-LEG-PRECHECK", (LNODE,)))  # what a class may replace is asked of that class, not of the first class that was asked
    ck.guard("R-LEG-PRECHECK", lambda: r_prechecks(ck))
    ck.guard("R-LEG-CLONE", lambda: r_clone(ck))
    ck.guard("R-LEG-CLONE", lambda: r_clone_collections(ck))
    from . import state_rules as S
    ck.guard("R-LEG-CLONE", lambda: S.r_stateless(ck, "R-LEG-CLONE", LNODE, "ASTTransformVisitor", ("transform",), "whether a node is cloned first must not depend on earlier, possibly failed, transforms"))
