"""C18 — Legacy parent-aware trees stay structurally consistent through any history (necessary conditions)."""
from __future__ import annotations

import ast

from ..astutil import alpha, dotted, is_none, norm, strip_docstring, walk_body
from ..digest import Dyn, Loop, contributions, describe
from ..dtree import bool_function, check_formula, decision_tree
from ..finite import k_eq, k_is, k_none
from ..report import Checker
from ..srcmodel import Func, Unsupported

LNODE = "pyoak.legacy.node"
CLS = "AwareASTNode"
NODEISH = ("self", "node", "relative_to", "self.parent", "node.parent", "parent", "other")


def r_leg_ident(ck: Checker) -> None:
    n = 0
    for q in ("is_ancestor", "get_depth"):
        f = ck.repo.func(LNODE, f"{CLS}.{q}")
        for c in walk_body(f.node.body):
            if isinstance(c, ast.Compare) and len(c.ops) == 1:
                l, r = norm(c.left), norm(c.comparators[0])
                if l in NODEISH and r in NODEISH:
                    n += 1
                    what = "legacy upward queries compare nodes by identity (legacy nodes have a structural __eq__: twins are ==)"
                    if isinstance(c.ops[0], (ast.Is, ast.IsNot)):
                        ck.holds("R-LEG-IDENT", f, c, what, comparison=norm(c))
                    else:
                        ck.violation("R-LEG-IDENT", f, c, what, construct=f"{q}: {norm(c)} compares nodes by value")
    for q in ("is_ancestor", "get_depth"):
        f = ck.repo.func(LNODE, f"{CLS}.{q}")
        for c in walk_body(f.node.body):
            if isinstance(c, ast.Compare) and len(c.ops) == 1 and isinstance(c.ops[0], (ast.In, ast.NotIn)) and "ancestors()" in norm(c.comparators[0]):
                n += 1
                ck.violation("R-LEG-IDENT", f, c, "legacy upward queries compare nodes by identity (legacy nodes have a structural __eq__: twins are ==)",
                             construct=f"{q}: {norm(c)} is a membership test (==): an equal twin elsewhere in the tree counts as an ancestor")
    if n < 2:
        ck.incomplete("R-LEG-IDENT", None, None, f"only {n} node comparisons found (2 expected)")
    a = ck.repo.func(LNODE, f"{CLS}.ancestors")
    body = strip_docstring(a.node.body)
    what = "ancestors() is the parent chain starting at the parent"
    from ..loops import chain_generator
    v = chain_generator(body, "self", lambda x: f"{x}.parent", lambda x: f"{x}.ancestors()")
    if v.ok:
        ck.holds("R-LEG-IDENT", a, a.node, what, evaluations=v.evaluations, proof=v.why)
    else:
        ck.violation("R-LEG-IDENT", a, a.node, what, construct=f"ancestors: {v.why}")
    d = ck.repo.func(LNODE, f"{CLS}.detached")
    what = "detached means: the registry entry under the node's id is not this very node"
    k_reg = k_is("AwareASTNode._nodes.get(self.id)", "self")
    rows = bool_function(strip_docstring(d.node.body), resolve=True)
    bad = check_formula(rows, [k_reg], lambda a: not a[k_reg], where=d.node)
    if bad:
        ck.violation("R-LEG-IDENT", d, d.node, what, evaluations=len(rows), construct=f"detached: {bad[0]}")
    else:
        ck.holds("R-LEG-IDENT", d, d.node, what, evaluations=len(rows))


def r_leg_propagate(ck: Checker) -> None:
    f = ck.repo.func(LNODE, f"{CLS}._reset_content_id")
    body = strip_docstring(f.node.body)
    what = "_reset_content_id refreshes the node and then every ancestor up to the root"
    from ..loops import chain_generator

    def emit(n: ast.AST) -> str | None:
        if isinstance(n, ast.Call) and isinstance(n.func, ast.Attribute) and n.func.attr == "_set_content_id" and not n.args and not n.keywords:
            return norm(n.func.value)
        return None

    v = chain_generator(body, "self", lambda x: f"{x}.parent", None, emit=emit, include_start=True)
    if v.ok:
        ck.holds("R-LEG-PROPAGATE", f, f.node, what, evaluations=v.evaluations, proof=v.why)
    else:
        ck.violation("R-LEG-PROPAGATE", f, f.node, what, construct=f"_reset_content_id: {v.why}")
    g = ck.repo.func(LNODE, f"{CLS}._replace_child")
    # the statement(s) after the structural update
    leaves = decision_tree([st for st in strip_docstring(g.node.body) if isinstance(st, ast.If) and "_reset_content_id" in norm(st)])
    k_new_none = k_none("new")
    k_cid = "eq(new.content_id,old.content_id)"
    bad = []
    if not leaves:
        bad.append("_replace_child never refreshes content ids")
    for lf in leaves:
        a = lf.assign
        resets = any("self._reset_content_id()" == norm(st) for st in lf.stmts)
        if set(a) - {k_new_none, k_cid}:
            bad.append(f"decides on {sorted(a)}")
            continue
        must = a.get(k_new_none) is True or a.get(k_cid) is False
        if must and not resets:
            bad.append(f"{a}: content ids not refreshed")
    what = "_replace_child refreshes the content id of the parent chain whenever the child was removed or its content id differs"
    (ck.violation if bad else ck.holds)("R-LEG-PROPAGATE", g, g.node, what, evaluations=len(leaves), **({"construct": f"_replace_child: {bad[0]}"} if bad else {}))
    pi = ck.repo.func(LNODE, f"{CLS}.__post_init__")
    last = strip_docstring(pi.node.body)[-1]
    what = "construction ends with computing the content id (after the children are attached)"
    ok = norm(last) == "self._set_content_id()"
    (ck.holds if ok else ck.violation)("R-LEG-PROPAGATE", pi, last, what, **({} if ok else {"construct": f"__post_init__ ends with {norm(last)[:50]}"}))


def r_leg_link(ck: Checker) -> None:
    sp = ck.repo.func(LNODE, f"{CLS}._set_parent")
    sets = {c.args[1].value: norm(c.args[2]) for c in walk_body(sp.node.body) if isinstance(c, ast.Call) and dotted(c.func) == "object.__setattr__"
            and isinstance(c.args[1], ast.Constant) and norm(c.args[0]) == "self"}
    a = [x.arg for x in sp.node.args.args]
    what = "_set_parent stores exactly (parent.id, field, index)"
    ok = sets == {"_parent_id": f"{a[1]}.id", "_parent_field": a[2], "_parent_index": a[3]}
    (ck.holds if ok else ck.violation)("R-LEG-LINK", sp, sp.node, what, **({} if ok else {"construct": f"_set_parent stores {sets}"}))
    cp = ck.repo.func(LNODE, f"{CLS}._clear_parent")
    sets = {c.args[1].value: norm(c.args[2]) for c in walk_body(cp.node.body) if isinstance(c, ast.Call) and dotted(c.func) == "object.__setattr__"
            and isinstance(c.args[1], ast.Constant) and norm(c.args[0]) == "self"}
    what = "_clear_parent resets the whole parent triple (and the cached xpath)"
    ok = all(sets.get(k) == "None" for k in ("_parent_id", "_parent_field", "_parent_index"))
    (ck.holds if ok else ck.violation)("R-LEG-LINK", cp, cp.node, what, **({} if ok else {"construct": f"_clear_parent stores {sets}"}))
    for q, attr in (("parent_field", "_parent_field"), ("parent_index", "_parent_index")):
        p = ck.repo.func(LNODE, f"{CLS}.{q}")
        what = f"{q} reads the slot written by _set_parent"
        ok = any(isinstance(c, ast.Call) and dotted(c.func) == "getattr" and norm(c.args[0]) == "self" and norm(c.args[1]) == repr(attr) for c in walk_body(p.node.body))
        (ck.holds if ok else ck.violation)("R-LEG-LINK", p, p.node, what, **({} if ok else {"construct": f"{q} does not read {attr}"}))
    pa = ck.repo.func(LNODE, f"{CLS}.parent")
    what = "parent resolves the stored parent id through the registry"
    ok = any(isinstance(c, ast.Call) and norm(c.func) == "AwareASTNode.get_any" for c in walk_body(pa.node.body)) and "_parent_id" in norm(pa.node)
    if ok:
        ck.holds("R-LEG-LINK", pa, pa.node, what)
    elif "_parent_id" not in norm(pa.node):
        ck.violation("R-LEG-LINK", pa, pa.node, what, construct="parent: the stored parent id is not consulted")
    else:
        raise Unsupported("parent: lookup of _parent_id in the registry not recognised", pa.node)

    ai = ck.repo.func(LNODE, f"{CLS}._attach_inner")
    loops = [st for st in ai.node.body if isinstance(st, ast.For) and norm(st.iter) == "self.get_child_nodes_with_field()"]
    what = "_attach_inner sets the parent triple of every child to (self, field, index) of the same enumeration tuple and registers self afterwards"
    ok = False
    if len(loops) == 1 and isinstance(loops[0].target, ast.Tuple) and len(loops[0].target.elts) == 3:
        c, fl, ix = (norm(x) for x in loops[0].target.elts)
        last = loops[0].body[-1]
        ok = norm(last) == f"{c}._set_parent(self, {fl}, {ix})"
        after = ai.node.body[ai.node.body.index(loops[0]) + 1:]
        ok = ok and any(norm(st) == "AwareASTNode._nodes[self.id] = self" for st in after)
    if ok:
        ck.holds("R-LEG-LINK", ai, ai.node, what)
    else:
        sp_calls = [c_ for c_ in ast.walk(ai.node) if isinstance(c_, ast.Call) and isinstance(c_.func, ast.Attribute) and c_.func.attr == "_set_parent"]
        reg_store = any(isinstance(st_, ast.Assign) and norm(st_.targets[0]) == "AwareASTNode._nodes[self.id]" for st_ in ast.walk(ai.node))
        if not sp_calls:
            ck.violation("R-LEG-LINK", ai, ai.node, what, construct="_attach_inner: the children's parent link is never set")
        elif not reg_store and not any("_nodes" in norm(st_) and isinstance(st_, (ast.Assign, ast.Expr)) for st_ in ai.node.body):
            ck.violation("R-LEG-LINK", ai, ai.node, what, construct="_attach_inner: the node is not registered")
        elif len(loops) == 1 and isinstance(loops[0].target, ast.Tuple) and len(loops[0].target.elts) == 3 and len(sp_calls) == 1 \
                and [norm(a_) for a_ in sp_calls[0].args] != ["self", norm(loops[0].target.elts[1]), norm(loops[0].target.elts[2])] \
                and any(sp_calls[0] is x_ for st_ in loops[0].body for x_ in ast.walk(st_)):
            ck.violation("R-LEG-LINK", ai, ai.node, what, construct=f"_attach_inner: a child is linked with {norm(sp_calls[0])[:60]} (not the parent, field and index of its own enumeration tuple)")
        elif sp_calls and not any(any(sp_calls[0] is x_ for x_ in ast.walk(st_)) for lp_ in loops for st_ in lp_.body):
            # the link is set in another loop than the checking one (e.g. a second pass): an earlier failure leaves ... C19's subject; here: order
            ck.violation("R-LEG-LINK", ai, ai.node, what, construct="_attach_inner: the children are linked outside the loop that enumerates (and checks) them")
        else:
            raise Unsupported("_attach_inner: child link / registration not recognised", ai.node)

    rc = ck.repo.func(LNODE, f"{CLS}._replace_child")
    osq_txt0 = "getattr(self, field.name)"
    seqs = [norm(st.targets[0]) for st in walk_body(rc.node.body) if isinstance(st, ast.Assign) and isinstance(st.targets[0], ast.Name)
            and norm(st.value) == "getattr(self, field.name)"]
    if len(set(seqs)) != 1:
        raise Unsupported("_replace_child: the local holding the original sequence (getattr(self, field.name)) was not identified", rc.node)
    osq = seqs[0]
    # the sequence object held by the node is never edited in place: it is the object the caller handed to the constructor (and may be
    # held by other nodes made with dataclasses.replace); the sibling renumbering below reads it as it was before the change
    INPLACE = ("pop", "insert", "remove", "append", "extend", "clear", "reverse", "sort", "__setitem__", "__delitem__")
    for x in ast.walk(rc.node):
        if (isinstance(x, ast.Subscript) and isinstance(x.ctx, (ast.Store, ast.Del)) and norm(x.value) in (osq, osq_txt0)) or \
                (isinstance(x, ast.Call) and isinstance(x.func, ast.Attribute) and x.func.attr in INPLACE and norm(x.func.value) in (osq, osq_txt0)):
            ck.violation("R-LEG-LINK", rc, x, "_replace_child builds a new sequence and stores it; the sequence object held by the node is not edited in place", positive=True,
                         construct=f"_replace_child: {norm(x)[:50]} edits the child sequence in place — the siblings behind a removed child are then read from the already shortened sequence, and every other holder of that list sees the change")
            return
    leaves = decision_tree([st for st in strip_docstring(rc.node.body) if not (isinstance(st, ast.If) and "_reset_content_id" in norm(st))], max_atoms=6)
    bad = []
    k_idx, k_new = k_none("index"), k_none("new")
    osq_txt = "getattr(self, field.name)"
    seg_env: dict[str, list[str]] = {}  # locals holding pieces of the original sequence (bound before the field is overwritten)

    def segments(e: ast.expr, new_none: bool) -> list[str]:
        """The rebuilt sequence as a list of pieces: PRE = elements before index, NEW, POST = elements after index."""
        if isinstance(e, ast.Call) and len(e.args) == 1 and not e.keywords and (norm(e.func).startswith("type(") or isinstance(e.func, ast.Name)) \
                and not (isinstance(e.func, ast.Name) and e.func.id in ("getattr",)):
            return segments(e.args[0], new_none)
        if isinstance(e, ast.Name) and e.id in seg_env:
            return list(seg_env[e.id])
        if isinstance(e, ast.Starred):
            return segments(e.value, new_none)
        if isinstance(e, (ast.List, ast.Tuple)):
            out: list[str] = []
            for x in e.elts:
                if isinstance(x, ast.Starred):
                    out += segments(x.value, new_none)
                elif norm(x) == "new":
                    out.append("NEW")
                else:
                    out.append("?" + norm(x)[:20])
            return out
        if isinstance(e, (ast.ListComp, ast.GeneratorExp)) and len(e.generators) == 1 and norm(e.generators[0].iter) in (osq, osq_txt) \
                and isinstance(e.generators[0].target, ast.Name) and norm(e.elt) == e.generators[0].target.id and len(e.generators[0].ifs) == 1:
            t_ = e.generators[0].ifs[0]
            v_ = e.generators[0].target.id
            if isinstance(t_, ast.Compare) and len(t_.ops) == 1 and {norm(t_.left), norm(t_.comparators[0])} == {v_, "old"}:
                if isinstance(t_.ops[0], ast.IsNot):
                    return ["PRE", "POST"]  # exactly the old object is left out
                if isinstance(t_.ops[0], ast.NotEq):
                    return ["!every element equal to the old child is dropped (twins compare equal)"]
        if isinstance(e, ast.BinOp) and isinstance(e.op, ast.Add):
            return segments(e.left, new_none) + segments(e.right, new_none)
        if isinstance(e, ast.IfExp):
            from ..finite import Evaluator
            try:
                return segments(e.body if Evaluator({k_new: new_none}).ev(e.test) else e.orelse, new_none)
            except Exception:
                return ["?cond"]
        if isinstance(e, ast.Subscript) and isinstance(e.slice, ast.Slice) and norm(e.value) in (osq, osq_txt) and e.slice.step is None:
            lo = norm(e.slice.lower) if e.slice.lower is not None else None
            hi = norm(e.slice.upper) if e.slice.upper is not None else None
            if lo is None and hi == "index":
                return ["PRE"]
            if lo in ("index + 1", "1 + index") and hi is None:
                return ["POST"]
        return ["?" + norm(e)[:20]]

    for lf in leaves:
        a = lf.assign
        st = [norm(s) for s in lf.stmts]
        in_seq = a.get(k_idx) is False
        removed = a.get(k_new) is True
        if a.get(k_new) is False and "new._set_parent(self, field, index)" not in st:
            bad.append(f"{a}: the new child's parent triple is not set to (self, field, index)")
        if removed and any("new._set_parent" in s for s in st):
            bad.append("None child gets a parent")
        seg_env.clear()
        for s_ in lf.stmts:
            if isinstance(s_, ast.Assign) and len(s_.targets) == 1 and isinstance(s_.targets[0], ast.Name) and s_.targets[0].id != osq:
                sg = segments(s_.value, removed)
                if not any(x.startswith("?") for x in sg):
                    seg_env[s_.targets[0].id] = sg
        stores = [c for s_ in lf.stmts for c in ast.walk(s_) if isinstance(c, ast.Call) and dotted(c.func) == "setattr" and len(c.args) == 3
                  and norm(c.args[0]) == "self" and norm(c.args[1]) == "field.name"]
        if in_seq and a.get(k_new) is not None:
            if len(stores) != 1:
                raise Unsupported(f"_replace_child: {len(stores)} stores of the rebuilt sequence on path {a}", rc.node)
            seg = segments(stores[0].args[2], removed)
            if any(x.startswith("!") for x in seg):
                bad.append("removed element is not cut out of the sequence: " + next(x for x in seg if x.startswith("!"))[1:])
                continue
            if any(x.startswith("?") for x in seg):
                raise Unsupported(f"_replace_child: rebuilt sequence {norm(stores[0].args[2])[:70]} not understood ({seg})", rc.node)
            if removed and seg != ["PRE", "POST"]:
                bad.append(f"removed element is not cut out of the sequence ({seg})")
            if not removed and seg != ["PRE", "NEW", "POST"]:
                bad.append(f"replacement is not stored at the same index of the sequence ({seg})")
        if in_seq and removed:
            shift = [s for s in lf.stmts if isinstance(s, ast.For)]
            from ..normalize import resolve_path
            ok = False
            if len(shift) == 1 and segments(shift[0].iter, True) == ["POST"] and isinstance(shift[0].target, ast.Name):
                sib = shift[0].target.id
                sbody = [norm(x) for x in resolve_path(shift[0].body)]
                ok = f"{sib}._set_parent(self, field, {sib}.parent_index - 1)" in sbody
            if not ok:
                bad.append("removing a sequence element does not shift the later siblings' indices by -1")
        if a.get(k_idx) is True and "setattr(self, field.name, new)" not in st:
            bad.append("single child field is not set to the new child")
    what = "_replace_child keeps (field, index) links exact: new child linked at the same position, later siblings shifted by -1 on removal"
    (ck.violation if bad else ck.holds)("R-LEG-LINK", rc, rc.node, what, evaluations=len(leaves), **({"construct": f"_replace_child: {bad[0]}"} if bad else {}))

    dt = ck.repo.func(LNODE, f"{CLS}.detach")
    loops = [st for st in dt.node.body if isinstance(st, ast.For) and norm(st.iter) == "self.get_child_nodes()"]
    what = "detach clears the parent triple of every child, detaches the subtree unless only_self, and pops the registry entry"
    if not loops:
        # a positive pattern: the parent link is cleared for every descendant, not only for the children of the detached node
        deep = [st for st in dt.node.body if isinstance(st, ast.For) and isinstance(st.iter, ast.Call) and isinstance(st.iter.func, ast.Attribute)
                and st.iter.func.attr in ("dfs", "bfs") and norm(st.iter.func.value) == "self" and isinstance(st.target, ast.Name)]
        for lp_ in deep:
            tv_ = lp_.target.id
            clears = [st_ for st_ in lp_.body if isinstance(st_, ast.Expr) and norm(st_.value) == f"{tv_}._clear_parent()"]
            if clears:
                ck.violation("R-LEG-LINK", dt, lp_, what, positive=True, construct="detach: the parent link of every descendant is cleared (loop over self.dfs/bfs): with only_self the grandchildren, which stay "
                             "attached below their own parents, report no parent any more")
                return
    if len(loops) != 1 or not isinstance(loops[0].target, ast.Name):
        raise Unsupported("detach: no single loop over self.get_child_nodes()", dt.node)
    c = loops[0].target.id
    bad = None
    lv = decision_tree(loops[0].body)
    for lf in lv:
        calls = [norm(s) for s in lf.stmts if isinstance(s, ast.Expr) and isinstance(s.value, ast.Call)]
        calls = [x for x in calls if not x.startswith("logger.")]
        if set(lf.assign) - {"only_self"}:
            raise Unsupported(f"detach: child loop decides on {sorted(lf.assign)}", dt.node)
        if f"{c}._clear_parent()" not in calls:
            bad = "a child keeps its parent link"
        elif "only_self" not in lf.assign:
            bad = "only_self is not consulted"
        elif lf.assign["only_self"] and any(x.startswith(f"{c}.detach(") for x in calls):
            bad = "only_self=True still detaches the children"
        elif not lf.assign["only_self"] and not any(x.startswith(f"{c}.detach(") for x in calls):
            bad = "the subtree is not detached"
    after = dt.node.body[dt.node.body.index(loops[0]) + 1:]
    pops = [n for n in walk_body(after) if isinstance(n, ast.Call) and norm(n.func) == "AwareASTNode._nodes.pop"] + \
        [n for n in walk_body(after) if isinstance(n, ast.Delete) and any(norm(t) == "AwareASTNode._nodes[self.id]" for t in n.targets)]
    if not bad and not any(isinstance(p, ast.Delete) or (p.args and norm(p.args[0]) == "self.id") for p in pops):
        if any("_nodes" in norm(x) for x in after):
            raise Unsupported("detach: registry update after the loop not recognised", dt.node)
        bad = "the registry entry is not removed"
    (ck.holds if not bad else ck.violation)("R-LEG-LINK", dt, dt.node, what, **({"evaluations": len(lv)} if not bad else {"construct": f"detach: {bad}"}))


def _continuation(fn: ast.FunctionDef, target: ast.stmt) -> list[ast.stmt]:
    """Statements executed (normally) after ``target``: the rest of its block, then the rest of every enclosing block."""
    def find(block: list[ast.stmt]) -> list[ast.stmt] | None:
        for i, st in enumerate(block):
            if st is target:
                return list(block[i + 1:])
            subs: list[tuple[list[ast.stmt], list[ast.stmt]]] = []
            if isinstance(st, ast.If):
                subs = [(st.body, []), (st.orelse, [])]
            elif isinstance(st, ast.Try):
                subs = [(st.body, list(st.orelse) + list(st.finalbody)), (st.orelse, list(st.finalbody)), (st.finalbody, [])]
                for h in st.handlers:
                    subs.append((h.body, list(st.finalbody)))
            elif isinstance(st, ast.With):
                subs = [(st.body, [])]
            elif isinstance(st, (ast.For, ast.While)):
                for b in (st.body, st.orelse):
                    if find(b) is not None:
                        raise Unsupported("id rewritten inside a loop", st)
            for b, extra in subs:
                r = find(b)
                if r is not None:
                    return r + extra + list(block[i + 1:])
        return None
    r = find(fn.body)
    if r is None:
        raise Unsupported("statement not found in its function", target)
    return r


def r_leg_swap_uncond(ck: Checker) -> None:
    """replace / replace_with hand the new node to the parent (`parent._replace_child(self, field, index, new)`): that call is what stores
    the new object in the parent's field.  Positive pattern: the call sits under a condition that compares the two nodes (content_id / id /
    ==): on the other branch the parent keeps holding the old, unregistered object while the new one claims to be its child."""
    n = 0
    for q in ("replace", "replace_with"):
        f = ck.repo.func(LNODE, f"{CLS}.{q}")
        fn = f.node
        parent = {id(c): p_ for p_ in ast.walk(fn) for c in ast.iter_child_nodes(p_)}
        for c in ast.walk(fn):
            if not (isinstance(c, ast.Call) and isinstance(c.func, ast.Attribute) and c.func.attr == "_replace_child" and norm(c.func.value) != "self"):
                continue
            n += 1
            what = f"{CLS}.{q}: the parent's field is rewritten whenever the node has a parent (not only when the two nodes differ in content)"
            bad = None
            x: ast.AST = c
            while id(x) in parent:
                up = parent[id(x)]
                if isinstance(up, ast.If) and x is not up.test:
                    t = up.test
                    attrs = {a.attr for a in ast.walk(t) if isinstance(a, ast.Attribute)}
                    cmp_nodes = any(isinstance(k, ast.Compare) and any(isinstance(o, (ast.Eq, ast.NotEq)) for o in k.ops)
                                    and not any(isinstance(z, ast.Constant) for z in [k.left] + k.comparators) for k in ast.walk(t))
                    if attrs & {"content_id", "id"} and cmp_nodes:
                        bad = norm(t)[:60]
                x = up
            if bad:
                ck.violation("R-LEG-LINK", f, c, what, positive=True,
                             construct=f"{CLS}.{q}: {norm(c)[:60]} only under `{bad}` — otherwise the parent still stores the old node at that position")
            else:
                ck.holds("R-LEG-LINK", f, c, what)
    if n == 0:
        ck.incomplete("R-LEG-LINK", None, None, "no hand-over to the parent (`parent._replace_child(...)`) found in replace / replace_with (2 confirmed by hand)")


def r_leg_release_uncond(ck: Checker) -> None:
    """AwareASTNode.replace releases the old node and its children (`self.detach_self()`) whenever the node is attached: the children that the
    new node does not take over must not stay attached with a parent link to a node that is gone.  Positive pattern: the release is
    conditional on *what is being replaced* (a condition computed from the keyword arguments)."""
    f = ck.repo.func(LNODE, f"{CLS}.replace")
    fn = f.node
    kw = fn.args.kwarg.arg if fn.args.kwarg else None
    if kw is None:
        raise Unsupported("AwareASTNode.replace takes no **changes", fn)
    parent = {id(c): p_ for p_ in ast.walk(fn) for c in ast.iter_child_nodes(p_)}

    def depends_on_changes(e: ast.expr, depth: int = 0) -> bool:
        for x in ast.walk(e):
            if isinstance(x, ast.Name) and x.id == kw:
                return True
            if isinstance(x, ast.Name) and depth < 3:
                defs = [st.value for st in ast.walk(fn) if isinstance(st, ast.Assign) and len(st.targets) == 1 and isinstance(st.targets[0], ast.Name) and st.targets[0].id == x.id]
                if len(defs) == 1 and depends_on_changes(defs[0], depth + 1):
                    return True
        return False
    calls_ = [c for c in ast.walk(fn) if isinstance(c, ast.Call) and isinstance(c.func, ast.Attribute) and c.func.attr in ("detach_self", "detach") and norm(c.func.value) == "self"]
    if not calls_:
        raise Unsupported("AwareASTNode.replace: no self.detach_self() found", fn)
    for c in calls_:
        what = f"{CLS}.replace: an attached node and its children are released before the new node is built, whatever is being replaced"
        bad = None
        x: ast.AST = c
        while id(x) in parent:
            up = parent[id(x)]
            if isinstance(up, ast.If) and x is not up.test and depends_on_changes(up.test):
                bad = norm(up.test)[:60]
            x = up
        if bad:
            ck.violation("R-LEG-LINK", f, c, what, positive=True,
                         construct=f"{CLS}.replace: {norm(c)} only under `{bad}`, which is computed from the replaced values — children the new node drops (a field set to None / ()) stay attached and keep claiming a position in it")
        else:
            ck.holds("R-LEG-LINK", f, c, what)


def r_leg_eq_search(ck: Checker, rule: str = "R-LEG-IDENT") -> None:
    """Legacy nodes have a structural __eq__ (twins are ==).  `seq.index(node)`, `seq.remove(node)`, `seq.count(node)` and `node in seq`
    find the first *equal* element: for a node sitting behind an equal sibling that is another object at another position
    (positive pattern: such a search for self / a node-valued parameter in the legacy node module)."""
    from .state_rules import _raw_functions
    m_ = ck.repo.mod(LNODE)
    n = 0
    for q, fn, cls in _raw_functions(m_):
        if cls is None or cls.name != CLS:
            continue
        nodeish = {"self"} | {a.arg for a in fn.args.args if a.annotation is not None and "ASTNode" in norm(a.annotation)}
        bad = None
        for x in ast.walk(fn):
            if isinstance(x, ast.Call) and isinstance(x.func, ast.Attribute) and x.func.attr in ("index", "remove", "count") and len(x.args) >= 1 \
                    and isinstance(x.args[0], ast.Name) and x.args[0].id in nodeish:
                bad = x
            elif isinstance(x, ast.Compare) and len(x.ops) == 1 and isinstance(x.ops[0], (ast.In, ast.NotIn)) and isinstance(x.left, ast.Name) and x.left.id in nodeish \
                    and not isinstance(x.comparators[0], (ast.Dict, ast.Set)) and not any(k in norm(x.comparators[0]) for k in ("_nodes", "seen", "visited", "ids")):
                tgt = x.comparators[0]
                # membership in a list / tuple of nodes compares with == ; in a dict / set it hashes first (legacy nodes hash by id)
                if isinstance(tgt, (ast.List, ast.Tuple)) or any(k in norm(tgt) for k in ("children", "getattr(", "siblings", "get_child_nodes")):
                    bad = x
        n += 1
        what = f"{q}: a node is looked for among nodes by identity / recorded position, not by equality (twins are ==)"
        if bad is not None:
            ck.violation(rule, (m_.rel, q), bad, what, positive=True,
                         construct=f"{q}: {norm(bad)[:60]} finds the first *equal* node — behind an equal sibling that is another object at another position")
    ck.holds(rule, (m_.rel, f"{CLS}.*"), None, "no method of the legacy node class looks a node up among nodes by equality (index / remove / count / `in` over a sequence of nodes)", evaluations=n)


def r_leg_pop_as_test(ck: Checker) -> None:
    """Legacy ids are not unique among objects (a detached clone has the id of the attached original).  What `_nodes.pop(X.id, None)` /
    `_nodes.get(X.id)` returns says whether *some* node is registered under that id, not whether X is: using the result as "X was
    attached" unregisters / misjudges an unrelated node (positive pattern: the result of a pop keyed by a node's id is used as a value)."""
    from .state_rules import _raw_functions
    m_ = ck.repo.mod(LNODE)
    n = 0
    for q, fn, _cls in _raw_functions(m_):
        parent = {id(c): p_ for p_ in ast.walk(fn) for c in ast.iter_child_nodes(p_)}
        for x in ast.walk(fn):
            if isinstance(x, ast.Call) and isinstance(x.func, ast.Attribute) and x.func.attr == "pop" and norm(x.func.value).endswith("_nodes") and x.args \
                    and isinstance(x.args[0], ast.Attribute) and x.args[0].attr == "id":
                n += 1
                used = not isinstance(parent.get(id(x)), ast.Expr)
                what = f"{q}: whether a node is attached is read from the node (`detached`), not from what the registry holds under its id"
                if used:
                    ck.violation("R-LEG-IDENT", (m_.rel, q), x, what, positive=True,
                                 construct=f"{q}: the result of {norm(x)[:50]} is used as a value — another node registered under the same id (a detached clone's original) is removed and taken for this one")
                else:
                    ck.holds("R-LEG-IDENT", (m_.rel, q), x, what)
    if n == 0:
        ck.holds("R-LEG-IDENT", (m_.rel, "*"), None, "no registry pop keyed by a node's id in the legacy node module")


def r_leg_rekey(ck: Checker) -> None:
    """Children name their parent by *id*: when the id of an existing node V is rewritten, the children of V must be pointed at the
    new id (V._attach / V.attach / V._attach_inner do it, or an explicit loop) on every path that completes normally."""
    n_sites = 0
    for f in ck.repo.functions([ck.repo.mod(LNODE)]):
        fn = f.node
        sites = [st for st in walk_body(fn.body) if isinstance(st, ast.Expr) and isinstance(st.value, ast.Call) and dotted(st.value.func) in ("object.__setattr__", "setattr")
                 and len(st.value.args) == 3 and isinstance(st.value.args[1], ast.Constant) and st.value.args[1].value == "id"]
        for st in sites:
            v = norm(st.value.args[0])
            if v == "self" and f.qualname.endswith(".__post_init__"):
                continue  # the node under construction: its children are linked by the attach that ends __post_init__
            in_handler = any(st in list(walk_body(h.body)) for t in walk_body(fn.body) if isinstance(t, ast.Try) for h in t.handlers)
            if in_handler:
                continue  # compensation on a failure exit is C19's subject
            n_sites += 1
            what = f"{f.qualname}: after the id of {v} is rewritten its children are re-linked ({v}._attach…) on every normally completing path"
            cont = _continuation(fn, st)
            leaves = decision_tree(cont, try_as_body=True, max_atoms=14)
            bad = None
            for lf in leaves:
                if lf.outcome == "raise":
                    continue
                ok = False
                for x in lf.stmts:
                    for c in ast.walk(x):
                        if isinstance(c, ast.Call) and isinstance(c.func, ast.Attribute) and norm(c.func.value) == v and c.func.attr in ("_attach", "attach", "_attach_inner"):
                            ok = True
                        if isinstance(c, ast.Call) and isinstance(c.func, ast.Attribute) and c.func.attr == "_set_parent" and c.args and norm(c.args[0]) == v:
                            ok = True
                if not ok:
                    cond = ", ".join(f"{k}={val}" for k, val in lf.assign.items()) or "every path"
                    bad = f"{f.qualname}: on the path [{cond}] the id of {v} is rewritten but its children keep the old parent id ({v}._attach is not called): child.parent no longer resolves to {v}"
                    break
            if bad:
                ck.violation("R-LEG-LINK", f, st, what, evaluations=len(leaves), construct=bad)
            else:
                ck.holds("R-LEG-LINK", f, st, what, evaluations=len(leaves))
    if n_sites < 2:
        raise Unsupported(f"only {n_sites} id rewrites of existing legacy nodes found (2 confirmed by hand in replace_with)", None)


def r_leg_live_links(ck: Checker) -> None:
    """The upward queries answer from the live parent links; the calculated xpath is a snapshot (`calculate_xpath` has to be called again
    after the tree changed), so an answer derived from it disagrees with the structure after the next mutation.  Likewise the downward
    accessors are recomputed on every call: a copy kept on the node goes stale when a twin with equal content takes a child's place."""
    for q in ("ancestors", "get_depth", "is_ancestor", "parent", "parent_field", "parent_index"):
        if not ck.repo.has_func(LNODE, f"{CLS}.{q}"):
            continue
        f = ck.repo.func(LNODE, f"{CLS}.{q}")
        what = f"{CLS}.{q} answers from the parent links, never from the cached xpath"
        reads = [n for n in ast.walk(f.node) if isinstance(n, ast.Attribute) and n.attr in ("xpath", "_xpath")] + \
            [c for c in ast.walk(f.node) if isinstance(c, ast.Call) and dotted(c.func) == "getattr" and len(c.args) >= 2 and isinstance(c.args[1], ast.Constant) and c.args[1].value in ("_xpath", "xpath")]
        if reads:
            ck.violation("R-LEG-IDENT", f, reads[0], what, positive=True, construct=f"{CLS}.{q} reads the last calculated xpath: after the tree is changed (a new parent above the root, a subtree moved) "
                         "the answer no longer agrees with the parent chain")
        else:
            ck.holds("R-LEG-IDENT", f, f.node, what)
    for q in ("children", "get_child_nodes", "get_child_nodes_with_field", "get_properties", "get_child_fields"):
        if not ck.repo.has_func(LNODE, f"{CLS}.{q}"):
            continue
        f = ck.repo.func(LNODE, f"{CLS}.{q}")
        what = f"{CLS}.{q} is computed from the fields on every call (no copy is kept on the node)"
        stores = [c for c in ast.walk(f.node) if isinstance(c, ast.Call) and dotted(c.func) in ("object.__setattr__", "setattr") and c.args and norm(c.args[0]) == "self"] + \
            [n for n in ast.walk(f.node) if isinstance(n, (ast.Attribute, ast.Subscript)) and isinstance(n.ctx, ast.Store) and norm(n.value).startswith("self")]
        if stores:
            ck.violation("R-LEG-IDENT", f, stores[0], what, positive=True, construct=f"{CLS}.{q} keeps a copy of its answer on the node ({norm(stores[0])[:50]}): replacing a child by a twin with equal "
                         "content leaves the copy pointing at the detached node")
        else:
            ck.holds("R-LEG-IDENT", f, f.node, what)


def r_leg_digest(ck: Checker) -> None:
    f = ck.repo.func(LNODE, f"{CLS}._set_content_id")
    sinks = [s for s in contributions(f) if s.attr == "content_id"]
    if len(sinks) != 1:
        raise Unsupported(f"legacy _set_content_id: {len(sinks)} content_id sinks", f.node)
    s = sinks[0]
    tops = [x for x in s.segs if isinstance(x, Dyn)]
    loops = [x for x in s.segs if isinstance(x, Loop)]
    bad = []
    if not any(d.src in ("self.__class__.__name__", "type(self).__name__") and d.spec is None for d in tops):
        bad.append("class name missing")
    props = [lp for lp in loops if "get_properties(" in norm(lp.iter)]
    kids = [lp for lp in loops if "get_child_nodes_with_field(" in norm(lp.iter)]
    if len(props) != 1 or len(kids) != 1:
        bad.append(f"{len(props)} property loops / {len(kids)} child loops")
    else:
        p, k = props[0], kids[0]
        it = norm(p.iter)
        for flag in ("skip_id=True", "skip_origin=True", "skip_original_id=True", "skip_id_collision_with=True", "skip_hidden=True", "skip_non_compare=True"):
            if flag not in it:
                bad.append(f"property loop without {flag}")
        if not it.startswith("sorted(") or "key=lambda _b0: _b0[1].name" not in alpha(p.iter):
            bad.append("properties not sorted by field name")
        val, fld = (norm(x) for x in p.targets.elts)
        d = [x for x in p.body if isinstance(x, Dyn)]
        if not any(x.src == f"{fld}.name" and x.spec is None for x in d):
            bad.append("property name missing")
        if not any(x.src == val and x.conv in ("s", "r") and x.spec is None for x in d):
            bad.append("property value missing / truncated")
        itk = norm(k.iter)
        if not itk.startswith("sorted(") or "key=lambda _b0: (_b0[1].name, _b0[2] or -1)" not in alpha(k.iter):
            bad.append("children not sorted by (field name, index)")
        c, fl, ix = (norm(x) for x in k.targets.elts)
        d = [x for x in k.body if isinstance(x, Dyn)]
        if not any(x.src == f"{fl}.name" and x.spec is None for x in d):
            bad.append("child field name missing")
        if not any(x.src in (ix, f"{ix} or -1") and x.spec is None for x in d):
            bad.append("child index missing")
        if not any(x.src in (f"getattr({c}, 'content_id', '')", f"{c}.content_id") and x.spec is None for x in d):
            bad.append("child content_id missing")
    alld = tops + [x for lp in loops for x in lp.body if isinstance(x, Dyn)]
    forb = [x.src for x in alld if "origin" in x.src or x.src.endswith(".id") or "parent" in x.src or "id(" in x.src or "time" in x.src]
    if forb:
        bad.append(f"forbidden source {forb}")
    what = ("legacy content_id digest input: class name, comparable visible properties sorted by name (name + value), children sorted by "
            "(field, index) with field, index and the child's content_id; nothing from origin, id or parent")
    (ck.violation if bad else ck.holds)("R-LEG-DIGEST", f, f.node, what, **({"construct": f"legacy content_id digest input: {bad[0]}"} if bad else {"contribution_list": describe(s.segs)}))


def run(ck: Checker) -> None:
    ck.explanation = (
        "Necessary conditions on the hand-maintained redundancy of the legacy parent-aware nodes: identity comparisons in the upward queries, "
        "content-id propagation along the whole parent chain whenever a child is removed or differs, exact (parent, field, index) links "
        "wherever a child is stored (attach, replace-child incl. the -1 shift of later siblings), unlinking and registry pop in detach, and the "
        "dependence of the legacy content digest. Consistency over histories is a reachability statement and is not decided by static analysis."
    )
    ck.rule_text = "one obligation per primitive / decided function"
    ck.assumptions += ["weak registry semantics", "no node object is placed at two positions (premise of the property)"]
    from . import state_rules as SPOS
    ck.guard("R-LEG-LINK", lambda: SPOS.r_position_presence(ck, "R-LEG-LINK", "pyoak.legacy.node", "the restored / rewritten position of the first element of a sequence is 0"))
    ck.guard("R-LEG-IDENT", lambda: r_leg_ident(ck))
    ck.guard("R-LEG-PROPAGATE", lambda: r_leg_propagate(ck))
    ck.guard("R-LEG-LINK", lambda: r_leg_link(ck))
    ck.guard("R-LEG-LINK", lambda: r_leg_rekey(ck))
    ck.guard("R-LEG-LINK", lambda: r_leg_swap_uncond(ck))
    ck.guard("R-LEG-LINK", lambda: r_leg_release_uncond(ck))
    ck.guard("R-LEG-IDENT", lambda: r_leg_eq_search(ck))
    ck.guard("R-LEG-IDENT", lambda: r_leg_pop_as_test(ck))
    from . import state_rules as S_c
    ck.guard("R-LEG-LINK", lambda: S_c.r_class_attr_cache(ck, "R-LEG-LINK", (LNODE,)))
    ck.guard("R-LEG-LINK", lambda: S_c.r_class_keyed_memo(ck, "R-LEG-LINK", (LNODE,), "which fields hold children is asked of every node: an untyped field holds a child in one instance and a plain value in the next"))
    from . import state_rules as S_
    ck.guard("R-LEG-DIGEST", lambda: S_.r_unstable_key(ck, "R-LEG-DIGEST", [(LNODE, "AwareASTNode")], "ids move between legacy nodes (replace_with hands the old id to the new node)"))
    ck.guard("R-LEG-IDENT", lambda: r_leg_live_links(ck))
    ck.guard("R-LEG-DIGEST", lambda: r_leg_digest(ck))
    from .c20 import r_legacy_presence, r_xpath_spell
    ck.guard("R-LEG-XPATH-SPELL", lambda: r_xpath_spell(ck))
    ck.guard("R-PRESENCE", lambda: r_legacy_presence(ck))
    ck.require_count("R-LEG-LINK", 8)
    ck.require_count("R-LEG-PROPAGATE", 3)
