"""Rules over the code templates of pyoak.codegen (shared by C01 C02 C03 C05 C09 C10 C12)."""
from __future__ import annotations

import ast
import itertools

from ..astutil import dotted, is_const, is_none, norm, walk_body
from ..finite import k_eq, k_is, k_none, Evaluator, NeedAtom, discover_atoms, equivalent
from ..report import Checker
from ..srcmodel import Func, Unsupported
from ..templates import CODEGEN, FIELD, GENERATORS, Fragment, accessor_name, fragments, gen_func

FLAGS = ["skip_id", "skip_origin", "skip_content_id", "skip_non_compare", "skip_non_init"]


# --------------------------------------------------------------------------- presence
def _single_child_guard(fr: Fragment) -> tuple[ast.expr | None, list[ast.stmt]]:
    """(guard, guarded statements) of a single-child fragment."""
    st = fr.stmts
    if len(st) == 1 and isinstance(st[0], ast.If) and not st[0].orelse:
        return st[0].test, st[0].body
    if len(st) == 1 and isinstance(st[0], ast.If) and st[0].orelse and all(isinstance(x, ast.Pass) for x in st[0].body):
        return ast.UnaryOp(op=ast.Not(), operand=st[0].test), st[0].orelse
    return None, st


def r_presence(ck: Checker, rule: str = "R-PRESENCE") -> None:
    """A single child is yielded iff it is not None (identity test, never truthiness)."""
    n = 0
    for gen in ("_gen_get_child_nodes_func", "_gen_get_child_nodes_with_field_func"):
        for fr in fragments(ck.repo, gen):
            if fr.desc["is_collection"]:
                continue
            n += 1
            what = f"generated {fr.accessor}: a single child is yielded iff it is not None (identity test)"
            guard, body = _single_child_guard(fr)
            yields = [x for s in body for x in ast.walk(s) if isinstance(x, (ast.Yield, ast.YieldFrom))]
            if not yields:
                ck.violation(rule, fr.builder, fr.builder.node, what, construct=f"{fr.accessor}: single child is never yielded",
                             fragment=fr.text)
                continue
            if guard is None:
                ck.violation(rule, fr.builder, fr.builder.node, what,
                             construct=f"{fr.accessor}: single child yielded without a presence test", fragment=fr.text)
                continue
            child = f"self.{FIELD}"
            atoms = discover_atoms(guard)
            ident = k_none(child)
            if atoms == [ident]:
                n_rows, bad = equivalent(guard, lambda a: not a[ident], {ident: (True, False)})
                if not bad:
                    ck.holds(rule, fr.builder, fr.builder.node, what, evaluations=n_rows, guard=norm(guard), fragment=fr.text)
                else:
                    ck.violation(rule, fr.builder, fr.builder.node, what,
                                 construct=f"{fr.accessor}: presence guard has the wrong polarity", guard=norm(guard), rows=bad)
            elif child in atoms or any(a.startswith(("eq(", "in(")) for a in atoms):
                ck.violation(rule, fr.builder, fr.builder.node, what,
                             construct=f"{fr.accessor}: presence of a single child decided by truthiness/equality",
                             guard=norm(guard), atoms=atoms,
                             why="node classes may define __len__/__bool__/__eq__; a present falsy child would be dropped")
            else:
                raise Unsupported(f"presence guard {norm(guard)} has atoms {atoms}", fr.builder.node)
    if n < 2:
        ck.incomplete(rule, None, None, f"only {n} single-child fragments found (2 expected)")


# --------------------------------------------------------------------------- enumeration shape
ABC_NAMES = {"Iterable", "Iterator", "Collection", "Sequence", "Sized", "Container", "Reversible", "Mapping"}


def r_child_abc(ck: Checker, rule: str = "R-PRESENCE") -> None:
    """A child value is told apart as single node / tuple of nodes by `isinstance(x, tuple)` (or ASTNode), never by an
    abstract-collection test a node class can satisfy itself (a node defining __iter__ / __len__ / __contains__ is Iterable / Sized /
    Collection): the derived accessors (`children`, duplicate, visitors) must list such a node, not splice it."""
    mods = [ck.repo.mod("pyoak.node"), ck.repo.mod("pyoak.visitor"), ck.repo.mod("pyoak.tree")]
    what = "values of child fields are classified by isinstance(x, tuple) / isinstance(x, ASTNode), never by an abstract-collection test"
    n = 0
    # the accessors and operations the properties speak about (pretty printing, ASTNode._rich, is not among them)
    scope = {"ASTNode.children", "ASTNode.duplicate", "ASTNode.gather", "ASTNode.dfs", "ASTNode.bfs", "ASTNode.get_child_nodes", "ASTNode.get_child_nodes_with_field",
             "ASTNode.iter_child_fields", "ASTNode.to_properties_dict", "ASTNode.__post_init__", "Tree.__init__"}
    for f in ck.repo.functions(mods):
        src = any(isinstance(c, ast.Call) and isinstance(c.func, ast.Attribute) and c.func.attr in ("iter_child_fields", "get_child_nodes", "get_child_nodes_with_field")
                  for c in ast.walk(f.node))
        if not src or not (f.qualname in scope or f.mod.name == "pyoak.visitor"):
            continue
        for c in ast.walk(f.node):
            if isinstance(c, ast.Call) and dotted(c.func) == "isinstance" and len(c.args) == 2:
                names = {x.id for x in ast.walk(c.args[1]) if isinstance(x, ast.Name)} | {x.attr for x in ast.walk(c.args[1]) if isinstance(x, ast.Attribute)}
                if names & ABC_NAMES:
                    n += 1
                    ck.violation(rule, f, c, what, positive=True, construct=f"{f.qualname}: {norm(c)[:60]} decides how a child value is handled (a node class may satisfy this ABC)")
                    return
    # helpers of later origin (as written: they may not be inlinable, e.g. generators) that enumerate child values
    from .state_rules import _raw_functions
    for m_ in mods:
        for q, fn, _cls in _raw_functions(m_):
            if not ck.repo.is_new_helper(m_, q):
                continue
            if not any(isinstance(c, ast.Call) and isinstance(c.func, ast.Attribute) and c.func.attr in ("iter_child_fields", "get_child_nodes", "get_child_nodes_with_field") for c in ast.walk(fn)):
                continue
            for c in ast.walk(fn):
                if isinstance(c, ast.Call) and dotted(c.func) == "isinstance" and len(c.args) == 2:
                    names = {x.id for x in ast.walk(c.args[1]) if isinstance(x, ast.Name)} | {x.attr for x in ast.walk(c.args[1]) if isinstance(x, ast.Attribute)}
                    if names & ABC_NAMES:
                        ck.violation(rule, (m_.rel, q), c, what, positive=True, construct=f"{q}: {norm(c)[:60]} decides how a child value is handled (a node class may satisfy this ABC)")
                        return
    ck.holds(rule, ("src/pyoak", "node.py, visitor.py, tree.py"), None, what)
    # `children` is the list of get_child_nodes()
    ch = ck.repo.func("pyoak.node", "ASTNode.children")
    rets = [r for r in ast.walk(ch.node) if isinstance(r, ast.Return) and r.value is not None]
    what2 = "ASTNode.children is the materialised get_child_nodes() stream"
    if len(rets) == 1 and norm(rets[0].value) in ("list(self.get_child_nodes())", "[*self.get_child_nodes()]", "list(self.get_child_nodes(sort_keys=False))"):
        ck.holds(rule, ch, rets[0], what2)
    elif any("get_child_nodes(" in norm(r.value) for r in rets) and any(isinstance(c, ast.Call) and (dotted(c.func) or "") in ("dict.fromkeys", "set", "frozenset", "OrderedDict.fromkeys", "collections.OrderedDict.fromkeys")
                                                                       for r in rets for c in ast.walk(r.value)):
        ck.violation(rule, ch, ch.node, what2, positive=True, construct=f"ASTNode.children de-duplicates the stream ({[norm(r.value)[:50] for r in rets][0]}): a node that occupies two child positions "
                     "(or a twin comparing equal) is listed once, and children disagrees with get_child_nodes")
    elif any("get_child_nodes(" in norm(r.value) for r in rets):
        raise Unsupported(f"ASTNode.children returns {[norm(r.value)[:50] for r in rets]}", ch.node)
    else:
        ck.violation(rule, ch, ch.node, what2, construct=f"ASTNode.children is rebuilt from {[norm(r.value)[:50] for r in rets]} instead of get_child_nodes()")


def r_enum_shape(ck: Checker, rule: str = "R-ENUM-SHAPE") -> None:
    n = 0
    for gen in ("_gen_get_child_nodes_func", "_gen_get_child_nodes_with_field_func", "_gen_iter_child_fields_func"):
        for fr in fragments(ck.repo, gen):
            n += 1
            dep = getattr(fr, "extra_dep", None)
            if dep:
                ck.violation(rule, fr.builder, fr.builder.node, f"generated {fr.accessor} lists every child field, however the field is declared",
                             construct=f"{fr.accessor}: the emitted code for a child field changes with field.{dep} (such a child is left out / handled differently)")
                return
            with_field = fr.accessor == "get_child_nodes_with_field"
            if fr.accessor == "iter_child_fields":
                what = "generated iter_child_fields yields (self.<field>, field-of-<field>) for every child field"
                ok = (len(fr.stmts) == 1 and isinstance(fr.stmts[0], ast.Expr) and isinstance(fr.stmts[0].value, ast.Yield)
                      and isinstance(fr.stmts[0].value.value, ast.Tuple)
                      and [norm(x) for x in fr.stmts[0].value.value.elts] == [f"self.{FIELD}", f"_fld_{FIELD}"])
                (ck.holds if ok else ck.violation)(rule, fr.builder, fr.builder.node, what,
                                                   **({"fragment": fr.text} if ok else {"construct": f"iter_child_fields emits {fr.text.strip()!r}"}))
                continue
            if fr.desc["is_collection"]:
                what = (f"generated {fr.accessor}: collection fields are iterated in order"
                        + (" with enumerate from 0, yielding (elem, field, index)" if with_field else ", yielding each element"))
                st = fr.stmts
                ok = False
                why = ""
                if len(st) == 1 and isinstance(st[0], ast.For) and not st[0].orelse and len(st[0].body) == 1 \
                        and isinstance(st[0].body[0], ast.Expr) and isinstance(st[0].body[0].value, ast.Yield):
                    loop = st[0]
                    y = loop.body[0].value.value
                    if with_field:
                        it = loop.iter
                        if isinstance(it, ast.Call) and dotted(it.func) == "enumerate" and len(it.args) >= 1 and norm(it.args[0]) == f"self.{FIELD}":
                            start = it.args[1] if len(it.args) > 1 else next((k.value for k in it.keywords if k.arg == "start"), None)
                            if start is not None and not is_const(start, 0):
                                why = f"enumerate starts at {norm(start)}"
                            elif isinstance(loop.target, ast.Tuple) and len(loop.target.elts) == 2 and isinstance(y, ast.Tuple) and len(y.elts) == 3:
                                iv, ov = norm(loop.target.elts[0]), norm(loop.target.elts[1])
                                if [norm(x) for x in y.elts] == [ov, f"_fld_{FIELD}", iv]:
                                    ok = True
                                else:
                                    why = f"yields {norm(y)}"
                            else:
                                why = "unexpected loop target / yield arity"
                        else:
                            why = f"iterates {norm(it)}"
                    else:
                        if norm(loop.iter) == f"self.{FIELD}" and isinstance(loop.target, ast.Name) and y is not None and norm(y) == loop.target.id:
                            ok = True
                        else:
                            why = f"for {norm(loop.target)} in {norm(loop.iter)}: yield {norm(y) if y else None}"
                elif len(st) == 1 and isinstance(st[0], ast.Expr) and isinstance(st[0].value, ast.YieldFrom) and not with_field \
                        and norm(st[0].value.value) == f"self.{FIELD}":
                    ok = True
                else:
                    why = "not a single for/yield"
                if ok:
                    ck.holds(rule, fr.builder, fr.builder.node, what, fragment=fr.text)
                else:
                    ck.violation(rule, fr.builder, fr.builder.node, what, construct=f"{fr.accessor} collection fragment: {why}", fragment=fr.text)
            else:
                what = f"generated {fr.accessor}: a single child is yielded as " + ("(self.<field>, field-of-<field>, None)" if with_field else "self.<field>")
                _, body = _single_child_guard(fr)
                ys = [x for s in body for x in ast.walk(s) if isinstance(x, ast.Yield)]
                exp = [f"self.{FIELD}", f"_fld_{FIELD}", "None"] if with_field else None
                ok = len(ys) == 1 and ys[0].value is not None and (
                    ([norm(x) for x in ys[0].value.elts] == exp) if (with_field and isinstance(ys[0].value, ast.Tuple)) else
                    (not with_field and norm(ys[0].value) == f"self.{FIELD}"))
                if ok:
                    ck.holds(rule, fr.builder, fr.builder.node, what, fragment=fr.text)
                else:
                    ck.violation(rule, fr.builder, fr.builder.node, what,
                                 construct=f"{fr.accessor} single fragment yields {[norm(y.value) if y.value else None for y in ys]}", fragment=fr.text)
    if n < 6:
        ck.incomplete(rule, None, None, f"only {n} child fragments analysed (6 expected)")


# --------------------------------------------------------------------------- flags truth table
def flags_oracle(name: str, compare: bool, init: bool, a: dict[str, bool]) -> bool:
    if name == "id":
        return not a["skip_id"]
    if name == "content_id":
        return not a["skip_content_id"]
    if name == "origin":
        return not a["skip_origin"]
    return not ((not compare and a["skip_non_compare"]) or (not init and a["skip_non_init"]))


def _yield_reached(stmts: list[ast.stmt], assign: dict[str, object]) -> list[ast.AST]:
    """Concrete walk of a loop-free fragment / loop body: the yields executed under the assignment."""
    out: list[ast.AST] = []

    class Stop(Exception):
        pass

    assign = dict(assign)

    def block(ss: list[ast.stmt]) -> None:
        for st in ss:
            if isinstance(st, ast.If):
                block(st.body if Evaluator(assign).ev(st.test) else st.orelse)
            elif isinstance(st, ast.Expr) and isinstance(st.value, (ast.Yield, ast.YieldFrom)):
                out.append(st.value)
            elif isinstance(st, (ast.Continue, ast.Return)):
                raise Stop()
            elif isinstance(st, ast.Pass) or (isinstance(st, ast.Expr) and isinstance(st.value, ast.Constant)):
                pass
            elif isinstance(st, ast.Assign) and len(st.targets) == 1 and isinstance(st.targets[0], ast.Name):
                assign[st.targets[0].id] = Evaluator(assign).ev(st.value)  # a local flag of the decision
            else:
                raise Unsupported(f"statement kind {type(st).__name__} in accessor body", st)

    try:
        block(stmts)
    except Stop:
        pass
    return out


def r_flags_tt(ck: Checker, rule: str = "R-FLAGS-TT") -> None:
    frs = fragments(ck.repo, "_gen_get_properties_func")
    n = 0
    for fr in frs:
        dep = getattr(fr, "extra_dep", None)
        if dep:
            ck.violation(rule, fr.builder, fr.builder.node,
                         "the generated get_properties code for a field depends on its name kind, compare and init only",
                         construct=f"get_properties {_dkey(fr.desc)}: the emitted code changes with field.{dep} (not part of the documented flag table)")
            return
        d = fr.desc
        n += 1
        bad = []
        rows = 0
        shape_bad = None
        for combo in itertools.product((True, False), repeat=len(FLAGS)):
            a = dict(zip(FLAGS, combo))
            rows += 1
            try:
                ys = _yield_reached(fr.stmts, a)
            except NeedAtom as e:
                raise Unsupported(f"get_properties fragment depends on {e.key}, not a skip flag", fr.builder.node)
            got = len(ys) >= 1
            if len(ys) > 1:
                shape_bad = "yields the field twice"
            for y in ys:
                if not (isinstance(y, ast.Yield) and isinstance(y.value, ast.Tuple)
                        and [norm(x) for x in y.value.elts] == [f"self.{d['name']}", f"_fld_{d['name']}"]):
                    shape_bad = f"yields {norm(y)}"
            if got != flags_oracle(d["name"], d["compare"], d["init"], a):
                bad.append({k: v for k, v in a.items() if v} | {"yielded": got})
        what = (f"generated get_properties, field kind {d['name']} compare={d['compare']} init={d['init']}: "
                "yielded exactly as the skip flags dictate (all 32 flag rows)")
        if shape_bad:
            ck.violation(rule, fr.builder, fr.builder.node, what, construct=f"get_properties {_dkey(d)}: {shape_bad}", fragment=fr.text)
        elif bad:
            ck.violation(rule, fr.builder, fr.builder.node, what, evaluations=rows,
                         construct=f"get_properties {_dkey(d)}: wrong for {len(bad)} flag rows", first_rows=bad[:4], fragment=fr.text)
        else:
            ck.holds(rule, fr.builder, fr.builder.node, what, evaluations=rows, fragment=fr.text)
    if n < 16:
        ck.incomplete(rule, None, None, f"only {n} descriptors evaluated (16 expected)")


def r_gen_signature(ck: Checker, rule: str = "R-FLAGS-TT") -> None:
    """The function a generator installs replaces the public method of the same name: its parameter list (as the generator computes it, by
    partial evaluation) has the parameters of the public signature in the same positional order, with the same defaults and the same
    keyword-only part — a caller passing the flags positionally reaches the same flags before and after specialisation."""
    from ..geneval import Fld, TypeInfo, run_generator
    pairs = (("_gen_get_properties_func", "ASTNode.get_properties", "name"), ("_gen_get_child_nodes_func", "ASTNode.get_child_nodes", "kid"),
             ("_gen_get_child_nodes_with_field_func", "ASTNode.get_child_nodes_with_field", "kid"), ("_gen_iter_child_fields_func", "ASTNode.iter_child_fields", "kid"))

    def sig(a: ast.arguments) -> tuple:
        pos = [x.arg for x in a.posonlyargs + a.args if x.arg != "self"]
        dpos = [norm(d) for d in a.defaults]
        kwo = [(x.arg, norm(d) if d is not None else None) for x, d in zip(a.kwonlyargs, a.kw_defaults)]
        return (pos, dpos[-len(pos):] if pos else [], sorted(kwo), a.vararg is not None, a.kwarg is not None)
    for gen, public, fname in pairs:
        g = gen_func(ck.repo, gen)
        pub = ck.repo.func("pyoak.node", public)
        cap = run_generator(ck.repo, gen, [(Fld(fname, True, True), TypeInfo(False))])
        if not isinstance(cap.extra_args, str):
            raise Unsupported(f"{gen}: the parameter list handed to _gen_func is not text", g.node)
        try:
            emitted = ast.parse(f"def f(self, {cap.extra_args}): pass").body[0].args  # type: ignore[attr-defined]
        except SyntaxError:
            raise Unsupported(f"{gen}: emitted parameter list does not parse: {cap.extra_args!r}", g.node)
        what = f"{gen}: the generated function takes the parameters of {public} in the same order with the same defaults"
        want, got = sig((pub.raw or pub.node).args), sig(emitted)

        def defaults_of(a: ast.arguments) -> dict:
            pos_ = [x.arg for x in a.posonlyargs + a.args]
            d_ = {n_: norm(v_) for n_, v_ in zip(pos_[len(pos_) - len(a.defaults):], a.defaults)}
            d_.update({x.arg: norm(v_) for x, v_ in zip(a.kwonlyargs, a.kw_defaults) if v_ is not None})
            return d_
        dw, dg = defaults_of((pub.raw or pub.node).args), defaults_of(emitted)
        # what a documented call can observe: the public positional parameters are the leading positional parameters of the generated
        # function, and every public parameter exists there with the same default
        if got[0][:len(want[0])] == want[0] and all(dg.get(k) == v for k, v in dw.items()) and not got[3] and not got[4]:
            ck.holds(rule, g, g.node, what, parameters=cap.extra_args.strip()[:120])
        else:
            ck.violation(rule, g, g.node, what, positive=True,
                         construct=f"{gen}: generated parameters ({', '.join(got[0])}) vs public ({', '.join(want[0])}) — a positional argument reaches another flag once the class has been specialised")


def _dkey(d: dict) -> str:
    return f"name={d['name']},compare={d['compare']},init={d['init']}"


def r_accessor_sibling(ck: Checker, rule: str = "R-ACCESSOR-SIBLING") -> None:
    """The static variant get_property_fields implements the same flag table."""
    f = ck.repo.func("pyoak.node", "ASTNode.get_property_fields")
    loops = [n for n in f.node.body if isinstance(n, ast.For)]
    if len(loops) != 1:
        raise Unsupported("get_property_fields is not a single loop", f.node)
    loop = loops[0]
    if not isinstance(loop.target, ast.Name):
        raise Unsupported("loop target", loop)
    fv = loop.target.id
    what0 = "get_property_fields iterates the classifier's property mapping in declaration order"
    it = loop.iter
    if isinstance(it, ast.Call) and dotted(it.func) in ("get_cls_props",) and norm(it.args[0]) == "cls":
        ck.holds(rule, f, loop, what0, iter=norm(it))
    else:
        ck.violation(rule, f, loop, what0, construct=f"iterates {norm(it)[:60]}")
    n = 0
    for name in ("id", "content_id", "origin", FIELD):
        for compare in (True, False):
            for init in (True, False):
                if name in ("id", "content_id") and (compare or init):
                    pass  # still evaluated: the table must not depend on the declared attributes of these fields
                bad = []
                rows = 0
                for combo in itertools.product((True, False), repeat=len(FLAGS)):
                    a: dict[str, object] = dict(zip(FLAGS, combo))
                    a.update({f"{fv}.name": name, f"{fv}.compare": compare, f"{fv}.init": init})
                    rows += 1
                    try:
                        ys = _yield_reached(loop.body, a)
                    except NeedAtom as e:
                        import re as _re
                        other = [a_ for a_ in _re.findall(rf"\b{fv}\.(\w+)", e.key) if a_ not in ("name", "compare", "init")]
                        if other:
                            ck.violation(rule, f, loop, "get_property_fields decides from the field's name kind, compare and init only (the documented flag table, the same as the generated get_properties)",
                                         positive=True, construct=f"get_property_fields reads field.{other[0]} ({e.key[:60]}): a field declared with {other[0]}=... is skipped / kept against the flag table, and the static variant disagrees with the generated one")
                            return
                        raise Unsupported(f"get_property_fields depends on {e.key}", loop)
                    got = len(ys) >= 1
                    if any(not (isinstance(y, ast.Yield) and y.value is not None and norm(y.value) == fv) for y in ys) or len(ys) > 1:
                        bad.append({"shape": [norm(y) for y in ys]})
                    elif got != flags_oracle(name, compare, init, a):  # type: ignore[arg-type]
                        bad.append({k: v for k, v in a.items() if v is True} | {"yielded": got})
                n += 1
                d = {"name": name, "compare": compare, "init": init}
                what = (f"get_property_fields, field kind {name} compare={compare} init={init}: same flag table as get_properties "
                        "(all 32 flag rows)")
                if bad:
                    ck.violation(rule, f, loop, what, evaluations=rows,
                                 construct=f"get_property_fields {_dkey(d)}: wrong for {len(bad)} flag rows", first_rows=bad[:4])
                else:
                    ck.holds(rule, f, loop, what, evaluations=rows)
    # signature defaults of the static variant equal those of get_properties
    g = ck.repo.func("pyoak.node", "ASTNode.get_properties")
    gp = ck.repo.func(CODEGEN, "gen_and_yield_get_properties")

    def defaults(fn: ast.FunctionDef) -> dict[str, str]:
        a = fn.args
        pos = a.posonlyargs + a.args
        out = {}
        for p, dflt in zip(pos[len(pos) - len(a.defaults):], a.defaults):
            out[p.arg] = norm(dflt)
        for p, dflt in zip(a.kwonlyargs, a.kw_defaults):
            if dflt is not None:
                out[p.arg] = norm(dflt)
        return out

    d1, d2, d3 = defaults(f.node), defaults(g.node), defaults(gp.node)
    what = "get_property_fields / get_properties / the bootstrap function have the same flag defaults"
    flags1 = {k: v for k, v in d1.items() if k in FLAGS}
    if flags1 == {k: v for k, v in d2.items() if k in FLAGS} == {k: v for k, v in d3.items() if k in FLAGS} and len(flags1) == 5:
        ck.holds(rule, f, f.node, what, defaults=flags1)
    else:
        ck.violation(rule, f, f.node, what, construct=f"flag defaults differ: {d1} vs {d2} vs {d3}")
    if n < 16:
        ck.incomplete(rule, None, None, "fewer than 16 descriptors evaluated")


# --------------------------------------------------------------------------- purity of emitted code
def r_gen_pure(ck: Checker, rule: str = "R-GEN-PURE") -> None:
    n = 0
    for gen in GENERATORS:
        for fr in fragments(ck.repo, gen):
            n += 1
            bad = None
            for st in fr.stmts:
                for x in ast.walk(st):
                    if isinstance(x, (ast.Assign, ast.AugAssign, ast.AnnAssign, ast.Delete, ast.Global, ast.Nonlocal, ast.NamedExpr)):
                        bad = x
                    if isinstance(x, (ast.Attribute, ast.Subscript)) and isinstance(x.ctx, (ast.Store, ast.Del)):
                        bad = x
                    if isinstance(x, ast.Call) and dotted(x.func) not in ("enumerate", "iter", "range", "len"):
                        bad = x
            what = f"generated {fr.accessor} fragment contains no store and no call besides enumerate"
            if bad is not None:
                ck.violation(rule, fr.builder, fr.builder.node, what, construct=f"{fr.accessor} emits {norm(bad)[:60]}", fragment=fr.text)
            else:
                ck.holds(rule, fr.builder, fr.builder.node, what, desc=fr.desc)
    if n < 22:
        ck.incomplete(rule, None, None, f"only {n} fragments (22 expected)")



TABLES = ("_TYPE_TO_CHILD_FIELDS", "_TYPE_TO_PROPS", "_TYPE_TO_ALL_FIELDS")


def populate_summary(stmts: list[ast.stmt]) -> tuple[dict[str, dict[str, object]], list[str]]:
    """Symbolic store of _populate_type_dicts along one path.  Values: "CH"/"PR" (the two results of
    process_node_fields(cls, ASTNode)), ("merge", a, b) for {**a, **b}, "?" otherwise."""
    env: dict[str, object] = {}
    tables: dict[str, dict[str, object]] = {t: {} for t in TABLES}
    problems: list[str] = []
    aliases: dict[str, str] = {}

    def val(e: ast.expr) -> object:
        if isinstance(e, ast.Name):
            return env.get(e.id, "?")
        if isinstance(e, ast.Attribute) and isinstance(e.value, ast.Name) and isinstance(env.get(e.value.id), tuple) and env[e.value.id][0] == "RECORD":  # type: ignore[index]
            return env[e.value.id][1].get(e.attr, "?")  # type: ignore[index]
        if isinstance(e, ast.Subscript) and norm(e.value) in TABLES:
            return tables[norm(e.value)].get(norm(e.slice), "?")
        if isinstance(e, ast.Dict) and all(k is None for k in e.keys) and len(e.values) == 2:
            return ("merge", val(e.values[0]), val(e.values[1]))
        if isinstance(e, ast.BinOp) and isinstance(e.op, ast.BitOr):
            return ("merge", val(e.left), val(e.right))
        if isinstance(e, ast.Call) and dotted(e.func) == "dict" and len(e.args) == 1 and len(e.keywords) == 1 and e.keywords[0].arg is None:
            return ("merge", val(e.args[0]), val(e.keywords[0].value))
        if isinstance(e, ast.Call) and dotted(e.func) in ("MappingProxyType", "types.MappingProxyType", "dict") and len(e.args) == 1 and not e.keywords:
            return val(e.args[0])
        return "?"

    def store(t: ast.expr, v: object) -> None:
        if isinstance(t, ast.Name):
            env[t.id] = v
        elif isinstance(t, ast.Subscript) and norm(t.value) in TABLES:
            tables[norm(t.value)][norm(t.slice)] = v
        elif isinstance(t, ast.Subscript):
            problems.append(f"store into {norm(t)[:40]}")

    for st in stmts:
        if isinstance(st, ast.Expr) and isinstance(st.value, ast.Call) and isinstance(st.value.func, ast.Attribute) and st.value.func.attr == "update" \
                and isinstance(st.value.func.value, ast.Name) and len(st.value.args) == 1 and not st.value.keywords:
            # X.update(B) on a local copy: X holds the merge of what it held and B
            x = st.value.func.value.id
            merged = ("merge", env.get(x, "?"), val(st.value.args[0]))
            root = aliases.get(x, x)
            for nm in [n_ for n_ in list(env) if aliases.get(n_, n_) == root] + [x]:
                env[nm] = merged  # every name of the same object sees the update
            continue
        if not isinstance(st, (ast.Assign, ast.AnnAssign)) or st.value is None:
            continue
        targets = st.targets if isinstance(st, ast.Assign) else [st.target]
        v = st.value
        if isinstance(v, ast.Call) and dotted(v.func) == "process_node_fields":
            if [norm(x) for x in v.args] != ["cls", "ASTNode"] or v.keywords:
                problems.append(f"classifier called as {norm(v)[:60]}")
            for t in targets:
                if isinstance(t, ast.Tuple) and len(t.elts) == 2:
                    store(t.elts[0], "CH")
                    store(t.elts[1], "PR")
                elif isinstance(t, ast.Name):
                    env[t.id] = "PAIR"
            continue
        # a private NamedTuple of later origin wrapped around the pair: R(*process_node_fields(cls, ASTNode)) / R(*pair) / R(a, b)
        from ..normalize import NAMEDTUPLE_FIELDS
        if isinstance(v, ast.Call) and (dotted(v.func) or "") in NAMEDTUPLE_FIELDS and not v.keywords and len(targets) == 1 \
                and isinstance(targets[0], ast.Name):
            names_ = [n_ for n_, _d in NAMEDTUPLE_FIELDS[dotted(v.func)]]
            parts: list[object] | None = None
            if len(v.args) == 1 and isinstance(v.args[0], ast.Starred):
                inner = v.args[0].value
                if len(names_) != 2:
                    pass
                elif isinstance(inner, ast.Call) and dotted(inner.func) == "process_node_fields":
                    if [norm(x) for x in inner.args] != ["cls", "ASTNode"] or inner.keywords:
                        problems.append(f"classifier called as {norm(inner)[:60]}")
                    parts = ["CH", "PR"]
                elif isinstance(inner, ast.Name) and env.get(inner.id) == "PAIR":
                    parts = ["CH", "PR"]
            elif len(v.args) == len(names_) and not any(isinstance(a_, ast.Starred) for a_ in v.args):
                parts = [val(a_) for a_ in v.args]
            if parts is not None:
                env[targets[0].id] = ("RECORD", dict(zip(names_, parts)))
                continue
        if isinstance(v, ast.Attribute) and isinstance(v.value, ast.Name) and isinstance(env.get(v.value.id), tuple) and env[v.value.id][0] == "RECORD":  # type: ignore[index]
            for t in targets:
                store(t, env[v.value.id][1].get(v.attr, "?"))  # type: ignore[index]
            continue
        if isinstance(v, ast.Subscript) and isinstance(v.value, ast.Name) and env.get(v.value.id) == "PAIR" and isinstance(v.slice, ast.Constant):
            for t in targets:
                store(t, "CH" if v.slice.value == 0 else "PR" if v.slice.value == 1 else "?")
            continue
        if isinstance(v, ast.Name) and env.get(v.id) == "PAIR" and len(targets) == 1 and isinstance(targets[0], ast.Tuple) and len(targets[0].elts) == 2:
            store(targets[0].elts[0], "CH")
            store(targets[0].elts[1], "PR")
            continue
        for t in targets:
            if isinstance(t, ast.Tuple) and isinstance(v, ast.Tuple) and len(t.elts) == len(v.elts):
                vals = [val(x) for x in v.elts]
                for tt, vv in zip(t.elts, vals):
                    store(tt, vv)
            else:
                store(t, val(v))
                if isinstance(t, ast.Name) and isinstance(v, ast.Name):
                    aliases[t.id] = aliases.get(v.id, v.id)
                elif isinstance(t, ast.Name):
                    aliases.pop(t.id, None)
    return tables, problems


def r_types_cache(ck: Checker, rule: str = "R-TYPES-CACHE") -> None:
    """The per-class field tables are computed for exactly the class asked for, on every path, by the authoritative classifier."""
    from ..dtree import decision_tree
    from ..finite import k_none

    f = ck.repo.func("pyoak.types", "_populate_type_dicts")
    body = [st for st in f.node.body if not isinstance(st, (ast.Import, ast.ImportFrom)) and not (isinstance(st, ast.Expr) and isinstance(st.value, ast.Constant))]
    leaves = decision_tree(body, max_atoms=6)
    bad = []
    want = {"_TYPE_TO_CHILD_FIELDS": "CH", "_TYPE_TO_PROPS": "PR", "_TYPE_TO_ALL_FIELDS": ("merge", "CH", "PR")}
    # a positive pattern: an entry is put into a table before the classifier has run (a failing classification leaves it behind)
    calls_ = [c for c in walk_body(body) if isinstance(c, ast.Call) and dotted(c.func) == "process_node_fields"]
    if calls_:
        holders = [st_ for st_ in walk_body(body) if isinstance(st_, ast.stmt) and not isinstance(st_, (ast.If, ast.For, ast.While, ast.Try, ast.With))
                   and any(c is x_ for c in calls_ for x_ in ast.walk(st_))]
        first_line = min((st_.lineno, st_.col_offset) for st_ in holders) if holders else (10**9, 0)
        for n_ in walk_body(body):
            early = None
            if isinstance(n_, ast.Call) and isinstance(n_.func, ast.Attribute) and n_.func.attr in ("setdefault", "__setitem__", "update") and norm(n_.func.value) in TABLES:
                early = n_
            elif isinstance(n_, ast.Subscript) and isinstance(n_.ctx, ast.Store) and norm(n_.value) in TABLES:
                early = n_
            if early is not None and (early.lineno, early.col_offset) < first_line:
                ck.violation(rule, f, early, "the per-class tables get their entry only after process_node_fields(cls, ASTNode) has succeeded", positive=True,
                             construct=f"_populate_type_dicts: {norm(early)[:60]} creates the entry before the fields are classified: when the classification raises "
                             "(unresolved forward reference, invalid annotation) an empty entry stays behind and later lookups are answered from it")
                return
    # the entries are the classifier's verdicts themselves: a FieldTypeInfo re-derived with get_type_info(...) carries the ABC-based
    # `is_collection` flag (a node class implementing the Collection protocol in a single child field becomes a sequence of children)
    rederive = [c for fn_ in (f.raw, f.node) if fn_ is not None for c in ast.walk(fn_) if isinstance(c, ast.Call) and (dotted(c.func) or "").split(".")[-1] == "get_type_info"]
    if rederive:
        ck.violation(rule, f, rederive[0], "the per-class tables hold what process_node_fields returned (the classifier's own FieldTypeInfo per field)", positive=True,
                     construct=f"_populate_type_dicts: {norm(rederive[0])[:60]} re-derives the field info: for a child field the sequence flag then comes from an abstract-collection test "
                     "instead of from the annotation being a tuple")
        return
    # entries for *other* classes (bases back-filled from the subclass's tables): positive pattern — a loop over the MRO / the bases in
    # _populate_type_dicts that stores into the tables (directly or through a helper that does)
    raw_ = f.raw or f.node
    storing_helpers = {st.name for st in ck.repo.mod("pyoak.types").tree.body if isinstance(st, ast.FunctionDef)
                       and any(isinstance(x, ast.Subscript) and isinstance(x.ctx, ast.Store) and norm(x.value) in TABLES for x in ast.walk(st))}
    for lp_ in [x for x in ast.walk(raw_) if isinstance(x, ast.For)]:
        it_txt = norm(lp_.iter)
        if not any(k in it_txt for k in ("__mro__", "__bases__", "mro()", "getmro(")):
            continue
        for n_ in ast.walk(lp_):
            direct = isinstance(n_, ast.Subscript) and isinstance(n_.ctx, ast.Store) and norm(n_.value) in TABLES
            via = isinstance(n_, ast.Call) and isinstance(n_.func, ast.Name) and n_.func.id in storing_helpers
            if direct or via:
                ck.violation(rule, f, n_, "_populate_type_dicts fills the tables of the class it was asked for, and of no other class", positive=True,
                             construct=f"_populate_type_dicts: {norm(n_)[:60]} inside the loop over {it_txt[:30]} enters tables for other classes of the hierarchy — a base class gets what "
                             "the subclass's classification says about it (an overridden field lands in neither table, an invalid base annotation is never rejected)")
                return
    # the same defect spelled incrementally: the tables are filled field by field while a classifier stream is still being consumed
    for lp_ in [x for x in ast.walk(f.raw or f.node) if isinstance(x, ast.For)]:
        it_ = lp_.iter
        streaming = isinstance(it_, ast.Call) and not (dotted(it_.func) or "").split(".")[-1] in ("items", "keys", "values", "list", "tuple", "sorted", "dict", "enumerate", "zip")
        if not streaming:
            continue
        for n_ in ast.walk(lp_):
            hit = None
            if isinstance(n_, ast.Call) and isinstance(n_.func, ast.Attribute) and n_.func.attr in ("setdefault", "__setitem__", "update") and norm(n_.func.value) in TABLES:
                hit = n_
            elif isinstance(n_, ast.Subscript) and isinstance(n_.ctx, ast.Store) and norm(n_.value) in TABLES:
                hit = n_
            elif isinstance(n_, ast.Call) and isinstance(n_.func, ast.Attribute) and n_.func.attr == "setdefault" and isinstance(n_.func.value, ast.Name):
                # table = A if c else B; table.setdefault(cls, {})
                defs_ = [st_.value for st_ in ast.walk(lp_) if isinstance(st_, ast.Assign) and len(st_.targets) == 1 and norm(st_.targets[0]) == n_.func.value.id]
                if defs_ and any(isinstance(x_, ast.Name) and x_.id in TABLES for d_ in defs_ for x_ in ast.walk(d_)):
                    hit = n_
            if hit is not None:
                ck.violation(rule, f, hit, "the per-class tables get their entry only after the classification of all fields has succeeded", positive=True,
                             construct=f"_populate_type_dicts: {norm(hit)[:60]} inside the loop over {norm(it_)[:40]}: the entry exists while fields are still being classified; "
                             "when a later field is rejected (the error is raised at the end) a partial entry stays behind and the class counts as classified")
                return
    for lf in leaves:
        if lf.outcome not in ("fall", "return"):
            bad.append(f"path leaves by {lf.outcome}")
            continue
        tables, problems = populate_summary(lf.stmts)
        bad += problems
        for t, exp in want.items():
            got = tables[t]
            if set(got) - {"cls"}:
                bad.append(f"table keyed by {sorted(set(got) - {'cls'})[0]}")
            if "cls" not in got:
                bad.append(f"a path leaves {t}[cls] unfilled (condition {lf.assign or 'always'})")
            elif got["cls"] != exp:
                if got["cls"] == "?" or (isinstance(got["cls"], tuple) and "?" in got["cls"]):
                    others = [norm(x)[:70] for x in lf.stmts if t in norm(x)]
                    if not any("process_node_fields" in norm(x) for x in lf.stmts):
                        bad.append(f"a path fills the tables without process_node_fields(cls, ASTNode) (condition {lf.assign or 'always'})")
                    else:
                        raise Unsupported(f"_populate_type_dicts: {t}[cls] filled by {others}", f.node)
                else:
                    bad.append(f"{t}[cls] is filled with {got['cls']} instead of {exp}")
    what = "_populate_type_dicts fills the three per-class tables from process_node_fields(cls, ASTNode) on every path (no sharing with a base class)"
    (ck.violation if bad else ck.holds)(rule, f, f.node, what, evaluations=len(leaves), **({"construct": f"_populate_type_dicts: {bad[0]}"} if bad else {}))
    for q, table in (("get_cls_all_fields", "_TYPE_TO_ALL_FIELDS"), ("get_cls_child_fields", "_TYPE_TO_CHILD_FIELDS"), ("get_cls_props", "_TYPE_TO_PROPS")):
        g = ck.repo.func("pyoak.types", q)
        b = [st for st in g.node.body if not (isinstance(st, ast.Expr) and isinstance(st.value, ast.Constant))]
        cp = g.node.args.args[0].arg
        what = f"{q}(cls) populates on a miss and returns the table entry of exactly that class"
        k_in, k_get = f"in({cp},{table})", k_none(f"{table}.get({cp})")
        gbad = None
        gl = decision_tree(b, resolve=True)
        for lf in gl:
            if set(lf.assign) - {k_in, k_get}:
                raise Unsupported(f"{q} decides on {sorted(lf.assign)}", g.node)
            hit = lf.assign.get(k_in) if k_in in lf.assign else (not lf.assign[k_get] if k_get in lf.assign else None)
            pops = [c for st in list(lf.stmts) + ([lf.value] if lf.value is not None else []) for c in ast.walk(st) if isinstance(c, ast.Call) and dotted(c.func) == "_populate_type_dicts"]
            if hit is None:
                gbad = "the table is not consulted"
            elif hit and pops:
                gbad = "re-populates on a hit"
            elif not hit and not (len(pops) == 1 and [norm(x) for x in pops[0].args] == [cp]):
                gbad = f"a miss does not populate the tables for {cp}"
            if lf.outcome != "return" or lf.val() not in (f"{table}[{cp}]",) + ((f"{table}.get({cp})",) if hit else ()):
                if not gbad and not hit and "_populate_type_dicts(" in (lf.val() or ""):
                    # the populating function hands back what it has just stored: which of its results that is, is not read here
                    raise Unsupported(f"{q}: a miss returns {lf.val()[:60]} (a result of the populating call, not the table entry)", g.node)
                gbad = gbad or f"returns {lf.val()}"
        (ck.holds if not gbad else ck.violation)(rule, g, g.node, what, **({"evaluations": len(gl)} if not gbad else {"construct": f"{q}: {gbad}"}))


# --------------------------------------------------------------------------- order key / reinstall
def _field_of(st: ast.stmt) -> str | None:
    """Which field an emitted top-level statement of a branch is about (self.<name> / _fld_<name>)."""
    names = {n.attr for n in ast.walk(st) if isinstance(n, ast.Attribute) and isinstance(n.value, ast.Name) and n.value.id == "self"}
    names |= {n.id[len("_fld_"):] for n in ast.walk(st) if isinstance(n, ast.Name) and n.id.startswith("_fld_")}
    return next(iter(names)) if len(names) == 1 else None


def r_gen_stateless(ck: Checker, rule: str = "R-ORDER-KEY") -> None:
    """The code generated for a class is a function of that class's own field mapping: codegen keeps no module-level
    mutable state through which the accessor of one class could depend on the classes generated before it."""
    m = ck.repo.mod(CODEGEN)
    what = "codegen keeps no module-level mutable state (the accessor generated for a class does not depend on classes generated earlier)"
    state: dict[str, ast.AST] = {}
    for st in m.tree.body:
        tg = val = None
        if isinstance(st, ast.Assign) and len(st.targets) == 1 and isinstance(st.targets[0], ast.Name):
            tg, val = st.targets[0].id, st.value
        elif isinstance(st, ast.AnnAssign) and isinstance(st.target, ast.Name) and st.value is not None:
            tg, val = st.target.id, st.value
        if tg is None:
            continue
        if isinstance(val, (ast.Dict, ast.List, ast.Set)) or (isinstance(val, ast.Call) and (dotted(val.func) or "").split(".")[-1] in (
                "dict", "list", "set", "defaultdict", "OrderedDict", "WeakValueDictionary", "WeakKeyDictionary", "deque", "Counter")):
            state[tg] = st
    bad = None
    for f in ck.repo.functions([m]):
        for n in ast.walk(f.raw or f.node):
            if isinstance(n, ast.Subscript) and isinstance(n.ctx, (ast.Store, ast.Del)) and isinstance(n.value, ast.Name) and n.value.id in state:
                bad = (f, n, n.value.id)
            if isinstance(n, ast.Call) and isinstance(n.func, ast.Attribute) and isinstance(n.func.value, ast.Name) and n.func.value.id in state \
                    and n.func.attr in ("setdefault", "update", "append", "add", "pop", "clear", "extend", "insert", "popitem", "remove", "discard"):
                bad = (f, n, n.func.value.id)
            if isinstance(n, ast.Global) and set(n.names) & set(state):
                bad = (f, n, sorted(set(n.names) & set(state))[0])
    if bad:
        ck.violation(rule, bad[0], bad[1], what, construct=f"{bad[0].qualname} updates the module-level {bad[2]} (generated code / closures shared between classes)")
    else:
        ck.holds(rule, (m.rel, "module"), None, what, module_level_containers=sorted(state))


def r_order_key(ck: Checker, rule: str = "R-ORDER-KEY", gens: tuple[str, ...] | None = None, base_props: bool = True) -> None:
    """Sorted branch: fields by name; unsorted branch: mapping order.  Decided on the emitted text: the generator is
    evaluated (geneval) on a three-field mapping whose insertion order, name order and name-length order all differ."""
    from ..geneval import Fld, TypeInfo, branches, parse_body, run_generator

    for gen, acc in GENERATORS.items():
        if gens is not None and gen not in gens:
            continue
        f = gen_func(ck.repo, gen)
        fields = [(Fld("b"), TypeInfo(True)), (Fld("ab"), TypeInfo(False)), (Fld("c"), TypeInfo(False))]
        cap = run_generator(ck.repo, gen, fields)
        srt, uns = branches(parse_body(cap.body or ""))

        def order(stmts: list[ast.stmt]) -> list[str | None]:
            out: list[str | None] = []
            for st in stmts:
                n_ = _field_of(st)
                if not out or out[-1] != n_:
                    out.append(n_)
            return out

        so, uo = order(srt), order(uns)
        what = f"{gen}: the branch emitted under 'if sort_keys:' iterates fields sorted by name, the else-branch in mapping order"
        if None in so or None in uo or sorted(x for x in so if x) != ["ab", "b", "c"] or sorted(x for x in uo if x) != ["ab", "b", "c"]:
            if sorted(set(x for x in so if x)) != ["ab", "b", "c"] and None not in so:
                ck.violation(rule, f, f.node, what, construct=f"{gen}: sorted branch covers fields {so} of (b, ab, c)")
                continue
            if sorted(set(x for x in uo if x)) != ["ab", "b", "c"] and None not in uo:
                ck.violation(rule, f, f.node, what, construct=f"{gen}: unsorted branch covers fields {uo} of (b, ab, c)")
                continue
            raise Unsupported(f"{gen}: emitted branches cannot be attributed to fields ({so} / {uo})", f.node)
        if so != ["ab", "b", "c"]:
            ck.violation(rule, f, f.node, what, construct=f"{gen}: sorted branch emits the fields in order {so} for the mapping (b, ab, c)")
        elif uo != ["b", "ab", "c"]:
            ck.violation(rule, f, f.node, what, construct=f"{gen}: unsorted branch emits the fields in order {uo} for the mapping (b, ab, c)")
        else:
            ck.holds(rule, f, f.node, what, sorted_order=so, unsorted_order=uo)
        # closure variable binding: every _fld_<name> the emitted text mentions is bound to the field of that name
        used = {n.id for st in srt + uns for n in ast.walk(st) if isinstance(n, ast.Name) and n.id.startswith("_fld_")}
        by_name = {fl.name: fl for fl, _ in fields}
        what2 = f"{gen}: the closure variable _fld_<name> is bound to the field of that name"
        wrong = [u for u in sorted(used) if cap.local_vars.get(u) is not by_name.get(u[len("_fld_"):])]
        if wrong:
            ck.violation(rule, f, f.node, what2, construct=f"{gen}: closure binding of {wrong[0]} is {cap.local_vars.get(wrong[0])!r}")
        else:
            ck.holds(rule, f, f.node, what2, closure_vars=sorted(cap.local_vars))
        if gen == "_gen_get_properties_func" and base_props:
            # the properties every node has (id, content_id, origin) are ordinary members of the name order
            fields2 = [(Fld("origin"), TypeInfo(False)), (Fld("b"), TypeInfo(False)), (Fld("id"), TypeInfo(False)), (Fld("ab"), TypeInfo(False)),
                       (Fld("content_id"), TypeInfo(False))]
            cap2 = run_generator(ck.repo, gen, fields2)
            s2, u2 = branches(parse_body(cap2.body or ""))
            so2, uo2 = order(s2), order(u2)
            what4 = f"{gen}: with sort_keys, id / content_id / origin are yielded at their place in the name order; without, in mapping order"
            if so2 != ["ab", "b", "content_id", "id", "origin"]:
                ck.violation(rule, f, f.node, what4, construct=f"{gen}: sorted branch emits {so2} for the mapping (origin, b, id, ab, content_id)")
            elif uo2 != ["origin", "b", "id", "ab", "content_id"]:
                ck.violation(rule, f, f.node, what4, construct=f"{gen}: unsorted branch emits {uo2} for the mapping (origin, b, id, ab, content_id)")
            else:
                ck.holds(rule, f, f.node, what4, sorted_order=so2)
        # no fields: still a generator function
        cap0 = run_generator(ck.repo, gen, [])
        if gen != "_gen_get_properties_func":  # every node class has properties (id, content_id, origin)
            what3 = f"{gen}: for a class without child fields the emitted accessor is an empty generator"
            st0 = parse_body(cap0.body or "")
            ok0 = any(isinstance(n, (ast.Yield, ast.YieldFrom)) for s0 in st0 for n in ast.walk(s0)) and not any(
                isinstance(n, ast.Yield) and n.value is not None for s0 in st0 for n in ast.walk(s0))
            (ck.holds if ok0 else ck.violation)(rule, f, f.node, what3, **({} if ok0 else {"construct": f"{gen}: no fields -> {cap0.body!r}"}))


def r_reinstall(ck: Checker, rule: str = "R-REINSTALL") -> None:
    """accessor names generated == bootstrap functions re-installed on every subclass == delegating methods."""
    gen_names = {}
    for gen in GENERATORS:
        name, call = accessor_name(ck.repo, gen)
        gen_names[gen] = name
        what = f"{gen} installs the accessor it is named after on the class it was generated for"
        if name == GENERATORS[gen] and norm(call.args[0]) == "clz":
            ck.holds(rule, gen_func(ck.repo, gen), call, what, fname=name)
        else:
            ck.violation(rule, gen_func(ck.repo, gen), call, what, construct=f"{gen}: fname={name!r} target={norm(call.args[0])}")
    gf = ck.repo.func(CODEGEN, "_gen_func")
    sets = [c for c in ast.walk(gf.node) if isinstance(c, ast.Call) and dotted(c.func) == "setattr"]
    what = "_gen_func installs the generated function on the class passed in (not on a base class)"
    if len(sets) == 1 and len(sets[0].args) == 3 and norm(sets[0].args[0]) == gf.node.args.args[0].arg \
            and norm(sets[0].args[1]) in (f"{norm(sets[0].args[2])}.__name__", gf.node.args.args[1].arg):
        ck.holds(rule, gf, sets[0], what)
    else:
        ck.violation(rule, gf, gf.node, what, construct=f"_gen_func setattr calls: {[norm(s) for s in sets]}")
    # bootstrap functions: gen_and_yield_X generates for self.__class__ and delegates to self.X
    boots = {}
    for acc in GENERATORS.values():
        b = ck.repo.func(CODEGEN, f"gen_and_yield_{acc}")
        boots[acc] = b
        cs = [c for c in ast.walk(b.node) if isinstance(c, ast.Call)]
        gen_calls = [c for c in cs if dotted(c.func) in GENERATORS and GENERATORS[dotted(c.func)] == acc]
        if not gen_calls:
            # merged / renamed generators: the call that receives (the class, the field table); that it emits *this* accessor was
            # established above from the evaluation of exactly this call (accessor_name)
            gen_calls = [c for c in ast.walk(b.raw or b.node) if isinstance(c, ast.Call) and isinstance(c.func, ast.Name) and len(c.args) >= 2 and norm(c.args[0]) in ("self.__class__", "type(self)")
                         and gen_names.get(next(g_ for g_, a_ in GENERATORS.items() if a_ == acc)) == acc]
        deleg = [c for c in cs if isinstance(c.func, ast.Attribute) and c.func.attr == acc and norm(c.func.value) == "self"]
        what = f"bootstrap gen_and_yield_{acc} generates {acc} for self.__class__ and then delegates to self.{acc}"
        ok = len(gen_calls) == 1 and len(deleg) == 1 and norm(gen_calls[0].args[0]) in ("self.__class__", "type(self)")
        if ok and acc != "get_properties":
            ok = norm(gen_calls[0].args[1]) == "get_cls_child_fields(self.__class__)"
        elif ok:
            ok = norm(gen_calls[0].args[1]) == "get_cls_props(self.__class__)"
        if ok:
            # every parameter is forwarded
            params = [a.arg for a in b.node.args.args[1:]] + [a.arg for a in b.node.args.kwonlyargs]
            fw = [norm(a) for a in deleg[0].args] + [k.arg for k in deleg[0].keywords if norm(k.value) == k.arg]
            ok = params == fw
        if ok:
            ck.holds(rule, b, b.node, what)
        else:
            ck.violation(rule, b, b.node, what, construct=f"gen_and_yield_{acc}: generator/delegate mismatch")
    isc = ck.repo.func("pyoak.node", "ASTNode.__init_subclass__")
    installed = {}
    for st in walk_body(isc.node.body):
        if isinstance(st, ast.Assign) and isinstance(st.targets[0], ast.Attribute) and norm(st.targets[0].value) == "cls":
            installed[st.targets[0].attr] = norm(st.value)
    from ..dtree import decision_tree
    from ..astutil import strip_docstring
    paths = decision_tree(strip_docstring(isc.node.body), try_as_body=True, max_atoms=8)
    for acc in GENERATORS.values():
        what = f"__init_subclass__ re-installs the bootstrap for {acc} on every subclass"
        skipped = [lf for lf in paths if lf.outcome != "raise" and not any(
            isinstance(st, ast.Assign) and isinstance(st.targets[0], ast.Attribute) and norm(st.targets[0].value) == "cls" and st.targets[0].attr == acc for st in lf.stmts)]
        if installed.get(acc) != f"gen_and_yield_{acc}":
            ck.violation(rule, isc, isc.node, what, construct=f"__init_subclass__: cls.{acc} = {installed.get(acc)}")
        elif skipped:
            ck.violation(rule, isc, isc.node, what, evaluations=len(paths),
                         construct=f"__init_subclass__: cls.{acc} is not re-installed when {skipped[0].assign}: such a subclass inherits the accessor compiled for (one of) its "
                         "base classes, whose field layout may differ (several bases, fields added by a sibling base)")
        else:
            ck.holds(rule, isc, isc.node, what, evaluations=len(paths))
        m = ck.repo.func("pyoak.node", f"ASTNode.{acc}")
        cs = [c for c in ast.walk(m.node) if isinstance(c, ast.Call) and dotted(c.func) == f"gen_and_yield_{acc}"]
        what = f"ASTNode.{acc} delegates to its bootstrap with all arguments"
        ok = len(cs) == 1 and norm(cs[0].args[0]) == "self"
        if ok:
            params = [a.arg for a in m.node.args.args[1:]] + [a.arg for a in m.node.args.kwonlyargs]
            fw = [norm(a) for a in cs[0].args[1:]] + [k.arg for k in cs[0].keywords if norm(k.value) == k.arg]
            ok = params == fw
        if ok:
            ck.holds(rule, m, m.node, what)
        else:
            ck.violation(rule, m, m.node, what, construct=f"ASTNode.{acc}: delegation mismatch")


def r_props_dict(ck: Checker, rule: str = "R-ENUM-SHAPE") -> None:
    """to_properties_dict is the name -> value mapping of every record of get_properties() (default flags), nothing filtered out."""
    from ..astutil import comp_as_loop
    f = ck.repo.func("pyoak.node", "ASTNode.to_properties_dict")
    what = "to_properties_dict maps the name of every property yielded by get_properties() to its value (no property is dropped by name)"
    comps = [n for n in ast.walk(f.node) if isinstance(n, ast.DictComp)]
    loops = [n for n in ast.walk(f.node) if isinstance(n, ast.For)]
    if len(comps) == 1 and not loops and len(comps[0].generators) == 1:
        g = comps[0].generators[0]
        if not (isinstance(g.iter, ast.Call) and isinstance(g.iter.func, ast.Attribute) and g.iter.func.attr == "get_properties" and norm(g.iter.func.value) == "self"):
            raise Unsupported(f"to_properties_dict iterates {norm(g.iter)[:50]}", f.node)
        if g.iter.args or g.iter.keywords:
            raise Unsupported(f"to_properties_dict calls get_properties with arguments: {norm(g.iter)[:60]}", f.node)
        if g.ifs:
            ck.violation(rule, f, comps[0], what, positive=True, construct=f"to_properties_dict: records are dropped unless {norm(g.ifs[0])[:60]}")
            return
        if not (isinstance(g.target, ast.Tuple) and len(g.target.elts) == 2):
            raise Unsupported("to_properties_dict: record unpacking", f.node)
        v_, f_ = (norm(x) for x in g.target.elts)
        if norm(comps[0].key) == f"{f_}.name" and norm(comps[0].value) == v_:
            ck.holds(rule, f, comps[0], what)
        else:
            raise Unsupported(f"to_properties_dict maps {norm(comps[0].key)[:30]} to {norm(comps[0].value)[:30]}", f.node)
        return
    raise Unsupported("to_properties_dict is not a single mapping over self.get_properties()", f.node)


def r_field_order(ck: Checker, rule: str = "R-ORDER-KEY") -> None:
    """The child / property tables list the fields in declaration order (dataclasses.fields order): nothing re-orders them."""
    f = ck.repo.func("pyoak.typing", "process_node_fields")
    what = "process_node_fields fills its tables in declaration order (no sorting / reversing of the fields or of the finished tables)"
    fn = f.raw or f.node
    returned = {n.id for r in ast.walk(fn) if isinstance(r, ast.Return) and r.value is not None for n in ast.walk(r.value) if isinstance(n, ast.Name)}

    def reorders(c: ast.AST) -> bool:
        return isinstance(c, ast.Call) and ((dotted(c.func) in ("sorted", "reversed")) or (isinstance(c.func, ast.Attribute) and c.func.attr in ("sort", "reverse")))

    for st in ast.walk(fn):
        hit = None
        if isinstance(st, ast.For) and any(reorders(c) for c in ast.walk(st.iter)) and any(
                isinstance(x, ast.Subscript) and isinstance(x.ctx, ast.Store) and norm(x.value) in returned for x in ast.walk(st)):
            hit = next(c for c in ast.walk(st.iter) if reorders(c))  # the loop that fills the tables runs over a re-ordered sequence
        elif isinstance(st, ast.Assign) and any(isinstance(t, ast.Name) and t.id in returned for t in st.targets) and any(reorders(c) for c in ast.walk(st.value)):
            hit = next(c for c in ast.walk(st.value) if reorders(c))  # a finished table is rebuilt in another order
        elif isinstance(st, ast.Expr) and reorders(st.value) and isinstance(st.value.func, ast.Attribute) and norm(st.value.func.value) in returned:
            hit = st.value
        if hit is not None:
            ck.violation(rule, f, hit, what, positive=True, construct=f"process_node_fields: {norm(hit)[:70]} re-orders the fields (declaration order is what get_child_nodes / iter_child_fields promise)")
            return
    ck.holds(rule, f, f.node, what)
    # the table process_node_fields walks is built by get_field_types: its insertion order must be the order of dataclasses.fields(type_),
    # not the order of get_type_hints (annotations merged along the MRO: a re-declared name keeps the place of its first declaration in a
    # non-dataclass base, names of annotated non-dataclass bases come first)
    g = ck.repo.func("pyoak.typing", "get_field_types")
    gfn = g.raw or g.node
    what2 = "get_field_types lists the fields in the order of dataclasses.fields(type_) (the loop that fills its result runs over the fields, not over the resolved hints)"
    returned = {n.id for r in ast.walk(gfn) if isinstance(r, ast.Return) and r.value is not None for n in ast.walk(r.value) if isinstance(n, ast.Name)}
    hint_vars = {st.targets[0].id for st in ast.walk(gfn) if isinstance(st, ast.Assign) and len(st.targets) == 1 and isinstance(st.targets[0], ast.Name)
                 and isinstance(st.value, ast.Call) and (dotted(st.value.func) or "").split(".")[-1] == "get_type_hints"}
    for lp in [x for x in ast.walk(gfn) if isinstance(x, (ast.For, ast.DictComp))]:
        it = lp.iter if isinstance(lp, ast.For) else lp.generators[0].iter
        fills = isinstance(lp, ast.DictComp) or any(isinstance(x, ast.Subscript) and isinstance(x.ctx, ast.Store) and norm(x.value) in returned for x in ast.walk(lp))
        if not fills:
            continue
        base = it
        while isinstance(base, ast.Call) and isinstance(base.func, ast.Attribute) and base.func.attr in ("items", "keys", "values"):
            base = base.func.value
        over_hints = (isinstance(base, ast.Call) and (dotted(base.func) or "").split(".")[-1] == "get_type_hints") or (isinstance(base, ast.Name) and base.id in hint_vars)
        if over_hints:
            ck.violation(rule, g, lp, what2, positive=True,
                         construct=f"get_field_types: the result is filled in the order of {norm(it)[:50]} — with an annotated non-dataclass class in the MRO that is not the declaration order of the fields")
            return
    ck.holds(rule, g, g.node, what2)
