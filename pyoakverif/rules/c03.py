"""C03 — Registry holds exactly the live, not-detached nodes under unique ids."""
from __future__ import annotations

import ast
from typing import Any

from ..astutil import dotted, is_const, is_none, norm, walk_body, walk_local
from ..dcmodel import fresh_object_local
from ..digest import contributions
from ..dtree import decision_tree, strip_casts
from ..effects import scan_mutations
from ..finite import k_eq, k_is, k_none, canon_cmp
from ..flow import Interp, Semantics
from ..report import Checker
from ..srcmodel import Func, Unsupported
from . import digest_rules as D
from . import templates_rules as T
from .c02 import full_traversal
from .c10 import node_classes, node_evidence

NODE = "pyoak.node"
REG = "NODE_REGISTRY"
OWNERS = {"_unregister", "ASTNode.__post_init__", "ASTNode._deserialize", "ASTNode.replace"}
UNREG_CALLERS = {"ASTNode.detach", "ASTNode.detach_self", "ASTNode.replace"}
# functions in which the key <fresh local>.id is the provisional key of the object re-created on the same path
FRESH_KEY_FUNCS = {"ASTNode._deserialize": "provisional key of the node re-created on this path (local bound once to super()._deserialize)"}


def reg_mutations(fn: ast.FunctionDef) -> list[tuple[str, ast.AST, ast.expr | None]]:
    """(kind, node, key) for every mutation of the registry inside a function body."""
    out: list[tuple[str, ast.AST, ast.expr | None]] = []
    for n in walk_body(fn.body):
        if isinstance(n, ast.Subscript) and dotted(n.value) == REG and isinstance(n.ctx, (ast.Store, ast.Del)):
            out.append(("store" if isinstance(n.ctx, ast.Store) else "remove", n, n.slice))
        elif isinstance(n, ast.Call) and isinstance(n.func, ast.Attribute) and dotted(n.func.value) == REG:
            if n.func.attr in ("pop",):
                out.append(("remove", n, n.args[0] if n.args else None))
            elif n.func.attr in ("clear", "popitem"):
                out.append(("remove", n, None))
            elif n.func.attr in ("update", "setdefault", "__setitem__"):
                out.append(("store", n, n.args[0] if n.args else None))
            elif n.func.attr in ("__delitem__",):
                out.append(("remove", n, n.args[0] if n.args else None))
    return out


def r_reg_own(ck: Checker) -> None:
    what = "the registry is mutated only by __post_init__, _deserialize, replace and the unregister helper of node.py"
    n = 0
    for f in ck.repo.functions(list(ck.repo.mods.values())):
        if ".legacy" in f.mod.name:
            continue
        for kind, node, key in reg_mutations(f.node):
            n += 1
            if f.mod.name == NODE and f.qualname in OWNERS:
                ck.holds("R-REG-OWN", f, node, what, kind=kind, key=norm(key) if key is not None else None)
            else:
                ck.violation("R-REG-OWN", f, node, what, construct=f"registry {kind} in {f.mod.name}:{f.qualname}")
        for c in walk_body(f.node.body):
            if isinstance(c, ast.Call) and dotted(c.func) in ("_unregister", "node._unregister"):
                n += 1
                w = "the unregister helper is called only by detach, detach_self and replace"
                if f.mod.name == NODE and f.qualname in UNREG_CALLERS:
                    ck.holds("R-REG-OWN", f, c, w)
                else:
                    ck.violation("R-REG-OWN", f, c, w, construct=f"_unregister called from {f.mod.name}:{f.qualname}")
        for st in walk_body(f.node.body):
            if isinstance(st, ast.Global) and REG in st.names:
                ck.violation("R-REG-OWN", f, st, what, construct=f"{f.qualname} rebinds {REG}")
    for m in ck.repo.nonlegacy():
        for st in m.tree.body:
            if m.name != NODE and isinstance(st, (ast.Assign, ast.AnnAssign)):
                tg = st.targets[0] if isinstance(st, ast.Assign) else st.target
                if dotted(tg) == REG or (isinstance(tg, ast.Attribute) and tg.attr == REG):
                    ck.violation("R-REG-OWN", m, st, what, construct=f"{m.name} rebinds {REG}")
    ck.require_count("R-REG-OWN", 8)


def r_reg_weak(ck: Checker, ncls: set[str]) -> None:
    m = ck.repo.mod(NODE)
    init = None
    for st in m.tree.body:
        if isinstance(st, (ast.Assign, ast.AnnAssign)):
            tg = st.targets[0] if isinstance(st, ast.Assign) else st.target
            if dotted(tg) == REG:
                init = st
    if init is None:
        raise Unsupported("NODE_REGISTRY initialiser not found")
    what = "the registry holds its values weakly (WeakValueDictionary)"
    v = init.value
    if isinstance(v, ast.Call) and dotted(v.func) in ("weakref.WeakValueDictionary", "WeakValueDictionary") and not v.args and not v.keywords:
        ck.holds("R-REG-WEAK", m, init, what)
    else:
        ck.violation("R-REG-WEAK", m, init, what, construct=f"NODE_REGISTRY = {norm(v)[:60] if v is not None else None}")
    # no strong module/class-level container receives a node
    mods = ck.repo.nonlegacy()
    module_globals: dict[str, set[str]] = {}
    for mm in mods:
        g = set()
        for st in mm.tree.body:
            if isinstance(st, (ast.Assign, ast.AnnAssign)):
                tg = st.targets[0] if isinstance(st, ast.Assign) else st.target
                if isinstance(tg, ast.Name):
                    g.add(tg.id)
        module_globals[mm.name] = g
    what = "no module- or class-level container of the library receives a node (nodes are not kept alive by the library)"
    n = 0
    class_names = set(ck.repo.classes())
    for mu in scan_mutations(ck.repo, mods):
        f = mu.func
        root = mu.target
        while isinstance(root, (ast.Attribute, ast.Subscript)):
            root = root.value
        if not isinstance(root, ast.Name):
            continue
        is_global = (root.id in module_globals.get(f.mod.name, set()) or root.id in class_names or root.id == "cls") and root.id != REG
        if not is_global:
            continue
        n += 1
        # values stored: call args, or the assigned value / key of a subscript store
        vals: list[ast.expr] = []
        if isinstance(mu.node, ast.Call):
            vals = list(mu.node.args)
        elif isinstance(mu.node, ast.Subscript):
            vals = [mu.node.slice]
            for st in walk_body(f.node.body):
                if isinstance(st, ast.Assign) and any(t is mu.node for t in st.targets):
                    vals.append(st.value)
        ev = None
        for v in vals:
            for sub in ast.walk(v):
                if isinstance(sub, (ast.Name, ast.Attribute)):
                    e = node_evidence(sub, f, ncls)
                    if e:
                        ev = (sub, e)
                        break
            if ev:
                break
        if ev:
            ck.violation("R-REG-WEAK", f, mu.node, what, construct=f"{f.qualname}: {norm(mu.target)[:40]} receives {norm(ev[0])} ({ev[1]})")
        else:
            ck.holds("R-REG-WEAK", f, mu.node, what, container=norm(mu.target)[:50])
    # lru_cache / cache decorators on functions that take nodes keep them alive
    for f in ck.repo.functions(mods):
        for d in f.node.decorator_list:
            dn = dotted(d.func if isinstance(d, ast.Call) else d) or ""
            if dn.split(".")[-1] in ("lru_cache", "cache", "cached"):
                from ..effects import params
                from .c10 import ann_is_node
                if f.cls is not None and f.cls.name in ncls or any(ann_is_node(a, ncls) for a in params(f.node).values()):
                    ck.violation("R-REG-WEAK", f, f.node, what, construct=f"{f.qualname} memoises calls that take nodes ({dn})")
    if n < 8:
        ck.incomplete("R-REG-WEAK", None, None, f"only {n} global container mutations scanned (>= 8 expected)")


def _parents(fn: ast.AST) -> dict[int, tuple[ast.AST, str]]:
    out: dict[int, tuple[ast.AST, str]] = {}
    for p in ast.walk(fn):
        for field, value in ast.iter_fields(p):
            if isinstance(value, list):
                for x in value:
                    if isinstance(x, ast.AST):
                        out[id(x)] = (p, field)
            elif isinstance(value, ast.AST):
                out[id(value)] = (p, field)
    return out


def _conjuncts(e: ast.expr, pol: bool = True) -> list[tuple[ast.expr, bool]]:
    if isinstance(e, ast.UnaryOp) and isinstance(e.op, ast.Not):
        return _conjuncts(e.operand, not pol)
    if isinstance(e, ast.BoolOp) and isinstance(e.op, ast.And) and pol:
        return [c for v in e.values for c in _conjuncts(v, True)]
    if isinstance(e, ast.BoolOp) and isinstance(e.op, ast.Or) and not pol:
        return [c for v in e.values for c in _conjuncts(v, False)]
    return [(e, pol)]


class GuardSem(Semantics):
    """State: frozenset of (canonical comparison key, polarity) facts established by the branch conditions passed."""

    def __init__(self) -> None:
        self.at: dict[int, list[frozenset]] = {}
        # locals that hold a registry read (`x = REG[k]` / `x = REG.get(k)`): a comparison of x is a comparison of that read
        self.reads: dict[str, str] = {}

    def simple(self, state, st):
        for n in walk_local(st):
            self.at.setdefault(id(n), []).append(state)
        if isinstance(st, ast.Assign) and len(st.targets) == 1 and isinstance(st.targets[0], ast.Name):
            v = st.value
            if isinstance(v, ast.Subscript) and dotted(v.value) == REG:
                self.reads[st.targets[0].id] = f"{REG}.get({norm(v.slice)})"
            elif isinstance(v, ast.Call) and isinstance(v.func, ast.Attribute) and v.func.attr == "get" and dotted(v.func.value) == REG and v.args:
                self.reads[st.targets[0].id] = f"{REG}.get({norm(v.args[0])})"
            else:
                self.reads.pop(st.targets[0].id, None)
        return (state,)

    def on_return(self, state, st):
        for n in walk_local(st):
            self.at.setdefault(id(n), []).append(state)
        return (state,)

    def cond(self, state, test):
        def facts(pol: bool) -> frozenset:
            out = set(state)
            for c, p in _conjuncts(test, pol):
                if isinstance(c, ast.Compare):
                    cc = canon_cmp(c)
                    if cc is not None:
                        out.add((cc[0], cc[1] == p))
                    # the same comparison with a local replaced by the registry read it holds
                    if self.reads and any(isinstance(x, ast.Name) and x.id in self.reads for x in ast.walk(c)):
                        import copy as _copy

                        class _R(ast.NodeTransformer):
                            def visit_Name(s_, n_):  # noqa: N805
                                if n_.id in self.reads and isinstance(n_.ctx, ast.Load):
                                    return ast.parse(self.reads[n_.id], mode="eval").body
                                return n_
                        c2 = _R().visit(_copy.deepcopy(c))
                        cc2 = canon_cmp(c2)
                        if cc2 is not None:
                            out.add((cc2[0], cc2[1] == p))
            return frozenset(out)

        return (facts(True),), (facts(False),)


def r_reg_ident(ck: Checker) -> None:
    """A removal keyed by X.id on behalf of X is dominated by the fact `registry entry under X.id is X`."""
    n = 0
    for f in ck.repo.functions([ck.repo.mod(NODE)]):
        rem = [(node, key) for kind, node, key in reg_mutations(f.node) if kind == "remove"]
        if not rem:
            continue
        sem = GuardSem()
        Interp(sem).block(f.node.body, {frozenset()})
        for node, key in rem:
            n += 1
            what = "a registry removal keyed by X.id removes the entry only if it is X itself (ids are re-assigned after detach)"
            if key is None:
                ck.violation("R-REG-IDENT", f, node, what, construct=f"{f.qualname}: unkeyed removal {norm(node)[:40]}")
                continue
            ktxt = norm(key)
            fresh = fresh_object_local(f.node) if f.qualname in FRESH_KEY_FUNCS else None
            if fresh is not None and ktxt == f"{fresh}.id":
                ck.holds("R-REG-IDENT", f, node, what, exempt=FRESH_KEY_FUNCS[f.qualname])
                continue
            if not (isinstance(key, ast.Attribute) and key.attr == "id"):
                ck.violation("R-REG-IDENT", f, node, what, construct=f"{f.qualname}: removal keyed by {ktxt}")
                continue
            x = norm(key.value)
            want = {"is(" + ",".join(sorted((a, x))) + ")" for a in (f"{REG}.get({ktxt})", f"{REG}[{ktxt}]", f"{REG}.get({ktxt}, None)")}
            states = sem.at.get(id(node), [])
            if not states:
                ck.incomplete("R-REG-IDENT", f, node, "removal site not reached by the flow interpreter")
                continue
            if all(any((w, True) in st for w in want) for st in states):
                ck.holds("R-REG-IDENT", f, node, what, evaluations=len(states), key=ktxt)
            else:
                ck.violation("R-REG-IDENT", f, node, what, evaluations=len(states),
                             construct=f"{f.qualname}: {norm(node)[:50]} without identity guard")
    if n < 2:
        ck.incomplete("R-REG-IDENT", None, None, f"only {n} removal sites (2 expected)")


class FreshSem(Semantics):
    """State: frozenset of facts ("fresh", key) / ("getvar", var, key) / ("popped", var)."""

    def __init__(self) -> None:
        self.stores: list[tuple[ast.AST, str, bool, Any]] = []
        self.understood: set[int] = set()  # registry mentions whose meaning was taken into account

    def _seen(self, e: ast.AST) -> None:
        for n in ast.walk(e):
            if dotted(n) == REG:
                self.understood.add(id(n))

    def _assign(self, state: frozenset, name: str) -> set:
        return {f for f in state if not (f[0] == "getvar" and f[1] == name) and not (f[0] == "popped" and f[1] == name)
                and not (f[0] == "unregflag" and f[1] == name) and not (f[0] in ("isnone", "notnone") and f[1] == name)
                and not (f[0] == "fresh" and (f[1] == name or f[1].startswith(name + ".") or f[1].startswith(name + "[")))}

    def simple(self, state, st):
        s = set(state)
        if isinstance(st, (ast.Assign, ast.AnnAssign)) and st.value is not None:
            tg = st.targets[0] if isinstance(st, ast.Assign) else st.target
            v = st.value
            if isinstance(tg, ast.Name):
                s = self._assign(state, tg.id)
                if isinstance(v, ast.Call) and dotted(v.func) == "_get_next_unique_id":
                    s.add(("fresh", tg.id))
                elif isinstance(v, ast.Call) and isinstance(v.func, ast.Attribute) and dotted(v.func.value) == REG and v.func.attr == "get" and v.args:
                    if len(v.args) == 1 or is_none(v.args[1]):
                        s.add(("getvar", tg.id, norm(v.args[0])))
                        self._seen(v)
                elif isinstance(v, ast.Call) and isinstance(v.func, ast.Attribute) and dotted(v.func.value) == REG and v.func.attr == "pop" and v.args:
                    s.add(("popped", tg.id))
                    self._seen(v)
                elif isinstance(v, ast.IfExp) and isinstance(v.test, ast.Call) and dotted(v.test.func) == "_unregister" and is_none(v.orelse) \
                        and norm(v.body) == norm(v.test.args[0]):
                    s.add(("popped", tg.id))
                elif isinstance(v, ast.Call) and dotted(v.func) == "_unregister" and v.args:
                    s.add(("unregflag", tg.id, norm(v.args[0])))
                elif is_none(v):
                    s.add(("isnone", tg.id))
                elif isinstance(v, ast.Name):
                    s.add(("notnone", tg.id)) if v.id == "self" else None
                    # V = X : keys spelled through V are keys of X, and a key known to be free stays free under its new name
                    for fct in list(state):
                        if fct[0] == "fresh" and fct[1] == f"{v.id}.id":
                            s.add(("fresh", f"{tg.id}.id"))
                        if fct[0] == "fresh" and fct[1] == v.id:
                            s.add(("fresh", tg.id))
            elif isinstance(tg, ast.Subscript) and dotted(tg.value) == REG:
                k = norm(tg.slice)
                self._seen(tg.value)
                self.stores.append((st, k, ("fresh", k) in state, sorted(map(str, state))))
        elif isinstance(st, ast.Expr) and isinstance(st.value, ast.Call):
            c = st.value
            if isinstance(c.func, ast.Attribute) and dotted(c.func.value) == REG and c.func.attr == "pop" and c.args:
                s.add(("fresh", norm(c.args[0])))
                self._seen(c)
        elif isinstance(st, ast.Delete):
            for t in st.targets:
                if isinstance(t, ast.Subscript) and dotted(t.value) == REG:
                    s.add(("fresh", norm(t.slice)))
                    self._seen(t)
        return (frozenset(s),)

    def cond(self, state, test):
        t, f = set(state), set(state)
        for c, pol in _conjuncts(test, True):
            self._refine(c, pol, t, state)
        for c, pol in _conjuncts(test, False):
            self._refine(c, pol, f, state)
        # prune branches that contradict what is known about the None-ness of a local
        tt, pol = test, True
        while isinstance(tt, ast.UnaryOp) and isinstance(tt.op, ast.Not):
            tt, pol = tt.operand, not pol
        if isinstance(tt, ast.Compare) and len(tt.ops) == 1 and isinstance(tt.ops[0], (ast.Is, ast.IsNot)) and is_none(tt.comparators[0]) \
                and isinstance(tt.left, ast.Name):
            none_when_true = isinstance(tt.ops[0], ast.Is) == pol
            if ("isnone", tt.left.id) in state:
                return ((frozenset(t),), ()) if none_when_true else ((), (frozenset(f),))
            if ("notnone", tt.left.id) in state:
                return ((), (frozenset(f),)) if none_when_true else ((frozenset(t),), ())
        return (frozenset(t),), (frozenset(f),)

    def _refine(self, c: ast.expr, pol: bool, out: set, state: frozenset) -> None:
        if isinstance(c, ast.Call) and dotted(c.func) == "_unregister" and c.args and pol:
            out.add(("fresh", f"{norm(c.args[0])}.id"))  # it returned True: the entry of X was removed just now
        if isinstance(c, ast.Name):
            for fct in state:
                if fct[0] == "unregflag" and fct[1] == c.id and pol:
                    out.add(("fresh", f"{fct[2]}.id"))
        if isinstance(c, ast.Compare) and len(c.ops) == 1:
            op, l, r = c.ops[0], c.left, c.comparators[0]
            if isinstance(op, (ast.In, ast.NotIn)) and dotted(r) == REG:
                self._seen(r)
                if isinstance(op, ast.NotIn) == pol:
                    out.add(("fresh", norm(l)))
            if isinstance(op, (ast.Is, ast.IsNot)) and (is_none(r) or is_none(l)):
                v = l if is_none(r) else r
                is_none_true = isinstance(op, ast.Is) == pol
                if isinstance(v, ast.Name):
                    for fct in state:
                        if fct[0] == "getvar" and fct[1] == v.id and is_none_true:
                            out.add(("fresh", fct[2]))
                        if fct[0] == "popped" and fct[1] == v.id and not is_none_true:
                            out.add(("fresh", f"{v.id}.id"))
                if isinstance(v, ast.Call) and isinstance(v.func, ast.Attribute) and dotted(v.func.value) == REG and v.func.attr == "get" and v.args:
                    self._seen(v)
                    if is_none_true:
                        out.add(("fresh", norm(v.args[0])))


def r_reg_fresh(ck: Checker) -> None:
    n = 0
    for q in ("ASTNode.__post_init__", "ASTNode._deserialize", "ASTNode.replace"):
        f = ck.repo.func(NODE, q)
        sem = FreshSem()
        Interp(sem).block(f.node.body, {frozenset()})
        seen: dict[int, list[tuple[str, bool, Any]]] = {}
        for st, k, ok, facts in sem.stores:
            seen.setdefault(id(st), []).append((k, ok, facts))
            seen[id(st)].append((st, ok, facts))  # type: ignore[arg-type]
        by_stmt: dict[int, tuple[ast.AST, str, list[bool]]] = {}
        for st, k, ok, facts in sem.stores:
            ent = by_stmt.setdefault(id(st), (st, k, []))
            ent[2].append(ok)
        for st, k, oks in by_stmt.values():
            n += 1
            what = f"{q}: the key of a registry store is proven free on every path (not in registry / unique-id helper / get() is None / removed on this path)"
            if all(oks):
                ck.holds("R-REG-FRESH", f, st, what, evaluations=len(oks), key=k)
            elif [n_ for n_ in ast.walk(f.node) if dotted(n_) == REG and id(n_) not in sem.understood
                  and not (isinstance(getattr(n_, "ctx", None), ast.Load) and False)]:
                # some use of the registry in this function is spelled in a way the analysis does not interpret: no proof is not a disproof
                odd = [n_ for n_ in ast.walk(f.node) if dotted(n_) == REG and id(n_) not in sem.understood]
                raise Unsupported(f"{q}: a registry access at line {getattr(odd[0], 'lineno', '?')} is not interpreted; freshness of {REG}[{k}] undecided", st)
            else:
                ck.violation("R-REG-FRESH", f, st, what, evaluations=len(oks), construct=f"{q}: {REG}[{k}] stored without a freshness proof on some path")
    # the unique-id helper returns only a key that is not registered
    h = ck.repo.func(NODE, "_get_next_unique_id")
    n += 1
    r_unique_id_state(ck)
    from ..facts import facts_in
    what = "_get_next_unique_id returns only an id that is proven not to be registered (tested with `in` / `get(..) is None` on every path to the return)"
    fs = facts_in(h.node)
    rets = [s for s in walk_body(h.node.body) if isinstance(s, ast.Return) and s.value is not None]
    n += 1
    verdicts = []
    for r in rets:
        v = r.value
        if isinstance(v, ast.Call) and dotted(v.func) == "next" and v.args and isinstance(v.args[0], ast.GeneratorExp) and len(v.args[0].generators) == 1 \
                and len(v.args) == 1:
            g = v.args[0].generators[0]
            elt = norm(v.args[0].elt)
            tests = [canon_cmp(c) for c in g.ifs if isinstance(c, ast.Compare)]
            if elt == norm(g.target) and (f"in({elt},{REG})", False) in [t for t in tests if t] or (k_none(f"{REG}.get({elt})"), True) in [t for t in tests if t]:
                verdicts.append("proven")  # the first element of the stream that is not registered
                continue
            if elt == norm(g.target) and any(isinstance(c, ast.UnaryOp) and isinstance(c.op, ast.Not) and norm(c.operand) in (f"{REG}.get({elt})", f"{REG}.get({elt}, None)")
                                             for c in g.ifs):
                verdicts.append("truthiness")
                continue
            verdicts.append("unknown")
            continue
        vt = norm(v)
        states = fs.at.get(id(r), [])
        proven = bool(states) and all((f"in({vt},{REG})", False) in st_ or (k_none(f"{REG}.get({vt})"), True) in st_ or (k_none(f"{REG}.get({vt}, None)"), True) in st_ for st_ in states)
        if proven:
            verdicts.append("proven")
        elif states and any((f"{REG}.get({vt})", False) in st_ for st_ in states):
            verdicts.append("truthiness")
        elif not any(vt in k for st_ in states for k, _ in st_ if REG in k):
            verdicts.append("untested")
        else:
            verdicts.append("unknown")
    if rets and all(x == "proven" for x in verdicts):
        ck.holds("R-REG-FRESH", h, h.node, what, evaluations=len(rets))
    elif "truthiness" in verdicts:
        ck.violation("R-REG-FRESH", h, h.node, what, positive=True, construct="_get_next_unique_id: freshness is tested by the truthiness of the registered node (a falsy node counts as free)")
    elif "untested" in verdicts or not rets:
        ck.violation("R-REG-FRESH", h, h.node, what, construct="_get_next_unique_id: loop condition does not establish freshness of the returned id")
    else:
        raise Unsupported("_get_next_unique_id: freshness of the returned id could not be established", h.node)
    if n < 4:
        ck.incomplete("R-REG-FRESH", None, None, f"only {n} store sites (4 expected)")


class PairSem(Semantics):
    """replace(): state = (original unregistered?, restored?, facts) — facts are (key, bool) pairs about flags / None-ness
    of locals, so that a guarded unregister is matched with its equally guarded restore."""

    def __init__(self, x: str = "self") -> None:
        self.x = x
        self.saw_remove = False
        self.saw_restore = False

    @staticmethod
    def _kill(facts: frozenset, names: set[str]) -> set:
        return {(k, v) for k, v in facts if not any(k == n or k == k_none(n) or k == f"alias:{n}" for n in names)}

    def _is_unreg(self, e: ast.AST) -> bool:
        return isinstance(e, ast.Call) and dotted(e.func) == "_unregister" and bool(e.args) and norm(e.args[0]) == self.x

    def _is_pop(self, e: ast.AST) -> ast.Call | None:
        if isinstance(e, ast.Call) and isinstance(e.func, ast.Attribute) and dotted(e.func.value) == REG and e.func.attr == "pop" \
                and e.args and norm(e.args[0]) == f"{self.x}.id":
            return e
        return None

    def simple(self, state, st):
        dirty, restored, facts = state
        names = {n.id for n in walk_local(st) if isinstance(n, ast.Name) and isinstance(n.ctx, ast.Store)}
        f2 = self._kill(facts, names)
        out = []
        if isinstance(st, (ast.Assign, ast.AnnAssign)) and st.value is not None:
            tg = st.targets[0] if isinstance(st, ast.Assign) else st.target
            v = st.value
            if isinstance(tg, ast.Name):
                if self._is_unreg(v):
                    self.saw_remove = True
                    return ((True, restored, frozenset(f2 | {(tg.id, True)})), (dirty, restored, frozenset(f2 | {(tg.id, False)})))
                p = self._is_pop(v)
                if p is not None:
                    self.saw_remove = True
                    if len(p.args) > 1 and is_none(p.args[1]):
                        return ((True, restored, frozenset(f2 | {(k_none(tg.id), False), (f"alias:{tg.id}", True)})),
                                (dirty, restored, frozenset(f2 | {(k_none(tg.id), True)})))
                    return ((True, restored, frozenset(f2 | {(k_none(tg.id), False), (f"alias:{tg.id}", True)})),)
                if isinstance(v, ast.Constant) and isinstance(v.value, bool):
                    return ((dirty, restored, frozenset(f2 | {(tg.id, v.value)})),)
                if is_none(v):
                    return ((dirty, restored, frozenset(f2 | {(k_none(tg.id), True)})),)
                if norm(v) == self.x:
                    return ((dirty, restored, frozenset(f2 | {(k_none(tg.id), False), (f"alias:{tg.id}", True)})),)
            if isinstance(tg, ast.Subscript) and dotted(tg.value) == REG:
                k, val = norm(tg.slice), norm(v)
                is_x = val == self.x or (f"alias:{val}", True) in facts
                if k == f"{val}.id" and is_x:
                    self.saw_restore = True
                    return ((False, True, frozenset(f2)),)
        if isinstance(st, ast.Expr) and isinstance(st.value, ast.Call):
            if self._is_unreg(st.value) or self._is_pop(st.value) is not None:
                self.saw_remove = True
                return ((True, restored, frozenset(f2)), (dirty, restored, frozenset(f2)))
        return ((dirty, restored, frozenset(f2)),)

    def cond(self, state, test):
        dirty, restored, facts = state
        fd = dict(facts)
        t = test
        pol = True
        while isinstance(t, ast.UnaryOp) and isinstance(t.op, ast.Not):
            t, pol = t.operand, not pol
        if self._is_unreg(t):
            self.saw_remove = True
            a = (True, restored, facts)
            b = (dirty, restored, facts)
            return ((a,), (b,)) if pol else ((b,), (a,))
        key = None
        val_when_true = None
        if isinstance(t, ast.Name):
            key, val_when_true = t.id, True
        elif isinstance(t, ast.Compare):
            from ..finite import canon_cmp
            cc = canon_cmp(t)
            if cc is not None:
                key, val_when_true = cc[0], cc[1]
        if key is None:
            return (state,), (state,)
        res = []
        for branch in (True, False):
            want = val_when_true if (branch == pol) else (not val_when_true)
            if key in fd and fd[key] != want:
                res.append(())
            else:
                res.append(((dirty, restored, frozenset(set(facts) | {(key, want)})),))
        return res[0], res[1]


def r_reg_who(ck: Checker, rule: str = "R-REG-OWN") -> None:
    """Who gets registered: a store into the registry enters the object the function itself is building (self in __post_init__, the object
    it has just constructed in _deserialize, the receiver it has itself removed in replace) — never the elements of an enumeration of
    nodes that existed before the call (children, descendants): those are registered or detached by their own history (positive pattern)."""
    n = 0
    for f in ck.repo.functions([ck.repo.mod(NODE)]):
        fn = f.node
        stores = [(node, key) for kind, node, key in reg_mutations(fn) if kind == "store"]
        if not stores:
            continue
        loopvars: dict[str, ast.AST] = {}
        for x in ast.walk(fn):
            if isinstance(x, (ast.For, ast.comprehension)):
                for t in ast.walk(x.target):
                    if isinstance(t, ast.Name):
                        loopvars[t.id] = x
        parent = {id(c): p_ for p_ in ast.walk(fn) for c in ast.iter_child_nodes(p_)}
        for node, key in stores:
            val: ast.AST | None = None
            st = parent.get(id(node))
            if isinstance(node, ast.Subscript) and isinstance(st, ast.Assign):
                val = st.value
            elif isinstance(node, ast.Call) and len(node.args) == 2:
                val = node.args[1]
            if val is None:
                continue
            n += 1
            what = f"{f.qualname}: the object entered into the registry is the one this call builds or has itself removed, not a node enumerated from an existing tree"
            names = {x.id for x in ast.walk(val) if isinstance(x, ast.Name)}
            hit = sorted(names & set(loopvars))
            if hit:
                ck.violation(rule, f, node, what, positive=True,
                             construct=f"{f.qualname}: {norm(st if isinstance(st, ast.Assign) else node)[:60]} registers `{hit[0]}`, an element of {norm(getattr(loopvars[hit[0]], 'iter', loopvars[hit[0]]))[:40]} — a node that existed before the call (and may have been detached) becomes registered")
            elif f.qualname == "ASTNode.__post_init__" and norm(val) != "self":
                ck.violation(rule, f, node, what, positive=True, construct=f"{f.qualname}: registers {norm(val)[:40]} instead of the node under construction")
            else:
                ck.holds(rule, f, node, what, value=norm(val)[:40])
    if n < 3:
        ck.incomplete(rule, None, None, f"only {n} registry stores with a value found (3 confirmed by hand)")


def r_no_exc_local(ck: Checker) -> None:
    """`except E as e:` deletes `e` when the handler is left; a copy of it in another local does not go away.  The traceback of the exception
    refers to the frame, the frame to the local, the local to the exception: a reference cycle that holds `self` and everything the frame
    can reach until the cyclic collector happens to run — nodes the program has dropped stay alive (and in the weak registry) meanwhile
    (positive pattern: `x = e` inside a handler, x not deleted, in a function of the registry module)."""
    n = 0
    for m_ in (ck.repo.mod(NODE),):
        for fn in [x for x in ast.walk(m_.tree) if isinstance(x, ast.FunctionDef)]:
            for h in [x for x in ast.walk(fn) if isinstance(x, ast.ExceptHandler) and x.name]:
                n += 1
                what = f"{fn.name}: a caught exception is not kept in a local that outlives the handler (no frame <-> traceback cycle keeping nodes alive)"
                keep = [st for st in ast.walk(h) if isinstance(st, (ast.Assign, ast.AnnAssign)) and isinstance(st.value, ast.Name) and st.value.id == h.name
                        and isinstance(st.targets[0] if isinstance(st, ast.Assign) else st.target, ast.Name)]
                bad = None
                for st in keep:
                    tgt = (st.targets[0] if isinstance(st, ast.Assign) else st.target).id  # type: ignore[union-attr]
                    deleted = any(isinstance(d, ast.Delete) and any(isinstance(t_, ast.Name) and t_.id == tgt for t_ in d.targets) for d in ast.walk(fn))
                    cleared = any(isinstance(d, ast.Assign) and any(isinstance(t_, ast.Name) and t_.id == tgt for t_ in d.targets) and isinstance(d.value, ast.Constant) and d.value.value is None
                                  and d.lineno > st.lineno for d in ast.walk(fn))
                    if not deleted and not cleared:
                        bad = (st, tgt)
                if bad:
                    ck.violation("R-REG-PAIR", (m_.rel, fn.name), bad[0], what, positive=True,
                                 construct=f"{fn.name}: `{norm(bad[0])}` — `{bad[1]}` survives the handler; frame -> {bad[1]} -> __traceback__ -> frame keeps self (and the nodes it reaches) alive after the caller has dropped them")
                else:
                    ck.holds("R-REG-PAIR", (m_.rel, fn.name), h, what)
    if n == 0:
        ck.incomplete("R-REG-PAIR", None, None, "no named exception handler found in node.py (1 confirmed by hand)")


def r_lookup_key_verbatim(ck: Checker) -> None:
    """get / get_any answer for the id they are asked about: ids are opaque keys.  Positive pattern: the lookup (helpers of later origin
    included) reads the registry under a key *computed from* the id (a prefix, the id without its collision counter ...) — the node
    returned is then one that is registered under another id."""
    from .state_rules import _raw_functions
    m_ = ck.repo.mod(NODE)
    allfns = {q: fn for q, fn, _c in _raw_functions(m_)}
    todo = [q for q in ("ASTNode.get", "ASTNode.get_any") if q in allfns]
    seen: set[str] = set()
    n = 0
    while todo:
        q = todo.pop()
        if q in seen:
            continue
        seen.add(q)
        fn = allfns[q]
        params = [a.arg for a in fn.args.args if a.arg not in ("cls", "self")]
        if not params:
            continue
        idp = params[0]
        for c in ast.walk(fn):
            if isinstance(c, ast.Call) and isinstance(c.func, ast.Name) and c.func.id in allfns and ck.repo.is_new_helper(m_, c.func.id):
                todo.append(c.func.id)
        for x in ast.walk(fn):
            key = None
            if isinstance(x, ast.Call) and isinstance(x.func, ast.Attribute) and x.func.attr == "get" and dotted(x.func.value) == REG and x.args:
                key = x.args[0]
            elif isinstance(x, ast.Subscript) and dotted(x.value) == REG and isinstance(x.ctx, ast.Load):
                key = x.slice
            if key is None:
                continue
            n += 1
            what = f"{q}: the registry is read under the id that was asked for, unchanged"
            k = key
            if isinstance(k, ast.Name) and k.id != idp:
                defs = [st.value for st in ast.walk(fn) if isinstance(st, ast.Assign) and any(k.id in {t.id for t in ast.walk(tg) if isinstance(t, ast.Name)} for tg in st.targets)]
                derived = any(isinstance(y, ast.Name) and y.id == idp for d in defs for y in ast.walk(d)) and any(isinstance(y, ast.Call) for d in defs for y in ast.walk(d))
                if derived:
                    ck.violation("R-GET-FORM", (m_.rel, q), x, what, positive=True,
                                 construct=f"{q}: {norm(x)[:50]} looks up `{k.id}`, a string computed from `{idp}` ({norm(defs[0])[:40]}) — a node registered under another id answers for the one asked about")
                    return
            ck.holds("R-GET-FORM", (m_.rel, q), x, what)
    if n == 0:
        raise Unsupported("get / get_any: no registry read found", None)


def r_reg_pair(ck: Checker) -> None:
    f = ck.repo.func(NODE, "ASTNode.replace")
    sem = PairSem("self")
    out = Interp(sem).block(f.node.body, {(False, False, frozenset())})
    if not sem.saw_remove:
        ck.violation("R-REPLACE-FORM", f, f.node, "ASTNode.replace unregisters the original before constructing the new node",
                     construct="replace: the original is never unregistered")
        return
    what = "ASTNode.replace: every exceptional exit after the original was unregistered passes through the restore of that entry"
    bad = [s_ for s_ in out.exc if s_[0]]
    if bad:
        # no store into the registry anywhere in replace (helpers inlined) nor in a function it calls: nothing can restore the entry
        storing = {g.qualname.split(".")[-1] for g in ck.repo.functions([ck.repo.mod(NODE)]) if any(k == "store" for k, _, _ in reg_mutations(g.node))}
        called = {(dotted(c.func) or "").split(".")[-1] for fn_ in (f.raw, f.node) if fn_ is not None for c in ast.walk(fn_) if isinstance(c, ast.Call)}
        no_restore = not any(k == "store" for fn_ in (f.raw, f.node) if fn_ is not None for k, _, _ in reg_mutations(fn_)) \
            and not (called & (storing - {"__post_init__", "_deserialize", "replace"}))
        ck.violation("R-REG-PAIR", f, f.node, what, evaluations=len(out.exc), positive=no_restore,
                     construct="replace: exceptional exit with the original possibly unregistered (state ['dirty'])"
                     + (" — replace contains no store into the registry at all" if no_restore else ""))
    elif not out.exc:
        ck.incomplete("R-REG-PAIR", f, f.node, "no exceptional exit found in replace")
    else:
        ck.holds("R-REG-PAIR", f, f.node, what, evaluations=len(out.exc), exits=len(out.exc))
    what = "ASTNode.replace: the success path does not restore the original"
    normal = out.normal | out.ret
    if any(s_[1] for s_ in normal):
        ck.violation("R-REG-PAIR", f, f.node, what, construct="replace: the original is restored on the success path")
    elif not normal:
        ck.incomplete("R-REG-PAIR", f, f.node, "no normal exit found in replace")
    else:
        ck.holds("R-REG-PAIR", f, f.node, what, evaluations=len(normal))


def r_detach_all(ck: Checker) -> None:
    f = ck.repo.func(NODE, "ASTNode.detach")
    fn = f.node
    from ..normalize import resolve_path
    top = resolve_path([st for st in fn.body if not isinstance(st, (ast.For, ast.While))])
    self_removed = any(isinstance(c, ast.Call) and dotted(c.func) == "_unregister" and c.args and norm(c.args[0]) == "self"
                       for st in top for c in walk_local(st))
    what = "detach unregisters the node itself"
    (ck.holds if self_removed else ck.violation)("R-DETACH-ALL", f, fn, what, **({} if self_removed else {"construct": "detach: self is not unregistered"}))
    loops = [st for st in fn.body if isinstance(st, ast.For)]
    what = "detach unregisters every descendant: it iterates a full traversal (dfs/bfs without prune/filter) of self"
    ok = False
    why = f"{len(loops)} loops"
    for lp in loops:
        owner = full_traversal(lp.iter)
        tgt = norm(lp.target)
        removes = [c for c in walk_body(resolve_path(lp.body)) if isinstance(c, ast.Call) and dotted(c.func) == "_unregister" and c.args and norm(c.args[0]) == f"{tgt}.node"]
        if owner == "self" and removes and not any(isinstance(x, (ast.Break, ast.Continue, ast.Return, ast.If)) for x in walk_body(lp.body)):
            ok = True
        else:
            why = f"loop over {norm(lp.iter)[:50]}"
    if ok:
        ck.holds("R-DETACH-ALL", f, loops[0], what)
        ck.holds("R-FULLTRAV", f, loops[0], "detach iterates a full traversal of the subtree")
    else:
        ck.violation("R-DETACH-ALL", f, fn, what, construct=f"detach: {why}")
    g = ck.repo.func(NODE, "ASTNode.detach_self")
    rets = [s for s in walk_body(g.node.body) if isinstance(s, ast.Return)]
    what = "detach_self unregisters only the node itself and reports whether it was registered"
    if len(rets) == 1 and rets[0].value is not None and norm(rets[0].value) == "_unregister(self)" and not any(isinstance(s, (ast.For, ast.While)) for s in walk_body(g.node.body)):
        ck.holds("R-DETACH-ALL", g, rets[0], what)
    else:
        ck.violation("R-DETACH-ALL", g, g.node, what, construct=f"detach_self returns {[norm(r.value) for r in rets if r.value is not None]}")
    # the helper reports truthfully
    h = ck.repo.func(NODE, "_unregister")
    leaves = decision_tree(h.node.body, resolve=True)
    p = h.node.args.args[0].arg
    key = "is(" + ",".join(sorted((f"{REG}.get({p}.id)", p))) + ")"
    key_sub = "is(" + ",".join(sorted((f"{REG}[{p}.id]", p))) + ")"
    key_in = f"in({p}.id,{REG})"
    key_none = k_none(f"{REG}.get({p}.id)")
    what = "_unregister removes the entry and returns True exactly when the entry under node.id is the node itself"
    bad = None
    for lf in leaves:
        a_ = lf.assign
        if set(a_) - {key, key_sub, key_in, key_none}:
            raise Unsupported(f"_unregister decides on {sorted(a_)}", h.node)
        # "the entry under node.id is the node itself", from the spellings: one identity test, or presence followed by identity
        if key in a_:
            entry = a_[key]
        elif a_.get(key_in) is False or a_.get(key_none) is True:
            entry = False
        elif key_sub in a_ and (a_.get(key_in) is True or a_.get(key_none) is False):
            entry = a_[key_sub]
        else:
            raise Unsupported(f"_unregister decides on {sorted(a_)}", h.node)
        removed = any(k == "remove" for st in lf.stmts for k, _, _ in reg_mutations(ast.FunctionDef(name="x", args=h.node.args, body=[st], decorator_list=[], lineno=0, col_offset=0)))
        rv = lf.value.value if isinstance(lf.value, ast.Constant) else None
        if removed != entry or rv is not entry:
            bad = f"entry-is-node={entry}: removed={removed} returns={lf.val()}"
    if bad:
        ck.violation("R-DETACH-ALL", h, h.node, what, construct=f"_unregister: {bad}")
    else:
        ck.holds("R-DETACH-ALL", h, h.node, what, evaluations=len(leaves))


def r_id_det(ck: Checker) -> None:
    f = ck.repo.func(NODE, "ASTNode.__post_init__")
    sinks = [s for s in contributions(f) if s.attr == "id"]
    if len(sinks) != 1:
        raise Unsupported(f"expected one id digest sink, found {len(sinks)}", f.node)
    D.check_sink(ck, f, sinks[0], "id", "R-ID-DET")


def r_unique_id_state(ck: Checker, rule: str = "R-ID-DET") -> None:
    h = ck.repo.func(NODE, "_get_next_unique_id")
    # the id handed out is a function of the requested id and the registry: no other module-level state (a remembered suffix would make
    # the id of a re-created node depend on the history of collisions)
    mtree = ck.repo.mod(NODE).tree
    mod_state = set()
    for st_ in mtree.body:
        tgs = st_.targets if isinstance(st_, ast.Assign) else ([st_.target] if isinstance(st_, ast.AnnAssign) and st_.value is not None else [])
        v_ = getattr(st_, "value", None)
        for t_ in tgs:
            if isinstance(t_, ast.Name) and t_.id != REG and (isinstance(v_, (ast.Dict, ast.List, ast.Set)) or (
                    isinstance(v_, ast.Call) and (dotted(v_.func) or "").split(".")[-1] in ("dict", "list", "set", "defaultdict", "Counter", "WeakValueDictionary", "count"))):
                mod_state.add(t_.id)
    used_state = sorted({n_.id for n_ in ast.walk(h.raw or h.node) if isinstance(n_, ast.Name) and n_.id in mod_state})
    what_s = "_get_next_unique_id depends on the requested id and the registry only"
    if used_state:
        ck.violation(rule, h, h.node, what_s, positive=True, construct=f"_get_next_unique_id reads / updates the module-level {used_state[0]} (the id depends on earlier collisions, not only on what is registered now)")
    else:
        ck.holds(rule, h, h.node, what_s)


def r_get_form(ck: Checker) -> None:
    f = ck.repo.func(NODE, "ASTNode.get")
    body = strip_casts(f.node.body)
    idp = f.node.args.args[1].arg
    r = f"{REG}.get({idp})"
    leaves = decision_tree(body)
    found, strict = k_none(r), "strict"
    exact = "eq(" + ",".join(sorted(("cls", f"type({r})"))) + ")"
    exact_is = "is(" + ",".join(sorted(("cls", f"type({r})"))) + ")"
    inst = f"isinstance({r}, cls)"
    bad = []
    for lf in leaves:
        a = lf.assign
        unknown = set(a) - {found, strict, exact, exact_is, inst}
        if unknown:
            bad.append(f"decides on {sorted(unknown)}")
            continue
        is_found = not a.get(found, True) if found in a else None
        ex = a.get(exact, a.get(exact_is))
        if is_found is None:
            bad.append("does not test whether the id is registered")
            continue
        if not is_found:
            expected = "default"
        elif strict not in a:
            bad.append("does not consult `strict`")
            continue
        elif a[strict]:
            if ex is None:
                bad.append("strict lookup without exact type test")
                continue
            expected = r if ex else "default"
        else:
            if inst not in a:
                bad.append("non-strict lookup without isinstance test")
                continue
            expected = r if a[inst] else "default"
        got = lf.val() if lf.outcome == "return" else lf.outcome
        if got != expected:
            bad.append(f"{a}: returns {got}, expected {expected}")
    what = "get(id, default, strict) returns the registered node iff it exists and (strict: type(node) == cls; else isinstance(node, cls)), otherwise default"
    if bad:
        unrec = [b for b in bad if b.startswith("decides on")]
        by_name = [b for b in unrec if any(k in b for k in ("__qualname__", "__name__", "__module__"))]
        if by_name:
            ck.violation("R-GET-FORM", f, f.node, what, evaluations=len(leaves), positive=True,
                         construct=f"get: the class test compares class names ({by_name[0][12:110]}): distinct classes that share a name (factory-made, re-defined) are taken for one another")
            return_after = True
        else:
            return_after = False
        if unrec and len(unrec) == len(bad) and not return_after:
            raise Unsupported(f"get: {unrec[0]}", f.node)
        if not return_after:
            ck.violation("R-GET-FORM", f, f.node, what, evaluations=len(leaves), construct=f"get: {bad[0]}")
    else:
        ck.holds("R-GET-FORM", f, f.node, what, evaluations=len(leaves))
    g = ck.repo.func(NODE, "ASTNode.get_any")
    what = "get_any(id, default) is the plain registry lookup"
    gid = g.node.args.args[1].arg
    gdef = g.node.args.args[2].arg if len(g.node.args.args) > 2 else "default"
    gr = f"{REG}.get({gid})"
    gleaves = decision_tree(strip_casts(g.node.body))
    gbad = []
    for lf in gleaves:
        a = lf.assign
        got = lf.rval() if lf.outcome == "return" else lf.outcome
        if not a:
            if got != f"{REG}.get({gid}, {gdef})":
                gbad.append(f"returns {got}")
            continue
        if set(a) - {k_none(gr)}:
            raise Unsupported(f"get_any decides on {sorted(a)}", g.node)
        exp = (gdef,) if a[k_none(gr)] else (gr, f"{REG}[{gid}]")
        if got not in exp:
            gbad.append(f"{a}: returns {got}, expected {exp[0]}")
    if gbad:
        ck.violation("R-GET-FORM", g, g.node, what, construct=f"get_any {gbad[0]}")
    else:
        ck.holds("R-GET-FORM", g, g.node, what, evaluations=len(gleaves))


def run(ck: Checker) -> None:
    ck.explanation = (
        "Ownership and typestate analysis of NODE_REGISTRY: who may mutate it (call sites resolved over all modules), weak initialiser "
        "and no strong library container receiving nodes, identity guard on every removal keyed by a possibly stale X.id, freshness proof "
        "of every stored key (forward dataflow of facts), pop/restore pairing on every exceptional exit of replace (value-conditional "
        "dirtiness), detach over a full traversal, determinism of the id digest input, truth table of get. Histories, GC and user "
        "references are not decided."
    )
    ck.rule_text = "one obligation per registry access site / exit kind / decision leaf"
    ck.assumptions += ["weakref.WeakValueDictionary drops an entry when its value dies",
                       "constructing calls between a freshness proof and the store do not claim that key"]
    ncls = node_classes(ck)
    ck.guard("R-REG-OWN", lambda: r_reg_own(ck))
    ck.guard("R-REG-WEAK", lambda: r_reg_weak(ck, ncls))
    ck.guard("R-REG-IDENT", lambda: r_reg_ident(ck))
    ck.guard("R-REG-FRESH", lambda: r_reg_fresh(ck))
    ck.guard("R-REG-PAIR", lambda: r_reg_pair(ck))
    ck.guard("R-REG-OWN", lambda: r_reg_who(ck))
    ck.guard("R-GET-FORM", lambda: r_lookup_key_verbatim(ck))
    ck.guard("R-REG-PAIR", lambda: r_no_exc_local(ck))
    from .c10 import r_reg_callers
    ck.guard("R-REG-CALLERS", lambda: r_reg_callers(ck, ncls))
    from . import state_rules as S3b
    ck.guard("R-REG-PAIR", lambda: S3b.r_flag_pairing(ck, "R-REG-PAIR", (NODE,)))  # no library operation detaches the trees it is given (findall's synthetic root is removed alone)
    from . import state_rules as S3
    ck.guard("R-REG-OWN", lambda: S3.r_memo_keeps_alive(ck, "R-REG-OWN", ("pyoak.typing", NODE, "pyoak.types"), "a cache entry would keep nodes alive and registered"))
    from . import templates_rules as T_
    ck.guard("R-REINSTALL", lambda: T_.r_reinstall(ck))  # detach reaches the children the class itself declares (no accessor inherited from a base class)
    from . import state_rules as S_
    ck.guard("R-REG-OWN", lambda: S_.r_unstable_key(ck, "R-REG-OWN", [(NODE, "ASTNode.get"), (NODE, "ASTNode.get_any"), (NODE, "ASTNode.detach"), (NODE, "ASTNode.detach_self"), (NODE, "ASTNode.replace"), (NODE, "ASTNode.__post_init__"), (NODE, "ASTNode._deserialize"), (NODE, "ASTNode.duplicate")], "lookup answers from the registry as it is now; nothing else keeps nodes"))
    ck.guard("R-DETACH-ALL", lambda: r_detach_all(ck))
    ck.guard("R-ID-DET", lambda: r_id_det(ck))
    ck.guard("R-GET-FORM", lambda: r_get_form(ck))
    from .c04 import r_deser_id
    ck.guard("R-DESER-ID", lambda: r_deser_id(ck))  # deserialization returns the registered node and evicts nothing that was registered before
    ck.guard("R-PRESENCE", lambda: T.r_presence(ck))
    ck.guard("R-FLAGS-TT", lambda: T.r_flags_tt(ck))  # the id digest reads the comparable properties through the generated accessor
    ck.guard("R-TYPES-CACHE", lambda: T.r_types_cache(ck))
