"""C13 — Runtime type checking accepts exactly the well-typed constructions."""
from __future__ import annotations

import ast

from ..astutil import dotted, is_const, norm, strip_docstring, walk_body, walk_local
from ..dtree import decision_tree
from ..finite import discover_atoms, truth_table
from ..report import Checker
from ..srcmodel import Func, Unsupported
from .c03 import reg_mutations

TYPING = "pyoak.typing"
NODE = "pyoak.node"


def r_boolguard(ck: Checker) -> None:
    f = ck.repo.func(TYPING, "is_instance")
    body = strip_docstring(f.node.body)
    v, t = f.node.args.args[0].arg, f.node.args.args[1].arg
    k_int = "is(" + ",".join(sorted(("int", t))) + ")"
    k_true = "is(" + ",".join(sorted(("True", v))) + ")"
    k_false = "is(" + ",".join(sorted(("False", v))) + ")"
    k_isbool = f"isinstance({v}, bool)"
    k_tbool = "is(" + ",".join(sorted(("bool", f"type({v})"))) + ")"
    what = ("is_instance starts with the bool/int guard: False is returned exactly when the annotation is int and the value is a bool "
            "(True or False); a bool value with any other annotation is not rejected by the guard")
    guard = None
    for st in body:
        if isinstance(st, ast.If) and not st.orelse and len(st.body) == 1 and isinstance(st.body[0], ast.Return) and is_const(st.body[0].value, False):
            atoms = discover_atoms(st.test)
            if any(a in (k_true, k_false, k_isbool, k_tbool) for a in atoms):
                guard = st
                break
        if not (isinstance(st, ast.Expr) and isinstance(st.value, ast.Constant)):
            break  # the guard must come before any other check
    if guard is None:
        ck.violation("R-BOOLGUARD-TT", f, f.node, what, construct="is_instance: no leading bool/int guard (bool would conform to int)")
        return
    atoms = discover_atoms(guard.test)
    unknown = set(atoms) - {k_int, k_true, k_false, k_isbool, k_tbool}
    if unknown:
        ck.violation("R-BOOLGUARD-TT", f, guard, what, construct=f"is_instance guard decides on {sorted(unknown)}")
        return

    def feasible(a: dict) -> bool:
        if a.get(k_true) and a.get(k_false):
            return False
        isb = a.get(k_true) or a.get(k_false)
        for k in (k_isbool, k_tbool):
            if k in a and (k_true in a or k_false in a) and a[k] != bool(isb):
                return False
        return True

    def oracle(a: dict) -> bool:
        isb = a.get(k_true, False) or a.get(k_false, False) or a.get(k_isbool, False) or a.get(k_tbool, False)
        return bool(a.get(k_int, False) and isb)

    rows = truth_table(guard.test, {k: (True, False) for k in atoms}, feasible)
    bad = [dict(a, guard=bool(val)) for a, val in rows if bool(val) != oracle(a)]
    # the guard must be able to see both booleans
    sees_both = (k_true in atoms and k_false in atoms) or k_isbool in atoms or k_tbool in atoms
    if bad or not sees_both or k_int not in atoms:
        ck.violation("R-BOOLGUARD-TT", f, guard, what, evaluations=len(rows),
                     construct=f"is_instance guard `{norm(guard.test)}` differs from `type_ is int and value is a bool`" + (f" on {len(bad)} rows" if bad else ""),
                     rows=bad[:4])
    else:
        ck.holds("R-BOOLGUARD-TT", f, guard, what, evaluations=len(rows), guard=norm(guard.test))


def r_zipguard_tuple(ck: Checker) -> None:
    f = ck.repo.func(TYPING, "is_instance")
    zips = [c for c in walk_body(f.node.body) if isinstance(c, ast.Call) and dotted(c.func) == "zip"
            and not any(k.arg == "strict" and is_const(k.value, True) for k in c.keywords)]
    what = "is_instance, fixed-length tuple: the element-wise zip is reached only when the value has exactly as many elements as the annotation"
    if not zips:
        strict = [c for c in walk_body(f.node.body) if isinstance(c, ast.Call) and dotted(c.func) == "zip"]
        if strict:
            # zip(strict=True) raises on a length mismatch instead of returning False: still not a silent truncation
            raise Unsupported("is_instance uses zip(strict=True); a length mismatch raises instead of returning False", strict[0])
        raise Unsupported("no zip in is_instance (fixed tuples are checked differently)", f.node)
    dom = lambda k: (0, 1, 2, 3) if k.startswith("len(") else (True, False)  # noqa: E731
    vp, tp = f.node.args.args[0].arg, f.node.args.args[1].arg
    leaves = decision_tree(strip_docstring(f.node.body), domain=dom, max_atoms=30, try_as_body=True, resolve="calls", sized=(f"get_args({tp})", "args"))
    n_reach = 0
    bad = []
    for lf in leaves:
        if lf.value is None:
            continue
        for z in [c for c in ast.walk(lf.value) if isinstance(c, ast.Call) and dotted(c.func) == "zip"
                  and not any(k.arg == "strict" and is_const(k.value, True) for k in c.keywords)]:
            n_reach += 1
            a_names = [norm(a) for a in z.args]
            lens = [lf.assign.get(f"len({n})") for n in a_names]
            if None in lens:
                bad.append({"zip": a_names, "path": {k: v for k, v in lf.assign.items() if k.startswith("len(")}, "problem": "length of an operand not compared"})
            elif len(set(lens)) != 1:
                bad.append({"zip": a_names, "lens": dict(zip(a_names, lens))})
    if not n_reach:
        raise Unsupported("zip call not on a return path", zips[0])
    if bad:
        ck.violation("R-ZIPGUARD", f, zips[0], what, evaluations=n_reach,
                     construct=f"is_instance: zip({', '.join(bad[0]['zip'])}) reached with unequal / unchecked lengths", rows=bad[:3])
    else:
        ck.holds("R-ZIPGUARD", f, zips[0], what, evaluations=n_reach, paths=n_reach)
    # variadic and empty tuple arms
    what = "is_instance: tuple[()] accepts only the empty tuple; tuple[X, ...] checks every element"
    from ..astutil import alpha
    k_args = f"len(get_args({tp}))"
    tup = [lf for lf in leaves if lf.assign.get(f"is_tuple({tp})") is True]
    if not tup or not any(k_args in lf.assign for lf in tup):
        raise Unsupported("is_instance: the tuple arm (is_tuple(type_) with get_args(type_)) was not found", f.node)
    empty = [lf for lf in tup if lf.assign.get(k_args) == 0]
    ok_empty = bool(empty) and all(lf.outcome == "return" and lf.val() in (f"len({vp}) == 0", f"not {vp}", f"{vp} == ()", f"not len({vp})", f"0 == len({vp})") for lf in empty)
    k_ell = next((k for lf in tup for k in lf.assign if k.startswith("is(") and "Ellipsis" in k or k.startswith("is(") and "..." in k), None)
    var = [lf for lf in tup if lf.assign.get(k_args) == 2 and k_ell is not None and lf.assign.get(k_ell) is True]
    want_var = (f"all((is_instance(_b0, get_args({tp})[0]) for _b0 in {vp}))",)
    ok_var = bool(var) and all(lf.outcome == "return" and lf.value is not None and alpha(lf.value) in want_var for lf in var)
    derived = None
    for lf in var:
        for gen in [g_ for g_ in ast.walk(lf.value) if isinstance(g_, (ast.GeneratorExp, ast.ListComp))] if lf.value is not None else []:
            it = norm(gen.generators[0].iter)
            if it not in (vp, f"iter({vp})", f"list({vp})", f"tuple({vp})") and vp in it and "is_instance(" in norm(gen.elt):
                derived = it
        for st in lf.stmts:  # the iterated collection is a local derived from the value
            if isinstance(st, (ast.Assign, ast.AnnAssign)) and st.value is not None and isinstance(st.value, ast.Call) and dotted(st.value.func) in ("set", "frozenset", "dict.fromkeys") \
                    and st.value.args and norm(st.value.args[0]) == vp:
                derived = norm(st.value)
    if derived and not ok_var:
        ck.violation("R-ZIPGUARD", f, f.node, what, construct=f"is_instance tuple arms: the variadic arm checks the elements of {derived}, not every element of the value (equal items of different type collapse)")
    elif ok_empty and ok_var:
        ck.holds("R-ZIPGUARD", f, f.node, what, evaluations=len(empty) + len(var))
    elif (empty and not ok_empty and all(lf.val() in ("True", "False") for lf in empty)) or \
            (var and not ok_var and all(not any(isinstance(st, (ast.For, ast.While)) for st in lf.stmts) and
                                        ("is_instance(" not in (lf.val() or "") or " for " not in (lf.val() or "")) for lf in var)):
        # the empty tuple arm ignores the value / the variadic arm does not look at every element
        ck.violation("R-ZIPGUARD", f, f.node, what, construct=f"is_instance tuple arms: empty ok={ok_empty} ({[lf.val() for lf in empty][:2]}) variadic ok={ok_var} ({[lf.val() for lf in var][:1]})")
    else:
        raise Unsupported(f"is_instance tuple arms not recognised: empty {[lf.val() for lf in empty][:2]}, variadic {[lf.val() for lf in var][:1]}", f.node)


def r_gate(ck: Checker) -> None:
    f = ck.repo.func(NODE, "ASTNode.__post_init__")
    fn = f.node
    gates = [st for st in fn.body if isinstance(st, ast.If) and "RUNTIME_TYPE_CHECK" in norm(st.test)]
    others = [n for n in walk_body(fn.body) if isinstance(n, ast.Attribute) and n.attr == "RUNTIME_TYPE_CHECK"]
    what = "type validation runs exactly when config.RUNTIME_TYPE_CHECK is true, in one block that has no effect besides raising InvalidTypes"
    if len(gates) != 1 or len(others) != 1:
        ck.violation("R-GATE", f, fn, what, construct=f"__post_init__: {len(gates)} gate blocks, {len(others)} reads of RUNTIME_TYPE_CHECK")
        return
    g = gates[0]
    if norm(g.test) not in ("config.RUNTIME_TYPE_CHECK", "config.RUNTIME_TYPE_CHECK is True", "config.RUNTIME_TYPE_CHECK == True") or g.orelse:
        ck.violation("R-GATE", f, g, what, construct=f"gate condition `{norm(g.test)}`" + (" with an else branch" if g.orelse else ""))
        return
    bad = None
    locals_set = set()
    fresh_containers = {st.targets[0].id for st in walk_body(g.body) if isinstance(st, ast.Assign) and len(st.targets) == 1 and isinstance(st.targets[0], ast.Name)
                        and (isinstance(st.value, (ast.Dict, ast.List, ast.Set, ast.DictComp, ast.ListComp, ast.SetComp))
                             or (isinstance(st.value, ast.Call) and dotted(st.value.func) in ("dict", "list", "set") and not st.value.args))}
    for n in walk_body(g.body):
        if isinstance(n, ast.Call) and dotted(n.func) in ("object.__setattr__", "setattr", "object.__delattr__", "delattr"):
            bad = norm(n)[:50]
        if isinstance(n, (ast.Attribute, ast.Subscript)) and isinstance(n.ctx, (ast.Store, ast.Del)):
            base = n.value
            while isinstance(base, (ast.Attribute, ast.Subscript)):
                base = base.value
            if isinstance(n, ast.Subscript) and isinstance(n.value, ast.Name) and n.value.id in fresh_containers:
                continue  # filling a container that was created inside the block
            bad = norm(n)[:50]
        if isinstance(n, ast.Name) and isinstance(n.ctx, ast.Store):
            locals_set.add(n.id)
        if isinstance(n, (ast.Return, ast.Global, ast.Nonlocal)):
            bad = type(n).__name__
    if reg_mutations(ast.FunctionDef(name="g", args=fn.args, body=g.body, decorator_list=[], lineno=0, col_offset=0)):
        bad = "registry mutation"
    # locals of the block must not be used afterwards (the node built is the same either way)
    after = fn.body[fn.body.index(g) + 1:]
    comp_targets = {n.id for c in walk_body(g.body) if isinstance(c, ast.comprehension) for n in ast.walk(c.target) if isinstance(n, ast.Name)}
    leaked = {n.id for n in walk_body(after) if isinstance(n, ast.Name) and isinstance(n.ctx, ast.Load) and n.id in (locals_set - comp_targets)}
    rebinding = {n.id for n in walk_body(after) if isinstance(n, ast.Name) and isinstance(n.ctx, ast.Store)}
    leaked -= rebinding
    if bad:
        ck.violation("R-GATE", f, g, what, construct=f"gated block has an effect: {bad}")
    elif leaked:
        ck.violation("R-GATE", f, g, what, construct=f"locals of the gated block are used afterwards: {sorted(leaked)}")
    else:
        ck.holds("R-GATE", f, g, what)
    # the raise
    raises = [n for n in walk_body(g.body) if isinstance(n, ast.Raise)]
    callc = [c for c in walk_body(g.body) if isinstance(c, ast.Call) and dotted(c.func) == "_check_runtime_types"]
    what = "InvalidTypes is raised with exactly the fields reported by the per-field check, iff there is at least one"
    ok = False
    if len(raises) == 1 and len(callc) == 1:
        var = None
        for st in g.body:
            if isinstance(st, ast.Assign) and st.value is callc[0] and isinstance(st.targets[0], ast.Name):
                var = st.targets[0].id
        rs = raises[0]
        parent_if = [st for st in g.body if isinstance(st, ast.If) and rs in st.body]
        ok = var is not None and isinstance(rs.exc, ast.Call) and dotted(rs.exc.func) == "InvalidTypes" and [norm(a) for a in rs.exc.args] == [var] \
            and len(parent_if) == 1 and norm(parent_if[0].test) in (var, f"len({var}) > 0", f"{var} != []") and not parent_if[0].orelse
    if ok:
        ck.holds("R-GATE", f, raises[0], what)
    else:
        ck.violation("R-GATE", f, g, what, construct="gated block: raise InvalidTypes(<checked fields>) under `if <checked fields>` not recognised")
    # field map: all fields minus id/content_id, irrespective of init
    what = "every field except id and content_id is checked, init or not"
    ok = False
    from ..loops import lower_collect, module_constant
    fmap = callc[0].args[1] if callc and len(callc[0].args) == 2 else None
    if callc and fmap is None and ck.repo.has_func(NODE, "_check_runtime_types"):
        # keyword spelling of the arguments: positional view through the helper's parameter names
        pn = [a_.arg for a_ in ck.repo.func(NODE, "_check_runtime_types").node.args.args]
        kws = {k_.arg: k_.value for k_ in callc[0].keywords if k_.arg}
        pos = list(callc[0].args) + [kws[n_] for n_ in pn[len(callc[0].args):] if n_ in kws]
        if len(pos) == 2 and len(pos) == len(callc[0].args) + len(kws):
            callc[0] = ast.copy_location(ast.Call(func=callc[0].func, args=pos, keywords=[]), callc[0])
            fmap = pos[1]
    if isinstance(fmap, ast.Name):  # a local bound once inside the gated block
        binds = [st for st in walk_body(g.body) if isinstance(st, (ast.Assign, ast.AnnAssign)) and norm(st.targets[0] if isinstance(st, ast.Assign) else st.target) == fmap.id]
        if len(binds) == 1 and binds[0].value is not None:
            fmap = binds[0].value
    if callc and isinstance(fmap, ast.Call) and isinstance(fmap.func, ast.Name) and ck.repo.has_func(NODE, fmap.func.id):
        # the field map comes from a helper: a per-class cache kept as a class attribute and read with getattr / hasattr is found on
        # subclasses as well (attribute lookup follows the MRO), so a subclass would be checked against its parent's fields
        hfn = ck.repo.func(NODE, fmap.func.id)
        hraw = hfn.raw or hfn.node
        gets = [c for c in ast.walk(hraw) if isinstance(c, ast.Call) and dotted(c.func) in ("getattr", "hasattr") and len(c.args) >= 2]
        sets = [c for c in ast.walk(hraw) if isinstance(c, ast.Call) and dotted(c.func) == "setattr" and len(c.args) == 3]
        if gets and sets and {norm(c.args[1]) for c in gets} & {norm(c.args[1]) for c in sets}:
            ck.violation("R-GATE", hfn, gets[0], what, construct=f"{hfn.qualname}: the checked field map is cached as a class attribute and read with {dotted(gets[0].func)} "
                         "(a subclass inherits the map of its parent: fields it adds are never checked)")
            return
    if callc and fmap is not None and not isinstance(fmap, ast.DictComp):
        raise Unsupported(f"__post_init__: checked field map {norm(fmap)[:60]} is not a comprehension over the class's fields", g)
    if callc and len(callc[0].args) == 2 and norm(callc[0].args[0]) == "self" and isinstance(fmap, ast.DictComp):
        dc = fmap
        gen = dc.generators[0]
        if len(dc.generators) == 1 and norm(gen.iter) in ("get_cls_all_fields(self.__class__).items()", "get_cls_all_fields(type(self)).items()") \
                and isinstance(gen.target, ast.Tuple) and len(gen.target.elts) == 2 and norm(dc.key) == norm(gen.target.elts[0]) \
                and norm(dc.value) == norm(gen.target.elts[1]):
            fv = norm(gen.target.elts[0])
            if len(gen.ifs) == 1 and isinstance(gen.ifs[0], ast.Compare) and len(gen.ifs[0].ops) == 1 and isinstance(gen.ifs[0].ops[0], ast.NotIn) \
                    and norm(gen.ifs[0].left) == f"{fv}.name":
                excl = gen.ifs[0].comparators[0]
                if isinstance(excl, ast.Name):
                    excl = module_constant(f.mod.tree, excl.id)
                if isinstance(excl, (ast.Tuple, ast.List, ast.Set)) and all(isinstance(e, ast.Constant) for e in excl.elts):
                    ok = sorted(e.value for e in excl.elts) == ["content_id", "id"]
                else:
                    raise Unsupported(f"__post_init__: excluded field names {norm(gen.ifs[0].comparators[0])[:50]} not resolved", g)
    if ok:
        ck.holds("R-GATE", f, callc[0], what)
    elif fmap is None:
        # the call site passes no field map (the helper selects the fields itself): nothing here says which fields are checked, so
        # nothing is decided (round 8, C13-r30: a false alarm of the earlier reading, which took the missing argument for a wrong map)
        raise Unsupported("__post_init__: the type-check helper is called without a field map (the selection of the checked fields moved elsewhere)", g)
    else:
        ck.violation("R-GATE", f, g, what, construct=f"checked field map: {norm(fmap)[:90]}")
    # the per-field helper
    h = ck.repo.func(NODE, "_check_runtime_types")
    hbody = lower_collect(strip_docstring(h.node.body))
    loops = [s for s in hbody if isinstance(s, ast.For)]
    if len(loops) != 1:
        raise Unsupported("_check_runtime_types: not a single loop / comprehension over the field map", h.node)
    what = "_check_runtime_types reports exactly the fields whose value does not conform (is_instance(getattr(node, f.name), resolved type) is false)"
    ok = False
    polarity_bad = False
    skipped_unchecked = None
    if len(loops) == 1 and isinstance(loops[0].target, ast.Tuple) and len(loops[0].target.elts) == 2:
        nodep, mapp = h.node.args.args[0].arg, h.node.args.args[1].arg
        fv, ti = norm(loops[0].target.elts[0]), norm(loops[0].target.elts[1])
        if norm(loops[0].iter) == f"{mapp}.items()":
            leaves = decision_tree(loops[0].body, resolve=True)
            key_variants = {f"is_instance(getattr({nodep}, {fv}.name), {ti}.resolved_type)"}
            good = True
            acc = None
            polarity_bad = False
            for lf in leaves:
                if not (set(lf.assign) & key_variants) and lf.assign and lf.outcome in ("continue", "fall") and not any(
                        isinstance(c_, ast.Call) and dotted(c_.func) == "is_instance" for st_ in lf.stmts for c_ in ast.walk(st_)):
                    skipped_unchecked = dict(lf.assign)  # a path through the loop body that never asks is_instance about the field
            for lf in leaves:
                ks = set(lf.assign)
                if len(ks) != 1 or not ks <= key_variants:
                    good = False
                    break
                conforms = list(lf.assign.values())[0]
                apps = [st for st in lf.stmts if isinstance(st, ast.Expr) and isinstance(st.value, ast.Call) and isinstance(st.value.func, ast.Attribute)
                        and st.value.func.attr == "append"]
                if conforms and apps:
                    good = False
                    polarity_bad = True
                if not conforms:
                    if len(apps) != 1 or norm(apps[0].value.args[0]) != fv:
                        good = False
                    else:
                        acc = norm(apps[0].value.func.value)
            rets = [s for s in hbody if isinstance(s, ast.Return)]
            ok = good and acc is not None and len(rets) == 1 and rets[0].value is not None and norm(rets[0].value) == acc
    if ok:
        ck.holds("R-GATE", h, loops[0], what)
    else:
        if skipped_unchecked is not None:
            ck.violation("R-GATE", h, h.node, what, positive=True, construct=f"_check_runtime_types: when {skipped_unchecked} a field is passed over without being checked")
        elif polarity_bad:
            ck.violation("R-GATE", h, h.node, what, construct="_check_runtime_types: a field is reported when its value conforms (inverted test)")
        elif not any(isinstance(c_, ast.Call) and dotted(c_.func) == "is_instance" for c_ in ast.walk(h.node)):
            ck.violation("R-GATE", h, h.node, what, construct="_check_runtime_types: no field value is checked with is_instance")
        else:
            raise Unsupported("_check_runtime_types: per-field check not recognised", h.node)


def r_union_first(ck: Checker) -> None:
    """isinstance() accepts `X | Y` unions directly: the generic isinstance(value, type_) shortcut must only be reached for
    annotations that are not unions, otherwise the members (and the bool/int guard of the recursion) are bypassed for one
    spelling of a union but not for the other."""
    f = ck.repo.func(TYPING, "is_instance")
    v, t = f.node.args.args[0].arg, f.node.args.args[1].arg
    dom = lambda k: (0, 1, 2) if k.startswith("len(") else (True, False)  # noqa: E731
    leaves = decision_tree(strip_docstring(f.node.body), domain=dom, max_atoms=30, try_as_body=True)
    k_short = f"isinstance({v}, {t})"
    k_union = f"is_union({t})"
    bad = 0
    n = 0
    for lf in leaves:
        keys = list(lf.assign)
        if k_short not in keys:
            continue
        n += 1
        i = keys.index(k_short)
        if not (k_union in keys[:i] and lf.assign[k_union] is False):
            bad += 1
    what = "is_instance: the generic isinstance(value, type_) shortcut is reached only after the annotation was found not to be a union (both union spellings are decomposed member by member)"
    if n == 0:
        ck.incomplete("R-UNION-FIRST", f, f.node, "no path evaluates isinstance(value, type_)")
    elif bad:
        ck.violation("R-UNION-FIRST", f, f.node, what, evaluations=n,
                     construct="is_instance: isinstance(value, type_) is evaluated before unions are decomposed (True conforms to `int | None` but not to Optional[int])")
    else:
        ck.holds("R-UNION-FIRST", f, f.node, what, evaluations=n)
    # the union arm quantifies over all members
    from ..astutil import alpha
    want = alpha(ast.parse(f"any((is_instance({v}, t) for t in get_args({t})))", mode="eval").body)
    what = "a value conforms to a union iff it conforms to any member"
    union_rets = [lf for lf in leaves if lf.assign.get(k_union) is True and lf.outcome == "return" and lf.value is not None
                  and list(lf.assign).index(k_union) == len(lf.assign) - 1]
    verdict = None
    # a positive pattern: on a path that established "optional / union", the answer is the conformance to ONE selected member
    k_opt = f"is_optional({t})"
    for lf in leaves:
        if lf.outcome == "return" and lf.value is not None and (lf.assign.get(k_opt) is True or lf.assign.get(k_union) is True):
            for c in ast.walk(lf.value):
                if isinstance(c, ast.Call) and dotted(c.func) == "is_instance" and len(c.args) == 2:
                    sel = c.args[1]
                    if (isinstance(sel, ast.Call) and dotted(sel.func) == "next") or (isinstance(sel, ast.Subscript) and norm(sel.value) == f"get_args({t})"):
                        if not any(isinstance(p_, (ast.GeneratorExp, ast.ListComp)) and any(x is c for x in ast.walk(p_)) for p_ in ast.walk(lf.value)):
                            verdict = (f"is_instance: a union / optional annotation is decided by the conformance to one selected member ({norm(sel)[:60]}): "
                                       "a value that conforms to another member is rejected")
    for lf in union_rets:
        got = alpha(lf.value)
        if verdict is not None and verdict.startswith("is_instance: a union / optional"):
            break
        if got == want:
            verdict = verdict or "ok"
        elif f"get_args({t})[" in got or got.startswith("all("):
            verdict = f"is_instance: a union is decided by {got[:60]} (not by `any` member conforming)"
        elif verdict in (None, "ok"):
            verdict = "?" + got[:60]
    if verdict is not None and verdict.startswith("is_instance: a union / optional"):
        ck.violation("R-UNION-FIRST", f, f.node, what, positive=True, construct=verdict)
    elif verdict == "ok":
        ck.holds("R-UNION-FIRST", f, f.node, what)
    elif verdict is None or verdict.startswith("?"):
        raise Unsupported(f"is_instance: the union arm is not of a recognised form ({(verdict or '?no return decided by is_union')[1:]})", f.node)
    else:
        ck.violation("R-UNION-FIRST", f, f.node, what, construct=verdict)


def r_items_recursive(ck: Checker) -> None:
    """Inside is_instance the elements of a collection value are checked by is_instance itself: a bare isinstance(item, T) skips the rules
    is_instance adds to isinstance (a bool is no int, an int is a float).  Positive pattern: `isinstance(<element variable>, ...)` inside
    a comprehension / loop over the value."""
    f = ck.repo.func(TYPING, "is_instance")
    vp = f.node.args.args[0].arg
    n = 0
    for fn in [x for x in (f.raw, f.node) if x is not None]:
        for comp in ast.walk(fn):
            gens = comp.generators if isinstance(comp, (ast.GeneratorExp, ast.ListComp, ast.SetComp)) else ([comp] if isinstance(comp, ast.For) else [])
            for g in gens:
                it = g.iter
                if not any(isinstance(x, ast.Name) and x.id == vp for x in ast.walk(it)):
                    continue
                elems = {t.id for t in ast.walk(g.target) if isinstance(t, ast.Name)}
                body = [comp.elt] if not isinstance(comp, ast.For) else comp.body
                for b in body:
                    for x in ast.walk(b):
                        if isinstance(x, ast.Call) and dotted(x.func) == "isinstance" and len(x.args) == 2 and isinstance(x.args[0], ast.Name) and x.args[0].id in elems:
                            n += 1
                            ck.violation("R-BOOLGUARD-TT", f, x, "is_instance checks the elements of a collection value with is_instance (bool/int and int/float rules included)", positive=True,
                                         construct=f"is_instance: {norm(x)[:50]} checks an element with bare isinstance — (1, True) passes tuple[int, ...], (1, 2.5) fails tuple[float, ...]")
                            return
    ck.holds("R-BOOLGUARD-TT", f, f.node, "is_instance checks the elements of a collection value with is_instance (no bare isinstance on an element)")


def r_invalid_types_source(ck: Checker) -> None:
    """InvalidTypes lists exactly the non-conforming fields of the construction: it is built in the gate of __post_init__ from the
    checker's result and nowhere else (positive pattern: another function constructs InvalidTypes — e.g. a handler that re-raises with a
    narrowed list)."""
    from .state_rules import _raw_functions
    n = 0
    for modname in (NODE, "pyoak.visitor", "pyoak.serialize", TYPING):
        m_ = ck.repo.mod(modname)
        for q, fn, _cls in _raw_functions(m_):
            for x in ast.walk(fn):
                if isinstance(x, ast.Call) and (dotted(x.func) or "").split(".")[-1] == "InvalidTypes":
                    n += 1
                    what = "InvalidTypes is constructed only by the type-check gate of ASTNode.__post_init__ (with the complete list of non-conforming fields)"
                    if modname == NODE and q.split(".")[-1] in ("__post_init__",) or ck.repo.is_new_helper(m_, q) and any(
                            isinstance(c, ast.Call) and (dotted(c.func) or "").endswith("_check_runtime_types") for c in ast.walk(fn)):
                        ck.holds("R-GATE", (m_.rel, q), x, what)
                    else:
                        ck.violation("R-GATE", (m_.rel, q), x, what, positive=True,
                                     construct=f"{q}: {norm(x)[:50]} — the error a caller sees no longer names exactly the non-conforming fields of the node that was built")
    if n == 0:
        ck.incomplete("R-GATE", None, None, "no construction of InvalidTypes found (1 confirmed by hand)")


def r_resolved_verbatim(ck: Checker) -> None:
    """The type a value is checked against is the field's whole resolved annotation: the second argument of every FieldTypeInfo(...)
    built in pyoak.typing is a name bound once (a parameter, or the hint read from the resolved table).  Positive pattern: that name is
    bound again from a *part* of the annotation (get_args(...), __args__, a member picked out of them) before it is stored — the stored
    type is then narrower than the annotation, e.g. the `| None` of an optional collection is lost and None stops conforming."""
    from .state_rules import _raw_functions
    m_ = ck.repo.mod(TYPING)
    n = 0
    PART = ("get_args", "__args__", "get_origin", "__origin__")
    for q, fn, _cls in _raw_functions(m_):
        for x in ast.walk(fn):
            if not (isinstance(x, ast.Call) and (dotted(x.func) or "").split(".")[-1] == "FieldTypeInfo"):
                continue
            arg = x.args[1] if len(x.args) > 1 else next((k.value for k in x.keywords if k.arg == "resolved_type"), None)
            if arg is None:
                continue
            n += 1
            what = f"{q}: the type stored as resolved_type is the whole resolved annotation"
            if not isinstance(arg, ast.Name):
                if any((isinstance(y, ast.Name) and y.id in PART) or (isinstance(y, ast.Attribute) and y.attr in PART) for y in ast.walk(arg)):
                    ck.violation("R-GATE", (m_.rel, q), x, what, positive=True,
                                 construct=f"{q}: FieldTypeInfo(..., {norm(arg)[:40]}) stores a part of the annotation — values the whole annotation admits (None of an optional) stop conforming")
                    continue
                raise Unsupported(f"{q}: resolved type given as {norm(arg)[:40]}", x)
            rebinds = [a for a in ast.walk(fn) if (isinstance(a, ast.Assign) and any(isinstance(t, ast.Name) and t.id == arg.id for t in a.targets))
                       or (isinstance(a, (ast.AnnAssign, ast.AugAssign)) and isinstance(a.target, ast.Name) and a.target.id == arg.id and getattr(a, "value", None) is not None)
                       or (isinstance(a, ast.NamedExpr) and a.target.id == arg.id)]
            is_param = arg.id in {a.arg for a in fn.args.args + fn.args.kwonlyargs + fn.args.posonlyargs}
            is_param = is_param or any(isinstance(a, (ast.For, ast.comprehension)) and any(isinstance(y, ast.Name) and y.id == arg.id for y in ast.walk(a.target)) for a in ast.walk(fn))
            extra = rebinds if is_param else rebinds[1:] if len(rebinds) > 1 else []
            # locals that hold parts of the annotation (members = get_args(t); m = members[0])
            parts: set[str] = set()
            for _ in range(3):
                for a in ast.walk(fn):
                    tgt = None
                    if isinstance(a, ast.Assign) and len(a.targets) == 1:
                        tgt, val = a.targets[0], a.value
                    elif isinstance(a, ast.NamedExpr):
                        tgt, val = a.target, a.value
                    elif isinstance(a, (ast.For, ast.comprehension)):
                        tgt, val = a.target, a.iter
                    if tgt is None:
                        continue
                    if any((isinstance(y, ast.Name) and (y.id in PART or y.id in parts)) or (isinstance(y, ast.Attribute) and y.attr in PART) for y in ast.walk(val)):
                        parts |= {y.id for y in ast.walk(tgt) if isinstance(y, ast.Name)}
            bad = [r for r in extra if any((isinstance(y, ast.Name) and (y.id in PART or y.id in parts)) or (isinstance(y, ast.Attribute) and y.attr in PART)
                                           for y in ast.walk(r.value))]
            if bad:
                ck.violation("R-GATE", (m_.rel, q), bad[0], what, positive=True,
                             construct=f"{q}: `{norm(bad[0])[:60]}` re-binds the name that is stored as resolved_type to a part of the annotation — values the whole annotation admits (None of an optional) stop conforming")
            elif extra:
                raise Unsupported(f"{q}: `{arg.id}` (stored as resolved_type) is bound again: {norm(extra[0])[:50]}", extra[0])
            else:
                ck.holds("R-GATE", (m_.rel, q), x, what)
    if n < 2:
        ck.incomplete("R-GATE", None, None, f"only {n} FieldTypeInfo constructions found in pyoak.typing (2 confirmed by hand: get_type_info, process_node_fields)")


def r_member_by_eq(ck: Checker) -> None:
    """`value in C` inside is_instance: the candidate is an arbitrary object (a list given for a Literal field).  Membership in a tuple or
    list compares with ==; membership in a set / frozenset / dict hashes the candidate first and raises TypeError for an unhashable one, so
    an ill-typed value escapes as TypeError instead of being reported as non-conforming (positive pattern: the container is a hash container)."""
    f = ck.repo.func(TYPING, "is_instance")
    vp = f.node.args.args[0].arg
    tree = ck.repo.mod(TYPING).tree
    helpers = {st.name: st for st in tree.body if isinstance(st, ast.FunctionDef)}

    def container(e: ast.expr, depth: int = 0) -> ast.expr:
        if isinstance(e, ast.Call) and isinstance(e.func, ast.Name) and e.func.id in helpers and depth < 3:
            rets = [r for r in walk_body(helpers[e.func.id].body) if isinstance(r, ast.Return) and r.value is not None]
            if len(rets) == 1:
                return container(rets[0].value, depth + 1)
        if isinstance(e, ast.Name):
            defs = [st for st in walk_body(f.node.body) if isinstance(st, ast.Assign) and len(st.targets) == 1 and norm(st.targets[0]) == e.id]
            if len(defs) == 1 and depth < 3:
                return container(defs[0].value, depth + 1)
        return e
    n = 0
    for fn in [x for x in (f.raw, f.node) if x is not None]:
        for c in ast.walk(fn):
            if isinstance(c, ast.Compare) and len(c.ops) == 1 and isinstance(c.ops[0], (ast.In, ast.NotIn)) and norm(c.left) == vp:
                n += 1
                e = container(c.comparators[0])
                what = "is_instance: a membership test of the value compares with == (no hashing of a possibly unhashable candidate)"
                hashy = isinstance(e, (ast.Set, ast.SetComp, ast.Dict, ast.DictComp)) or \
                    (isinstance(e, ast.Call) and dotted(e.func) in ("set", "frozenset", "dict", "dict.fromkeys", "collections.Counter", "Counter"))
                if hashy:
                    ck.violation("R-BOOLGUARD-TT", f, c, what, positive=True,
                                 construct=f"is_instance: `{norm(c)[:50]}` tests membership in {norm(e)[:40]} — an unhashable value raises TypeError instead of giving False")
                else:
                    ck.holds("R-BOOLGUARD-TT", f, c, what, container=norm(e)[:40])
    if n == 0:
        ck.incomplete("R-BOOLGUARD-TT", f, f.node, "no membership test of the value found in is_instance (the Literal arm was confirmed by hand)")


def run(ck: Checker) -> None:
    ck.explanation = (
        "Truth table of the leading bool/int guard of is_instance over its identity atoms (must equal: annotation is int AND value is a bool), "
        "dominance of the fixed-tuple zip by a length-equality exit (decision tree of is_instance with integer domains for the lengths), "
        "and the gating block of __post_init__: entered exactly under config.RUNTIME_TYPE_CHECK, free of effects, checks every field except "
        "id/content_id irrespective of init, raises InvalidTypes with exactly the non-conforming fields. is_instance over the whole annotation "
        "grammar is not decided."
    )
    ck.rule_text = "one obligation per guard / zip site / gate clause; evaluations = truth-table rows or decision leaves"
    ck.assumptions += ["typing introspection helpers (get_args, get_origin) behave as documented"]
    ck.guard("R-BOOLGUARD-TT", lambda: r_boolguard(ck))
    ck.guard("R-ZIPGUARD", lambda: r_zipguard_tuple(ck))
    ck.guard("R-GATE", lambda: r_gate(ck))
    # the types the values are checked against are the annotations as resolved by get_type_hints (shared with C11)
    from .c11 import r_normalise
    ck.guard("R-NORMALISE", lambda: r_normalise(ck))
    ck.guard("R-UNION-FIRST", lambda: r_union_first(ck))
    ck.guard("R-BOOLGUARD-TT", lambda: r_member_by_eq(ck))
    ck.guard("R-BOOLGUARD-TT", lambda: r_items_recursive(ck))
    ck.guard("R-GATE", lambda: r_invalid_types_source(ck))
    ck.guard("R-GATE", lambda: r_resolved_verbatim(ck))
    from . import state_rules as S13
    ck.guard("R-GATE", lambda: S13.r_iter_stored(ck, "R-GATE", ("pyoak.node", "pyoak.typing", "pyoak.types")))
    ck.guard("R-BOOLGUARD-TT", lambda: S13.r_memo_keeps_alive(ck, "R-BOOLGUARD-TT", (TYPING, NODE), "the value of a field is checked each time it is given"))
    from . import state_rules as S_
    ck.guard("R-GATE", lambda: S_.r_unstable_key(ck, "R-GATE", [(NODE, "_check_runtime_types"), (TYPING, "is_instance")], "each construction is checked on its own values"))
    from . import state_rules as S
    ck.guard("R-GATE", lambda: S.r_config_readonly(ck, "R-GATE", ("RUNTIME_TYPE_CHECK",)))
    from . import templates_rules as T13
    ck.guard("R-TYPES-CACHE", lambda: T13.r_types_cache(ck))  # the fields checked are read from the per-class table
    ck.require_count("R-GATE", 4)
