"""C11 — Every field annotation is soundly classified as child, property, or rejected."""
from __future__ import annotations

import ast

from ..astutil import dotted, norm, strip_docstring, walk_body
from ..dtree import decision_tree
from ..facts import facts_in
from ..finite import canon_cmp, k_eq, k_is, k_none
from ..report import Checker
from ..srcmodel import Func, Unsupported

TYPING = "pyoak.typing"


def _landing(stmts: list[ast.stmt]) -> list[str]:
    out = []
    for st in stmts:
        if isinstance(st, ast.Assign) and isinstance(st.targets[0], ast.Subscript):
            out.append("table:" + norm(st.targets[0].value))
        elif isinstance(st, ast.Expr) and isinstance(st.value, ast.Call) and isinstance(st.value.func, ast.Attribute) and st.value.func.attr == "append":
            out.append("reject:" + norm(st.value.func.value))
    return out


def _decision_table(ck: Checker, f: Func, lp: ast.For, tvar: str) -> dict[tuple, str] | None:
    """(has node type, child-valid, property-valid) -> landing kind"""
    preset: dict[str, bool] = {}
    # the values of InvalidTypeReason members are string constants: `<verdict>.value is None` is false
    enum = ck.repo.cls(TYPING, "InvalidTypeReason")
    members = [st for st in enum.node.body if isinstance(st, ast.Assign)]
    if members and all(isinstance(st.value, ast.Constant) and isinstance(st.value.value, str) for st in members):
        for c in ast.walk(lp):
            if isinstance(c, ast.Call) and dotted(c.func) == "is_valid_child_field_type":
                preset[k_none(norm(c) + ".value")] = False
    # get_type_info returns a FieldTypeInfo on every path (never None)
    gti = ck.repo.func(TYPING, "get_type_info")
    grets = [r for r in walk_body(gti.node.body) if isinstance(r, ast.Return)]
    built = {norm(st.targets[0]) for st in walk_body(gti.node.body) if isinstance(st, ast.Assign) and isinstance(st.value, ast.Call) and dotted(st.value.func) == "FieldTypeInfo"}
    if grets and all(r.value is not None and ((isinstance(r.value, ast.Call) and dotted(r.value.func) == "FieldTypeInfo") or norm(r.value) in built) for r in grets):
        preset[k_none(f"get_type_info({tvar})")] = False
    leaves = decision_tree(lp.body, alias_filter=lambda st: False, resolve="calls", preset=preset)
    table: dict[tuple, str] = {}
    for lf in leaves:
        a = lf.assign
        has = next((v for k, v in a.items() if k.startswith(f"has_check_type_in_type({tvar},")), None)
        okc = next((v for k, v in a.items() if k.startswith("eq(InvalidTypeReason.OK,") and f"is_valid_child_field_type({tvar}," in k), None)
        if okc is None:
            # a local holding the verdict (not inlined when it is used after an effectful statement)
            for k, v in a.items():
                if k.startswith("eq(InvalidTypeReason.OK,"):
                    okc = v
        okp = next((v for k, v in a.items() if k == f"is_valid_property_type({tvar})"), None)
        skip = [k for k in a if k not in (f"is_valid_property_type({tvar})",) and not k.startswith(("has_check_type_in_type(", "eq(InvalidTypeReason.OK"))]
        if any(a[k] for k in skip if k.startswith(("is_classvar", "is_initvar", "is_dataclass_kw_only"))):
            continue  # pseudo-fields are skipped by the definition-time check
        land = _landing(lf.stmts)
        if has is None:
            table[("?",)] = "undecided"
            continue
        key = (has, okc, okp)
        kind = "none" if not land else ",".join(sorted(x.split(":")[0] + (":" + x.split(":")[1] if x.startswith("table") else "") for x in land))
        table[key] = kind
    return table


def r_one_landing(ck: Checker) -> None:
    f = ck.repo.func(TYPING, "process_node_fields")
    fn = f.node
    loops = [st for st in fn.body if isinstance(st, ast.For)]
    if len(loops) != 1 or not (isinstance(loops[0].target, ast.Tuple) and len(loops[0].target.elts) == 2):
        raise Unsupported("process_node_fields is not a single loop over (field, type)", fn)
    lp = loops[0]
    what = "process_node_fields classifies the fields returned by get_field_types (the normalised annotations)"
    if norm(lp.iter) == f"get_field_types({fn.args.args[0].arg}).items()":
        ck.holds("R-ONE-LANDING", f, lp, what)
    else:
        ck.violation("R-ONE-LANDING", f, lp, what, construct=f"process_node_fields iterates {norm(lp.iter)[:60]}")
    tvar = norm(lp.target.elts[1])
    table = _decision_table(ck, f, lp, tvar)
    rets = [r for r in fn.body if isinstance(r, ast.Return)]
    if len(rets) != 1 or not isinstance(rets[0].value, ast.Tuple) or len(rets[0].value.elts) != 2:
        raise Unsupported("process_node_fields does not return (child fields, properties)", fn)
    child_t, prop_t = (norm(x) for x in rets[0].value.elts)
    want = {(True, True, None): f"table:{child_t}", (True, False, None): "reject", (False, None, True): f"table:{prop_t}", (False, None, False): "reject"}
    bad = []
    for k, v in want.items():
        if table.get(k) != v:
            bad.append(f"(mentions node type={k[0]}, valid child={k[1]}, valid property={k[2]}) lands in {table.get(k)!r}, expected {v!r}")
    extra = set(table) - set(want)
    if extra:
        bad.append(f"unexpected decision rows {sorted(map(str, extra))}")
    what = ("every field lands in exactly one of child table / property table / error list: an annotation that mentions a node type is a child "
            "or rejected, never a property")
    (ck.violation if bad else ck.holds)("R-ONE-LANDING", f, lp, what, evaluations=len(table), **({"construct": f"process_node_fields: {bad[0]}"} if bad else {"table": {str(k): v for k, v in table.items()}}))
    errv = next((norm(st.value.func.value) for st in walk_body(lp.body) if isinstance(st, ast.Expr) and isinstance(st.value, ast.Call)
                 and isinstance(st.value.func, ast.Attribute) and st.value.func.attr == "append"), None)
    idx = fn.body.index(lp)
    what = "a non-empty error list raises InvalidFieldAnnotations before anything is returned"
    if errv is None:
        raise Unsupported("process_node_fields: the error list was not identified", fn)
    ok = True
    for lf in decision_tree(fn.body[idx + 1:], sized=(errv,)):
        nerr = lf.assign.get(f"len({errv})")
        if nerr is None:
            ok = ok and lf.outcome == "raise"
        elif nerr > 0:
            ok = ok and lf.outcome == "raise" and lf.val() == f"InvalidFieldAnnotations({errv})"
        else:
            ok = ok and lf.outcome == "return"
    (ck.holds if ok else ck.violation)("R-ONE-LANDING", f, fn, what, **({} if ok else {"construct": "process_node_fields: error list is not raised"}))
    # caching of the classification per class
    t = ck.repo.func("pyoak.types", "_populate_type_dicts")
    what = "the per-class tables are filled from process_node_fields(cls, ASTNode)"
    from .templates_rules import populate_summary
    tabs, probs = populate_summary([st for st in t.node.body if isinstance(st, (ast.Assign, ast.AnnAssign))])
    ok = not probs and tabs["_TYPE_TO_CHILD_FIELDS"].get("cls") == "CH" and tabs["_TYPE_TO_PROPS"].get("cls") == "PR"
    if not ok and any(isinstance(n, (ast.If, ast.For, ast.While, ast.Try)) for n in t.node.body):
        raise Unsupported("_populate_type_dicts is not straight-line code", t.node)
    (ck.holds if ok else ck.violation)("R-ONE-LANDING", t, t.node, what, **({} if ok else {"construct": "_populate_type_dicts: tables not filled as (child fields, props) = process_node_fields(cls, ASTNode)"}))


def r_classify_sibling(ck: Checker) -> None:
    f = ck.repo.func(TYPING, "check_annotations")
    p = ck.repo.func(TYPING, "process_node_fields")
    lp1 = [st for st in walk_body(f.node.body) if isinstance(st, ast.For)]
    lp2 = [st for st in p.node.body if isinstance(st, ast.For)]
    if len(lp1) != 1 or len(lp2) != 1:
        raise Unsupported("classification loops not found", f.node)
    t1 = _decision_table(ck, f, lp1[0], norm(lp1[0].target.elts[1]))
    t2 = _decision_table(ck, p, lp2[0], norm(lp2[0].target.elts[1]))

    def verdicts(t: dict) -> dict:
        return {k: ("reject" if v.startswith("reject") else "accept") for k, v in t.items()}

    what = "the definition-time check and the authoritative classification have the same decision table (same predicates, same polarity)"
    v1, v2 = verdicts(t1), verdicts(t2)
    if v1 == v2 and len(v1) == 4:
        ck.holds("R-CLASSIFY-SIBLING", f, lp1[0], what, evaluations=len(v1), table={str(k): v for k, v in v1.items()})
    else:
        diff = {str(k): (v1.get(k), v2.get(k)) for k in set(v1) | set(v2) if v1.get(k) != v2.get(k)}
        ck.violation("R-CLASSIFY-SIBLING", f, lp1[0], what, also=(p,), construct=f"check_annotations vs process_node_fields differ on {diff}")
    what = "check_annotations reads the annotations through get_type_hints and raises InvalidFieldAnnotations when any field is rejected"
    txt = norm(f.node)
    tparam = f.node.args.args[0].arg
    # the list the rejections are appended to is what is raised
    errs = {norm(c.func.value) for c in walk_body(lp1[0].body) if isinstance(c, ast.Call) and isinstance(c.func, ast.Attribute) and c.func.attr == "append"}
    raised = [r for r in walk_body(f.node.body) if isinstance(r, ast.Raise) and isinstance(r.exc, ast.Call) and dotted(r.exc.func) == "InvalidFieldAnnotations"]
    ok = f"get_type_hints({tparam})" in txt and len(errs) == 1 and any([norm(a) for a in r.exc.args] == sorted(errs) for r in raised) and "except NameError" in txt
    (ck.holds if ok else ck.violation)("R-CLASSIFY-SIBLING", f, f.node, what, **({} if ok else {"construct": "check_annotations: normaliser / raise / forward-reference handling not recognised"}))
    isc = ck.repo.func("pyoak.node", "ASTNode.__init_subclass__")
    what = "every subclass definition runs check_annotations(cls, ASTNode)"
    ok = any(isinstance(c, ast.Call) and dotted(c.func) == "check_annotations" and [norm(a) for a in c.args] == ["cls", "ASTNode"] for c in walk_body(isc.node.body))
    (ck.holds if ok else ck.violation)("R-CLASSIFY-SIBLING", isc, isc.node, what, **({} if ok else {"construct": "__init_subclass__ does not call check_annotations(cls, ASTNode)"}))


def r_normalise(ck: Checker) -> None:
    f = ck.repo.func(TYPING, "get_field_types")
    fn = f.node
    # a positive pattern: the hints are put together class by class in MRO order with dict.update: a base class comes later than its
    # subclass in __mro__, so the annotation of the base wins over the override
    tp0 = fn.args.args[0].arg
    for lp_ in [st for st in fn.body if isinstance(st, ast.For)]:
        it_ = lp_.iter
        mro = (isinstance(it_, ast.Attribute) and it_.attr == "__mro__" and norm(it_.value) == tp0) or \
            (isinstance(it_, ast.Call) and dotted(it_.func) in ("getmro", "inspect.getmro") and it_.args and norm(it_.args[0]) == tp0) or \
            (isinstance(it_, ast.Call) and isinstance(it_.func, ast.Attribute) and it_.func.attr == "mro" and norm(it_.func.value) == tp0)
        if mro and any(isinstance(c, ast.Call) and isinstance(c.func, ast.Attribute) and c.func.attr == "update" for c in walk_body(lp_.body)):
            ck.violation("R-NORMALISE", f, lp_, "the annotation of a field is the one of the most derived class that declares it (what get_type_hints(cls) gives)",
                         positive=True, construct="get_field_types: per-class hints are merged with dict.update while walking __mro__ from the class to its bases: the base's annotation overwrites "
                         "the subclass's override")
            return
    loops = [st for st in fn.body if isinstance(st, ast.For)]
    if len(loops) != 1:
        raise Unsupported("get_field_types is not a single loop over fields()", fn)
    lp = loops[0]
    fv = norm(lp.target)
    what = ("every annotation that reaches the classifier was resolved by get_type_hints (nested forward references evaluated, None mapped "
            "to NoneType), whichever way it is spelled")
    bad = None
    tp = fn.args.args[0].arg
    def is_hints_call(e: ast.expr | None) -> bool:
        return isinstance(e, ast.Call) and dotted(e.func) in ("get_type_hints", "typing.get_type_hints", "t.get_type_hints") and bool(e.args) and norm(e.args[0]) == tp

    hints_vars = {norm(st.targets[0] if isinstance(st, ast.Assign) else st.target) for st in fn.body if isinstance(st, (ast.Assign, ast.AnnAssign))
                  and is_hints_call(st.value)} | {norm(c_) for c_ in ast.walk(fn) if is_hints_call(c_)}  # type: ignore[arg-type]

    def prov(e: ast.expr, env: dict[str, set[str]]) -> set[str]:
        """Where a value comes from: 'hints' (an entry of get_type_hints(type_) for this field), 'none', 'raw' (field.type), 'other'."""
        if isinstance(e, ast.Name):
            return env.get(e.id, {"other"})
        if isinstance(e, ast.Constant) and e.value is None:
            return {"none"}
        if isinstance(e, ast.Subscript) and norm(e.value) in hints_vars and norm(e.slice) == f"{fv}.name":
            return {"hints"}
        if isinstance(e, ast.Call) and isinstance(e.func, ast.Attribute) and e.func.attr == "get" and norm(e.func.value) in hints_vars \
                and e.args and norm(e.args[0]) == f"{fv}.name" and (len(e.args) == 1 or isinstance(e.args[1], ast.Constant) and e.args[1].value is None):
            return {"hints"}
        if isinstance(e, ast.Call) and dotted(e.func) in ("unwrap_newtype", "cast", "t.cast") and e.args:
            return prov(e.args[-1], env)
        if isinstance(e, ast.IfExp):
            return prov(e.body, env) | prov(e.orelse, env)
        if isinstance(e, ast.Subscript) and (dotted(e.value) or "").split(".")[-1] in ("Optional", "Union") and "hints" in prov(e.slice.elts[0] if isinstance(e.slice, ast.Tuple) else e.slice, env):
            return {"widened"}
        if isinstance(e, ast.BinOp) and isinstance(e.op, ast.BitOr) and ("hints" in prov(e.left, env) or "hints" in prov(e.right, env)):
            return {"widened"}
        if isinstance(e, ast.Attribute) and e.attr == "__supertype__":
            return {"one-level"} | (prov(e.value, env) - {"hints"})
        if isinstance(e, ast.Attribute) and e.attr == "type" and norm(e.value) == fv:
            return {"raw"}
        if any(isinstance(n, ast.Attribute) and n.attr == "type" and norm(n.value) == fv for n in ast.walk(e)):
            return {"raw"}
        return {"other"}

    leaves = decision_tree(lp.body, max_atoms=10)
    n_store = 0
    widened = None
    for lf in leaves:
        env: dict[str, set[str]] = {}
        for st in lf.stmts:
            if isinstance(st, (ast.Assign, ast.AnnAssign)) and st.value is not None:
                tg = st.targets[0] if isinstance(st, ast.Assign) else st.target
                if isinstance(tg, ast.Name):
                    env[tg.id] = prov(st.value, env)
                elif isinstance(tg, ast.Subscript) and norm(tg.slice) == fv:
                    n_store += 1
                    p_ = prov(st.value, env)
                    if "widened" in p_:
                        widened = widened or st
                    elif "raw" in p_:
                        bad = bad or f"the stored type is read from {fv}.type"
                    elif "one-level" in p_:
                        bad = bad or "a NewType is unwrapped one level only (.__supertype__): a NewType of a NewType reaches the classifier unresolved"
                    elif "other" in p_:
                        raise Unsupported(f"get_field_types: stored value {norm(st.value)[:50]} has an unrecognised origin", lp)
    raw = [n for n in walk_body(lp.body) if isinstance(n, ast.Attribute) and n.attr == "type" and norm(n.value) == fv]
    if raw:
        bad = bad or f"raw {fv}.type is read"
    for c_ in ast.walk(fn):
        if isinstance(c_, ast.Call) and dotted(c_.func) in ("get_type_hints", "typing.get_type_hints", "t.get_type_hints"):
            extra = [k_.arg for k_ in c_.keywords if not (k_.arg == "include_extras" and isinstance(k_.value, ast.Constant) and k_.value.value is False)]
            if extra or len(c_.args) != 1:
                bad = bad or (f"get_type_hints is called with {', '.join(str(e) for e in extra) or 'extra arguments'}: the annotations reach the classifier in another form "
                              "(e.g. Annotated[...] wrappers kept)")
    if widened is not None:
        ck.violation("R-NORMALISE", f, widened, "the type stored for a field is its declared annotation (resolved), nothing wider", positive=True,
                     construct="get_field_types: the stored type is the annotation wrapped in Optional / a union built here — values the declared annotation rules out (None) "
                     "pass the run-time check, and the classification sees an annotation the class does not declare")
        return
    if not n_store and not bad:
        raise Unsupported("get_field_types: result store not found", lp)
    (ck.violation if bad else ck.holds)("R-NORMALISE", f, lp, what, **({"construct": f"get_field_types: {bad} (bypasses get_type_hints)"} if bad else {"evaluations": len(leaves)}))


def r_newtype(ck: Checker) -> None:
    names = ("has_check_type_in_type", "_is_valid_child_field_type", "is_valid_property_type")
    unwraps = {}
    for n in names:
        f = ck.repo.func(TYPING, n)
        rec = any(isinstance(c, ast.Call) and dotted(c.func) == n for c in walk_body(f.node.body))
        if not rec:
            raise Unsupported(f"{n} no longer recurses over the annotation's arguments", f.node)
        unwraps[n] = any(isinstance(c, ast.Call) and dotted(c.func) in ("is_new_type", "unwrap_newtype") for c in walk_body(f.node.body))
    gate = ck.repo.func(TYPING, "has_check_type_in_type")
    what = ("the predicates that recurse over an annotation agree on NewType: the gatekeeper has_check_type_in_type unwraps NewType at every "
            "level (otherwise a node class wrapped in a NewType inside a tuple/union is invisible to it and the field becomes a property)")
    if unwraps["has_check_type_in_type"] and unwraps["_is_valid_child_field_type"]:
        ck.holds("R-NEWTYPE", gate, gate.node, what, unwraps=unwraps)
    else:
        ck.violation("R-NEWTYPE", gate, gate.node, what,
                     construct="has_check_type_in_type / _is_valid_child_field_type do not unwrap NewType while recursing (only the top level is unwrapped)",
                     unwraps=unwraps)


def r_quantify_all(ck: Checker) -> None:
    """Predicates over the members of a union / the arguments of a generic consider every member: the members are
    consumed only by any()/all() generators (or the enumerated variadic-tuple idiom), never by position or first-match."""
    for name in ("is_optional", "has_check_type_in_type", "is_valid_property_type", "_is_valid_child_field_type"):
        f = ck.repo.func(TYPING, name)
        fn = f.node
        parents: dict[int, ast.AST] = {}
        for p in ast.walk(fn):
            for c in ast.iter_child_nodes(p):
                parents[id(c)] = p
        fsem = facts_in(fn)
        argvars = {norm(st.targets[0]) for st in walk_body(fn.body) if isinstance(st, ast.Assign) and isinstance(st.value, ast.Call)
                   and dotted(st.value.func) == "get_args" and isinstance(st.targets[0], ast.Name)}
        uses: list[ast.AST] = []
        for n in walk_body(fn.body):
            if isinstance(n, ast.Call) and dotted(n.func) == "get_args":
                p = parents.get(id(n))
                if not (isinstance(p, ast.Assign) and p.value is n):
                    uses.append(n)
            elif isinstance(n, ast.Name) and isinstance(n.ctx, ast.Load) and n.id in argvars:
                uses.append(n)
        bad = []
        ok_n = 0
        for u in uses:
            p = parents.get(id(u))
            if isinstance(p, ast.comprehension) and p.iter is u:
                gen = parents.get(id(p))
                call = parents.get(id(gen))
                if isinstance(gen, (ast.GeneratorExp, ast.ListComp)) and isinstance(call, ast.Call) and dotted(call.func) in ("any", "all"):
                    ok_n += 1
                else:
                    bad.append(f"members consumed by {norm(call)[:60] if call is not None else norm(gen)[:60]} (not any()/all() over all members)")
            elif isinstance(p, ast.Call) and dotted(p.func) == "len":
                ok_n += 1
            elif isinstance(p, ast.Subscript) and p.value is u:
                idx = norm(p.slice)
                gp = parents.get(id(p))
                # enumerated idiom: tuple[X, ...]  ->  len(args) == 2 and args[1] is Ellipsis ; then args[0]
                k_ell = k_is(f"{norm(u)}[1]", "Ellipsis")
                if idx == "1" and isinstance(gp, ast.Compare) and (canon_cmp(gp) or ("",))[0] == k_ell:
                    ok_n += 1
                elif idx == "0" and fsem.at.get(id(p)) and all((k_ell, True) in st_ for st_ in fsem.at[id(p)]):
                    ok_n += 1  # reached only where the annotation is the variadic tuple[X, ...]
                else:
                    bad.append(f"member selected by position: {norm(p)}")
            elif isinstance(p, ast.Compare) and isinstance(p.ops[0], (ast.In, ast.NotIn)) and p.comparators[0] is u:
                ok_n += 1
            elif isinstance(p, ast.Call) and dotted(p.func) in ("next", "iter", "list", "tuple", "min", "max", "sorted"):
                bad.append(f"members consumed by {norm(p)[:60]} (first match / re-ordering)")
            else:
                ok_n += 1
        what = f"{name}: the members of a union / generic are quantified over with any()/all() (never selected by position or first match)"
        if bad:
            ck.violation("R-QUANTIFY-ALL", f, fn, what, construct=f"{name}: {bad[0]}")
        elif not uses:
            ck.incomplete("R-QUANTIFY-ALL", f, fn, f"{name} no longer looks at get_args()")
        else:
            ck.holds("R-QUANTIFY-ALL", f, fn, what, evaluations=len(uses))


def _enclosing_if_test(n: ast.AST, parents: dict[int, ast.AST]) -> ast.expr | None:
    cur = n
    while id(cur) in parents:
        prev, cur = cur, parents[id(cur)]
        if isinstance(cur, ast.If) and any(prev is s for s in cur.body):
            return cur.test
    return None


MUTABLE_BUILTINS = {"list", "dict", "set", "bytearray", "deque", "collections.deque", "defaultdict", "collections.defaultdict", "OrderedDict", "collections.OrderedDict",
                    "Counter", "collections.Counter", "array", "array.array", "MutableSequence", "MutableMapping", "MutableSet", "UserList", "UserDict"}


def r_collection_exclusions(ck: Checker) -> None:
    """is_collection is the door to the mutability test: is_valid_property_type asks is_mutable_collection only for what is_collection lets
    in.  A type that is_collection declares "not a collection" (the `not issubclass(x, (...))` part) is accepted as a property without further
    questions, so that list may only hold immutable types (positive pattern: a mutable builtin / ABC among the exclusions)."""
    f = ck.repo.func(TYPING, "is_collection")
    tree = ck.repo.mod(TYPING).tree
    consts = {st.targets[0].id: st.value for st in tree.body if isinstance(st, ast.Assign) and len(st.targets) == 1 and isinstance(st.targets[0], ast.Name)}
    n = 0
    for fn in [x for x in (f.raw, f.node) if x is not None]:
        for c in ast.walk(fn):
            if not (isinstance(c, ast.UnaryOp) and isinstance(c.op, ast.Not) and isinstance(c.operand, ast.Call) and dotted(c.operand.func) == "issubclass" and len(c.operand.args) == 2):
                continue
            n += 1
            e = c.operand.args[1]
            if isinstance(e, ast.Name) and e.id in consts:
                e = consts[e.id]
            elts = e.elts if isinstance(e, (ast.Tuple, ast.List)) else [e]
            names = [dotted(x) or norm(x) for x in elts]
            if names in (["Collection"], ["collections.abc.Collection"], ["abc.Collection"]):
                n -= 1
                continue  # (the negation of the membership test itself, as the normaliser spells a guard clause)
            what = "is_collection excludes only immutable types from the collections (whatever it excludes skips the mutability test of properties)"
            bad = [x for x in names if x in MUTABLE_BUILTINS]
            unknown = [x for x in names if x not in MUTABLE_BUILTINS and x not in ("str", "bytes", "frozenset", "tuple", "range", "memoryview")]
            if bad:
                ck.violation("R-QUANTIFY-ALL", f, c, what, positive=True,
                             construct=f"is_collection: {norm(c)[:70]} — `{bad[0]}` is mutable, and an annotation is_collection turns away is never asked for mutability: it becomes a valid property")
            elif unknown:
                raise Unsupported(f"is_collection excludes {unknown[0]}", c)
            else:
                ck.holds("R-QUANTIFY-ALL", f, c, what, excluded=names)
    if n == 0:
        ck.incomplete("R-QUANTIFY-ALL", f, f.node, "is_collection: no `not issubclass(x, ...)` exclusion found (2 confirmed by hand)")


def r_gatekeeper(ck: Checker) -> None:
    """has_check_type_in_type: a negative answer is only ever the answer of the recursion over *all* arguments of the annotation
    (an early `return False` for some kinds of annotation makes node classes inside them invisible: the field silently becomes
    a property).  is_mutable_collection recognises mutability through the Mutable* ABCs (deque, UserList, ... are mutable too)."""
    f = ck.repo.func(TYPING, "has_check_type_in_type")
    tp = f.node.args.args[0].arg
    what = "has_check_type_in_type answers False only as the result of examining every argument of the annotation"
    leaves = decision_tree(strip_docstring(f.node.body), try_as_body=True, resolve=True, max_atoms=10)
    bad = None
    n_rec = 0
    for lf in leaves:
        if lf.outcome != "return" or lf.value is None:
            continue
        v = lf.value
        if isinstance(v, ast.Constant) and v.value is True:
            continue
        if isinstance(v, ast.Constant) and v.value is False:
            # ... unless a search loop over all arguments ran first (the loop spelling of any(...))
            searched = False
            for st_ in lf.stmts:
                if isinstance(st_, ast.For) and norm(st_.iter) == f"get_args({tp})" and isinstance(st_.target, ast.Name) and not st_.orelse \
                        and len(st_.body) == 1 and isinstance(st_.body[0], ast.If) and not st_.body[0].orelse \
                        and norm(st_.body[0].test) == f"has_check_type_in_type({st_.target.id}, check_type)" \
                        and len(st_.body[0].body) == 1 and isinstance(st_.body[0].body[0], ast.Return) and norm(st_.body[0].body[0].value) == "True":
                    searched = True
            if searched:
                n_rec += 1
                continue
            if any(isinstance(st_, (ast.For, ast.While)) for st_ in lf.stmts):
                raise Unsupported("has_check_type_in_type: loop before `return False` not recognised as the search over all arguments", f.node)
            bad = f"returns False when {lf.assign} without looking at get_args({tp})"
            continue
        from ..astutil import alpha
        if alpha(v) in (f"any((has_check_type_in_type(_b0, check_type) for _b0 in get_args({tp})))",) or (
                "has_check_type_in_type(" in norm(v) and f"get_args({tp})" in norm(v) and norm(v).startswith("any(")):
            n_rec += 1
            continue
        raise Unsupported(f"has_check_type_in_type returns {norm(v)[:60]}", f.node)
    if bad:
        ck.violation("R-QUANTIFY-ALL", f, f.node, what, construct=f"has_check_type_in_type: {bad}")
    elif not n_rec:
        raise Unsupported("has_check_type_in_type: recursion over the arguments not found", f.node)
    else:
        ck.holds("R-QUANTIFY-ALL", f, f.node, what, evaluations=len(leaves))
    g = ck.repo.func(TYPING, "is_mutable_collection")
    what = "is_mutable_collection tests against MutableSequence / MutableMapping / MutableSet"
    subs = [c for c in ast.walk(g.node) if isinstance(c, ast.Call) and dotted(c.func) == "issubclass" and len(c.args) == 2]
    names = {x.id for c in subs for x in ast.walk(c.args[1]) if isinstance(x, ast.Name)} | {x.attr for c in subs for x in ast.walk(c.args[1]) if isinstance(x, ast.Attribute)}
    # a module-level tuple of classes used as the second argument
    from ..loops import module_constant
    for c in subs:
        if isinstance(c.args[1], ast.Name):
            mc = module_constant(g.mod.tree, c.args[1].id)
            if isinstance(mc, (ast.Tuple, ast.List)):
                names |= {norm(x).split(".")[-1] for x in mc.elts}
            else:
                for st in g.mod.tree.body:
                    if isinstance(st, (ast.Assign, ast.AnnAssign)) and norm(st.targets[0] if isinstance(st, ast.Assign) else st.target) == c.args[1].id \
                            and isinstance(st.value, (ast.Tuple, ast.List)):
                        names |= {norm(x).split(".")[-1] for x in st.value.elts}
    need = {"MutableSequence", "MutableMapping", "MutableSet"}
    if not subs:
        raise Unsupported("is_mutable_collection: no issubclass test", g.node)
    if need <= names:
        ck.holds("R-QUANTIFY-ALL", g, g.node, what)
    else:
        ck.violation("R-QUANTIFY-ALL", g, g.node, what, construct=f"is_mutable_collection tests against {sorted(names)} (mutable collections outside this list are accepted as property types)")


def r_child_kind(ck: Checker, rule: str = "R-CHILD-KIND") -> None:
    """The collection flag of a child field is decided by the tuple shape of its annotation, never by an ABC test that a
    node class itself can satisfy (a node defining __len__/__iter__/__contains__ is a collections.abc.Collection)."""
    f = ck.repo.func(TYPING, "process_node_fields")
    lp = [st for st in f.node.body if isinstance(st, ast.For)]
    if len(lp) != 1:
        raise Unsupported("process_node_fields loop not found", f.node)
    tvar = norm(lp[0].target.elts[1])
    rets = [r for r in f.node.body if isinstance(r, ast.Return)]
    child_t = norm(rets[0].value.elts[0])
    what = "a child field is a sequence of children iff its annotation is a tuple (FieldTypeInfo(is_tuple(type), type))"
    # the stores into the child table along the (resolved) paths of the loop body
    seen_vals: dict[str, ast.Assign] = {}
    for lf in decision_tree(lp[0].body, alias_filter=lambda st: False, resolve="calls", max_atoms=14):
        for st in lf.stmts:
            if isinstance(st, ast.Assign) and isinstance(st.targets[0], ast.Subscript) and norm(st.targets[0].value) == child_t:
                seen_vals.setdefault(norm(st.value), st)
    stores = list(seen_vals.values())
    if len(stores) != 1:
        raise Unsupported(f"child table store not found ({len(stores)} different stored values)", lp[0])
    v = norm(stores[0].value)
    sv = stores[0].value
    canon = None
    if isinstance(sv, ast.Call) and dotted(sv.func) == "FieldTypeInfo" and not any(isinstance(x, ast.Starred) for x in sv.args):
        flds = [st.target.id for st in ck.repo.cls(TYPING, "FieldTypeInfo").node.body if isinstance(st, ast.AnnAssign) and isinstance(st.target, ast.Name)]
        slots: dict[str, str] = dict(zip(flds, (norm(x) for x in sv.args)))
        for k in sv.keywords:
            if k.arg:
                slots[k.arg] = norm(k.value)
        canon = [slots.get(x) for x in flds]
    if canon == [f"is_tuple({tvar})", tvar]:
        ck.holds(rule, f, stores[0], what)
    elif canon is None and "get_type_info" not in v and "is_collection" not in v:
        raise Unsupported(f"process_node_fields: child field info {v[:60]} is not a FieldTypeInfo construction", stores[0])
    else:
        ck.violation(rule, f, stores[0], what, construct=f"process_node_fields: child field info is {v} (is_collection is an ABC test that node classes can satisfy)")
    g = ck.repo.func(TYPING, "is_tuple")
    p = g.node.args.args[0].arg
    leaves = decision_tree(strip_docstring(g.node.body), try_as_body=True)
    k1, k2 = k_is(f"get_origin({p})", "tuple"), k_is(f"get_origin({p})", "Tuple")
    what = "is_tuple recognises tuple annotations by their origin (tuple / typing.Tuple)"
    ok = any(lf.assign.get(k1) is True and lf.val() == "True" for lf in leaves) and any(lf.assign.get(k2) is True and lf.val() == "True" for lf in leaves)
    if ok:
        ck.holds(rule, g, g.node, what, evaluations=len(leaves))
    elif any(k1 in lf.assign or k2 in lf.assign for lf in leaves):
        ck.violation(rule, g, g.node, what, construct="is_tuple: a tuple origin does not yield True")
    else:
        raise Unsupported("is_tuple: origin test not recognised", g.node)

def run(ck: Checker) -> None:
    ck.explanation = (
        "Decision tables of the two classification loops (process_node_fields, check_annotations) over the three predicate outcomes: one landing "
        "per field, node-mentioning annotations are never properties, rejection raises; both loops have the same table; every annotation is "
        "normalised by get_type_hints before it is classified; sibling agreement of the recursive predicates on NewType (known finding). "
        "Correctness of the shape predicates over the typing grammar depends on CPython's run-time typing objects and is not decided."
    )
    ck.rule_text = "one obligation per decision table / normaliser path / sibling set"
    ck.assumptions += ["typing.get_type_hints resolves nested forward references and maps None to NoneType"]
    ck.guard("R-ONE-LANDING", lambda: r_one_landing(ck))
    ck.guard("R-CLASSIFY-SIBLING", lambda: r_classify_sibling(ck))
    ck.guard("R-NORMALISE", lambda: r_normalise(ck))
    ck.guard("R-NEWTYPE", lambda: r_newtype(ck))
    ck.guard("R-QUANTIFY-ALL", lambda: r_quantify_all(ck))
    ck.guard("R-QUANTIFY-ALL", lambda: r_gatekeeper(ck))
    ck.guard("R-QUANTIFY-ALL", lambda: r_collection_exclusions(ck))
    ck.guard("R-CHILD-KIND", lambda: r_child_kind(ck))
    from . import templates_rules as T
    ck.guard("R-TYPES-CACHE", lambda: T.r_types_cache(ck))
    from . import state_rules as S
    ck.guard("R-QUANTIFY-ALL", lambda: S.r_visited_key(ck, "R-QUANTIFY-ALL", ("pyoak.typing",)))  # every member of an annotation is judged, not the first of its kind
    ck.require_count("R-ONE-LANDING", 4)
    ck.require_count("R-CLASSIFY-SIBLING", 3)
