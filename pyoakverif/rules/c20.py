"""C20 — Legacy traversal and legacy XPath follow the same semantics as their successors."""
from __future__ import annotations

import ast

from ..astutil import dotted, norm, strip_docstring, walk_body
from ..digest import Lit, eval_str
from ..dtree import bool_function
from ..finite import k_eq, k_is, k_none
from ..report import Checker
from ..srcmodel import Func, Unsupported
from ..worklist import Model
from .c05 import check_ctrldep, check_gather, check_worklist, late_bound_deferred
from .c07 import r_gram_arity
from .c17 import r_exc_escape

LNODE = "pyoak.legacy.node"
LXP = "pyoak.legacy.match.xpath"


def check_legacy_seed_and_records(ck: Checker, f: Func, m: Model, mtxt: str) -> None:
    what = f"{f.qualname}({mtxt}): the worklist is seeded with the start node itself; every put is a child of the taken node"
    bad = None
    seeds = m.seed_puts
    if len(seeds) != 1 or seeds[0].seq is not None or norm(seeds[0].record) != "self":
        bad = f"seeded with {[norm(p.record) if p.seq is None else 'children of ' + p.seq.owner for p in seeds]}"
    for p in m.loop_puts:
        if p.seq is None:
            bad = f"single put {norm(p.record)}"
        elif p.seq.owner != m.take_var:
            bad = f"children of {p.seq.owner} put (taken element is {m.take_var})"
        elif p.seq.method not in ("get_child_nodes", "children"):
            bad = f"children enumerated with {p.seq.method}"
        elif p.targets is None or norm(p.record) != norm(p.targets):
            if not (norm(p.record) == "<element>"):
                bad = f"puts {norm(p.record)} for loop variable {norm(p.targets) if p.targets is not None else None}"
    if bad:
        ck.violation("R-WORKLIST", f, m.loop, what, construct=f"{f.qualname}({mtxt}): {bad}")
    else:
        ck.holds("R-WORKLIST", f, m.loop, what)


def r_traversals(ck: Checker) -> None:
    dfs = ck.repo.func(LNODE, "AwareASTNode.dfs")
    bfs = ck.repo.func(LNODE, "AwareASTNode.bfs")
    for trav in (dfs, bfs):
        late = late_bound_deferred(trav)
        if late:
            ck.violation("R-WORKLIST", trav, trav.node, f"{trav.qualname}: no deferred group reads a loop variable after it is rebound",
                         positive=True, construct=f"{trav.qualname}: {late}")
            return
    for mode, exp in (({"bottom_up": False}, "pre-order"), ({"bottom_up": True}, "post-order")):
        m = check_worklist(ck, dfs, mode, exp, legacy=True)
        check_legacy_seed_and_records(ck, dfs, m, ",".join(f"{k}={v}" for k, v in mode.items()))
        ck.guard("R-CTRLDEP", lambda m=m: check_ctrldep(ck, dfs, m, legacy=True), dfs)
    m = check_worklist(ck, bfs, {}, "level order", legacy=True)
    check_legacy_seed_and_records(ck, bfs, m, "-")
    ck.guard("R-CTRLDEP", lambda: check_ctrldep(ck, bfs, m, legacy=True), bfs)


def r_xpath_spell(ck: Checker) -> None:
    f = ck.repo.func(LNODE, "_set_xpath")
    nodep, pxp = f.node.args.args[0].arg, f.node.args.args[1].arg
    from ..digest import is_strish
    xs = [st for st in f.node.body if isinstance(st, ast.Assign) and is_strish(st.value, {})]
    what = "_set_xpath extends the parent's path with '/@<parent field>[<parent index or 0>]<Class>'"
    ok = False
    if len(xs) == 1:
        segs = eval_str(xs[0].value, {}, {})
        desc = [(s.text if isinstance(s, Lit) else "{" + s.src + "}") for s in segs]
        ok = desc == ["{" + pxp + "}", "/@", "{" + nodep + ".parent_field.name}", "[", "{" + nodep + ".parent_index or '0'}", "]", "{" + nodep + ".__class__.__name__}"]
        xv = norm(xs[0].targets[0])
        if not ok:
            # a step spelled by a helper of later origin that could not be folded into the text: not read, hence not judged
            helpers_ = {st.name for st in ck.repo.mod(LNODE).tree.body if isinstance(st, ast.FunctionDef)}
            for s_ in segs:
                if not isinstance(s_, Lit):
                    try:
                        e_ = ast.parse(s_.src, mode="eval").body
                    except SyntaxError:
                        continue
                    called = [c for c in ast.walk(e_) if isinstance(c, ast.Call) and isinstance(c.func, ast.Name) and c.func.id in helpers_ and ck.repo.is_new_helper(ck.repo.mod(LNODE), c.func.id)]
                    if called:
                        raise Unsupported(f"_set_xpath: the step is spelled by the helper {called[0].func.id}(), which was not folded into the text", f.node)
    (ck.holds if ok else ck.violation)("R-LEG-XPATH-SPELL", f, f.node, what, **({} if ok else {"construct": f"_set_xpath builds {[norm(x.value)[:90] for x in xs]}"}))
    if ok:
        sets = [c for c in walk_body(f.node.body) if isinstance(c, ast.Call) and dotted(c.func) == "object.__setattr__" and [norm(a) for a in c.args] == [nodep, "'_xpath'", xv]]
        rec = [st for st in f.node.body if isinstance(st, ast.For) and norm(st.iter) == f"{nodep}.get_child_nodes()" and len(st.body) == 1
               and norm(st.body[0]) in (f"_set_xpath({norm(st.target)}, {xv})", f"_set_xpath({norm(st.target)}, parent_xpath={xv})")]
        what = "_set_xpath stores the path on the node and recurses over all children with it, on every path that does not raise"
        ok2 = len(sets) == 1 and len(rec) == 1
        if ok2:
            from ..dtree import decision_tree
            for lf in decision_tree(strip_docstring(f.node.body)):
                if lf.outcome == "raise":
                    continue
                st = lf.stmts
                if lf.outcome != "fall" or not any(isinstance(x, ast.For) and x is rec[0] for x in st) \
                        or not any(isinstance(x, ast.Expr) and x.value is sets[0] for x in st):
                    ok2 = False
        if ok2:
            ck.holds("R-LEG-XPATH-SPELL", f, f.node, what)
        elif not sets or not any(isinstance(c_, ast.Call) and dotted(c_.func) == "_set_xpath" for c_ in walk_body(f.node.body)):
            ck.violation("R-LEG-XPATH-SPELL", f, f.node, what, construct="_set_xpath: the path is not stored / the children are not visited")
        elif len(sets) == 1 and len(rec) == 1:
            ck.violation("R-LEG-XPATH-SPELL", f, f.node, what, construct="_set_xpath: a non-raising path skips the store or the recursion over the children")
        else:
            raise Unsupported("_set_xpath: store / recursion over all children not recognised", f.node)
    g = ck.repo.func(LNODE, "AwareASTNode.calculate_xpath")
    body = strip_docstring(g.node.body)
    what = "calculate_xpath refuses non-roots, spells the root as '/@root[0]<Class>' and sets the path of every child subtree"
    from ..dtree import decision_tree

    leaves = decision_tree(body, resolve=True)
    bad = None

    def spelled_root(e: ast.expr) -> bool:
        d = [(x.text if isinstance(x, Lit) else "{" + x.src + "}") for x in eval_str(e, {}, {})]
        return d in (["/@root[0]", "{self.__class__.__name__}"], ["/@root[0]", "{type(self).__name__}"])

    for lf in leaves:
        a = lf.assign
        if set(a) - {"self.is_attached_root"}:
            raise Unsupported(f"calculate_xpath decides on {sorted(a)}", g.node)
        if "self.is_attached_root" not in a:
            bad = "does not test whether the node is an attached root"
            continue
        sets = [c for st in lf.stmts for c in ast.walk(st) if isinstance(c, ast.Call) and dotted(c.func) in ("object.__setattr__", "setattr")
                and len(c.args) == 3 and norm(c.args[0]) == "self" and norm(c.args[1]) == "'_xpath'"]
        loops = [st for st in lf.stmts if isinstance(st, ast.For)]
        if not a["self.is_attached_root"]:
            if sets or loops or lf.outcome != "return" or lf.val() != "False":
                bad = "a non-root is not refused (False, nothing written)"
            continue
        if len(sets) != 1 or not spelled_root(sets[0].args[2]):
            bad = f"root path stored as {[norm(c.args[2])[:50] for c in sets]}"
            continue
        ok_loop = False
        for lp in loops:
            if norm(lp.iter) == "self.get_child_nodes()" and len(lp.body) == 1 and isinstance(lp.body[0], ast.Expr) and isinstance(lp.body[0].value, ast.Call) \
                    and dotted(lp.body[0].value.func) == "_set_xpath":
                c = lp.body[0].value
                args = [norm(x) for x in c.args]
                pv = c.args[1] if len(c.args) == 2 else next((k.value for k in c.keywords if k.arg == "parent_xpath"), None)
                if args[:1] == [norm(lp.target)] and pv is not None and spelled_root(pv):
                    ok_loop = True
        if not ok_loop:
            if any("_set_xpath" in norm(st) for st in lf.stmts):
                raise Unsupported("calculate_xpath: propagation to the children not recognised", g.node)
            bad = "the children's paths are not set from the root path"
    (ck.holds if not bad else ck.violation)("R-LEG-XPATH-SPELL", g, g.node, what, **({"evaluations": len(leaves)} if not bad else {"construct": f"calculate_xpath: {bad}"}))


def r_legacy_step(ck: Checker) -> None:
    from ..dtree import check_formula
    f = ck.repo.func(LXP, "_match_node_xpath")
    body = strip_docstring(f.node.body)
    # the step test is what follows the ancestor loop of the '//' case
    idx = max((i for i, st in enumerate(body) if any(isinstance(n, ast.For) for n in ast.walk(st))), default=None)
    if idx is None or idx + 1 >= len(body):
        raise Unsupported("legacy _match_node_xpath: no step test after the ancestor loop", f.node)
    tail = body[idx + 1:]
    last = tail[0]
    np_, ep = f.node.args.args[0].arg, f.node.args.args[1].arg
    el = f"{ep}[0]"
    what = "legacy step test: instance of the class, field constraint (if given) equals the node's parent field name, index constraint (if given) equals its parent index"
    pf_actual = f"{np_}.parent_field.name if {np_}.parent_field else None"
    k = {"inst": f"isinstance({np_}, {el}.ast_class)", "pfn": k_none(f"{el}.parent_field"), "pfe": k_eq(f"{el}.parent_field", pf_actual),
         "pin": k_none(f"{el}.parent_index"), "pie": k_eq(f"{el}.parent_index", f"{np_}.parent_index"),
         "up": f"_match_node_xpath({np_}.parent, {ep}[1:])"}
    # aliases for the element (element = elements[0]) defined before the loop take part in the resolution
    pre = [st for st in body[:idx] if isinstance(st, ast.Assign) and len(st.targets) == 1 and isinstance(st.targets[0], ast.Name)]
    rows = bool_function(pre + tail, resolve=True)
    # the node's field name may be computed by cases (`node.parent_field` present or not): tie the case atoms to the single term
    k_has = f"{np_}.parent_field"
    k_eqn = k_eq(f"{el}.parent_field", f"{np_}.parent_field.name")
    k_eq0 = k_eq(f"{el}.parent_field", "None")
    known = list(k.values()) + [k_has, k_eqn, k_eq0]

    def feasible(a: dict) -> bool:
        if a[k_eq0] != a[k["pfn"]]:
            return False  # a field constraint equals None exactly when it is None
        return a[k["pfe"]] == ((a[k_has] and a[k_eqn]) or (not a[k_has] and a[k_eq0]))

    bad = [str(b) for b in check_formula(rows, known, lambda a: bool(a[k["inst"]] and (a[k["pfn"]] or a[k["pfe"]]) and (a[k["pin"]] or a[k["pie"]]) and a[k["up"]]),
                                         where=last, feasible=feasible)]
    (ck.violation if bad else ck.holds)("R-XP-SHARED", f, last, what, evaluations=len(rows), **({"construct": f"legacy _match_node_xpath: {bad[0]}"} if bad else {}))


def r_legacy_presence(ck: Checker) -> None:
    """Presence of a child value is an identity test against None in the legacy enumeration helpers."""
    from ..finite import k_eq, k_is, k_none, discover_atoms

    n = 0
    for q, var in (("_ensure_iterable", "value"), ("_is_field_child", "o"), ("get_child_nodes_with_field", "objects")):
        f = ck.repo.func(LNODE, f"AwareASTNode.{q}")
        tests = [st.test for st in walk_body(f.node.body) if isinstance(st, ast.If)]
        bad = None
        for t in tests:
            atoms = discover_atoms(t)
            if var in atoms:
                bad = norm(t)
        n += 1
        what = f"legacy {q}: an absent child is recognised by `is None`, never by truthiness (node classes may define __len__/__bool__)"
        if bad:
            ck.violation("R-PRESENCE", f, f.node, what, construct=f"legacy {q}: `{bad}` tests the truthiness of the child value")
        else:
            ck.holds("R-PRESENCE", f, f.node, what, tests=len(tests))
    f = ck.repo.func(LNODE, "AwareASTNode._ensure_iterable")
    from ..dtree import decision_tree
    leaves = decision_tree(strip_docstring(f.node.body))
    bad = []
    k_l, k_t, k_n = "isinstance(value, list)", "isinstance(value, tuple)", k_none("value")
    for lf in leaves:
        a = lf.assign
        if set(a) - {k_l, k_t, k_n}:
            raise Unsupported(f"legacy _ensure_iterable decides on {sorted(a)}", f.node)
        is_seq = True if (a.get(k_l) or a.get(k_t)) else (False if (a.get(k_l) is False and a.get(k_t) is False) else None)
        if a.get(k_n) is True:
            if lf.val() != "[]":
                bad.append(f"None yields {lf.val()}")
        elif is_seq is True:
            if lf.val() not in ("value",):
                bad.append(f"a sequence yields {lf.val()}")
        elif a.get(k_n) is False and is_seq is False:
            if lf.val() != "[value]":
                bad.append(f"a single child yields {lf.val()}")
        else:
            bad.append(f"undecided path {a}")
    what = "legacy _ensure_iterable: None -> [], list/tuple -> itself, anything else -> [value]"
    (ck.violation if bad else ck.holds)("R-PRESENCE", f, f.node, what, evaluations=len(leaves), **({"construct": f"legacy _ensure_iterable: {bad[0]}"} if bad else {}))


def r_legacy_match_head(ck: Checker) -> None:
    from ..dtree import bool_function

    f = ck.repo.func(LXP, "_match_node_xpath")
    body = strip_docstring(f.node.body)
    dom = lambda k: (0, 1, 2) if k.startswith("len(") else (True, False)  # noqa: E731
    k_node_none = k_none("node")
    rows = bool_function(body, preset={k_node_none: True}, domain=dom, sized=("elements",))
    k_len = "len(elements)"
    k_any = "isinstance(elements[0], ASTXpathAnywhereElement)"
    bad = []
    seen = False
    for a, v, lf in rows:
        if a.get(k_node_none) is not True:
            continue
        seen = True
        if v is None or isinstance(v, str):
            bad.append(f"{a}: {v}")
            continue
        if k_len not in a:
            bad.append("the remaining path is not inspected")
            continue
        exp = a[k_len] == 0 or bool(a.get(k_any))
        if a[k_len] != 0 and k_any not in a:
            bad.append("a pending leading '//' (anywhere element) above the root is not accepted")
            continue
        if bool(v) != exp:
            bad.append(f"{a}: returns {v}, expected {exp}")
    if not seen:
        bad.append("walking past the root (node is None) is not handled first")
    what = "legacy match, above the root: the path matches iff nothing remains or only the leading-anywhere marker remains"
    (ck.violation if bad else ck.holds)("R-XP-ANYWHERE", f, body[0], what, evaluations=len(rows), **({"construct": f"legacy _match_node_xpath: {bad[0]}"} if bad else {}))
    # the anywhere step tries every ancestor before the node itself is tested
    loops = [st for st in walk_body(f.node.body) if isinstance(st, ast.For)]
    what = "legacy match: a '//' step tries every proper ancestor (node.ancestors()) with the same remaining path"
    ok = len(loops) == 1 and norm(loops[0].iter) == "node.ancestors()" and len(loops[0].body) == 1 and isinstance(loops[0].body[0], ast.If) \
        and norm(loops[0].body[0].test) == f"_match_node_xpath({norm(loops[0].target)}, elements)" and norm(loops[0].body[0].body[0]) == "return True"
    if ok:
        ck.holds("R-XP-ANYWHERE", f, f.node, what)
    elif not any("ancestors" in norm(x_) for x_ in ast.walk(f.node) if isinstance(x_, (ast.Call, ast.Attribute))):
        ck.violation("R-XP-ANYWHERE", f, f.node, what, construct="legacy _match_node_xpath: the '//' step does not look at the ancestors at all")
    elif len(loops) == 1 and "parent" in norm(loops[0].iter) and "ancestors" not in norm(loops[0].iter):
        ck.violation("R-XP-ANYWHERE", f, f.node, what, construct=f"legacy _match_node_xpath: the '//' step iterates {norm(loops[0].iter)[:40]} (not every proper ancestor)")
    else:
        raise Unsupported("legacy _match_node_xpath: ancestor loop of the '//' step not recognised", f.node)


def run(ck: Checker) -> None:
    ck.explanation = (
        "The traversal-schema calculus and the filter/prune truth table of C05 applied to legacy dfs/bfs (start node is the seed, exempt from "
        "filter/prune/emission exactly when skip_self, which is reset afterwards), legacy gather; grammar<->transformer arity, %ignore WS and "
        "exception-escape analysis for the legacy xpath module; the step test of the legacy matcher as a truth table; spelling and recursion of "
        "calculate_xpath/_set_xpath. Agreement of legacy match with the v2 semantics over all paths is not decided."
    )
    ck.rule_text = "one obligation per (function, mode, aspect) / grammar rule / entry point"
    ck.assumptions += ["deque.popleft/appendleft/append/extend have their stdlib semantics"]
    ck.guard("R-WORKLIST", lambda: r_traversals(ck))
    ck.guard("R-GATHER", lambda: check_gather(ck, ck.repo.func(LNODE, "AwareASTNode.gather"), legacy=True))
    ck.guard("R-GRAM-ARITY", lambda: r_gram_arity(ck, LXP))
    ck.guard("R-EXC-ESCAPE", lambda: r_exc_escape(ck, [(LXP, "ASTXpath.__init__", {"ASTXpathDefinitionError"}, {"xpath"})], min_guarded=1))
    ck.guard("R-XP-SHARED", lambda: r_legacy_step(ck))
    from .c17 import r_handler_attrs
    ck.guard("R-EXC-ESCAPE", lambda: r_handler_attrs(ck, [(LXP, "ASTXpath.__init__", {"ASTXpathDefinitionError"}, {"xpath"})]))
    from .c07 import r_xp_elements
    ck.guard("R-XP-ELEMENTS", lambda: r_xp_elements(ck, LXP, min_count=1))
    from .c07 import r_step_part_kinds
    ck.guard("R-XP-ELEMENTS", lambda: r_step_part_kinds(ck, LXP))
    from .c17 import r_reusable
    ck.guard("R-XP-ELEMENTS", lambda: r_reusable(ck, LXP))
    ck.guard("R-LEG-XPATH-SPELL", lambda: r_xpath_spell(ck))
    ck.guard("R-PRESENCE", lambda: r_legacy_presence(ck))
    from . import state_rules as S
    ck.guard("R-PRESENCE", lambda: S.r_class_attr_cache(ck, "R-PRESENCE", (LNODE,)))
    ck.guard("R-WORKLIST", lambda: S.r_mutable_default(ck, "R-WORKLIST", (LNODE, LXP)))
    ck.guard("R-WORKLIST", lambda: S.r_iter_once(ck, "R-WORKLIST", (LNODE, LXP)))
    ck.guard("R-GATHER", lambda: S.r_cached_closure(ck, "R-GATHER", (LNODE,)))
    ck.guard("R-XP-SHARED", lambda: S.r_stateless(ck, "R-XP-SHARED", LXP, "XPathTransformer", None, "one transformer instance serves every parse, also after a failed one"))
    from .c17 import r_no_memo
    ck.guard("R-XP-SHARED", lambda: r_no_memo(ck, "R-XP-SHARED"))  # class names are resolved against the live registry on every compilation
    from .c18 import r_leg_live_links
    ck.guard("R-LEG-IDENT", lambda: r_leg_live_links(ck))  # the traversals enumerate the live children
    ck.guard("R-XP-ANYWHERE", lambda: r_legacy_match_head(ck))
    ck.require_count("R-WORKLIST", 6)
    ck.require_count("R-CTRLDEP", 3)
    ck.require_count("R-GATHER", 4)
    ck.require_count("R-GRAM-ARITY", 6)
