"""C05 — Traversals visit exactly the descendants, in order, with exact position info."""
from __future__ import annotations

import ast
from typing import Any

from ..astutil import dotted, is_const, kw, norm, unwrap_cast, walk_body
from ..finite import k_eq, k_is, k_none, Evaluator, NeedAtom, discover_atoms, truth_table
from ..report import Checker
from ..srcmodel import Func, Unsupported
from ..worklist import Model, Put, build_model, derived_order, loop_body_table, taking_order
from . import templates_rules as T

NODE = "pyoak.node"


def recursion_on_depth(f: Func) -> str | None:
    """A traversal that calls itself (or a nested function that calls itself / the traversal) once per level."""
    raw = f.raw or f.node
    own = raw.name
    nested = {n.name: n for n in ast.walk(raw) if isinstance(n, (ast.FunctionDef, ast.AsyncFunctionDef)) and n is not raw}
    for n in ast.walk(raw):
        if isinstance(n, ast.Call):
            nm = n.func.attr if isinstance(n.func, ast.Attribute) else (n.func.id if isinstance(n.func, ast.Name) else None)
            if nm == own and not (isinstance(n.func, ast.Attribute) and isinstance(n.func.value, ast.Call) and dotted(n.func.value.func) == "super"):
                return f"calls {own}() on the nodes it visits"
    for name, d in nested.items():
        if any(isinstance(c, ast.Call) and isinstance(c.func, ast.Name) and c.func.id == name for c in ast.walk(d)):
            return f"the nested function {name} calls itself"
    return None


def late_bound_deferred(f: Func) -> str | None:
    """A lazy group (generator expression / lambda) that is put on a container inside a loop and whose delayed part reads a
    variable the loop rebinds: by the time the group is consumed (a later iteration: the take precedes the put in the loop body)
    the variable names another element.  Only the first iterable of a generator expression is evaluated when it is created."""
    fn = f.node
    for lp in ast.walk(fn):
        if not isinstance(lp, (ast.While, ast.For)):
            continue
        rebound: set[str] = set()
        for n in walk_body(lp.body):
            if isinstance(n, ast.Name) and isinstance(n.ctx, ast.Store):
                rebound.add(n.id)
        if isinstance(lp, ast.For):
            rebound |= {n.id for n in ast.walk(lp.target) if isinstance(n, ast.Name)}
        taken: set[str] = set()
        hdr = lp.test if isinstance(lp, ast.While) else lp.iter
        for n in [hdr, *walk_body(lp.body)]:
            for c in ast.walk(n) if n is hdr else [n]:
                if isinstance(c, ast.Call) and isinstance(c.func, ast.Attribute) and c.func.attr in ("pop", "popleft") and dotted(c.func.value):
                    taken.add(dotted(c.func.value))
        for n in walk_body(lp.body):
            if not (isinstance(n, ast.Call) and isinstance(n.func, ast.Attribute) and n.func.attr in ("append", "appendleft", "insert", "add", "put")):
                continue
            cont = dotted(n.func.value)
            if cont is None or cont not in taken or not n.args:
                continue
            arg = n.args[-1]
            if isinstance(arg, ast.GeneratorExp):
                own = {x.id for g in arg.generators for x in ast.walk(g.target) if isinstance(x, ast.Name)}
                delayed: list[ast.AST] = [arg.elt]
                for i, g in enumerate(arg.generators):
                    delayed += g.ifs
                    if i:
                        delayed.append(g.iter)
            elif isinstance(arg, ast.Lambda):
                own = {a.arg for a in arg.args.args + arg.args.kwonlyargs}
                delayed = [arg.body]
            else:
                continue
            used = {x.id for d in delayed for x in ast.walk(d) if isinstance(x, ast.Name) and isinstance(x.ctx, ast.Load)} - own
            hit = sorted(used & rebound)
            if hit:
                return (f"a lazily evaluated group put on {cont} at line {n.lineno} reads {', '.join(hit)} when it is consumed, "
                        f"after the loop has rebound {'it' if len(hit) == 1 else 'them'} (late binding): its records name the wrong node")
    return None


def check_worklist(ck: Checker, f: Func, mode: dict[str, Any], expected: str, *, legacy: bool = False, rule: str = "R-WORKLIST") -> Model:
    m = build_model(f, mode)
    order, facts = derived_order(m)
    mtxt = ",".join(f"{k}={v}" for k, v in mode.items()) or "-"
    what = f"{f.qualname}({mtxt}) emits in {expected}"
    if order == expected:
        ck.holds(rule, f, m.loop, what, **facts)
    else:
        ck.violation(rule, f, m.loop, what, construct=f"{f.qualname}({mtxt}): derived order is {order}", **facts)
    # seeding
    if not legacy:
        what = f"{f.qualname}({mtxt}): the worklist is seeded with the children of the start node (never the node itself), in the loop's order"
        seeds = m.seed_puts
        bad = None
        if not seeds:
            bad = "no seeding of the worklist found"
        for p in seeds:
            if p.seq is None:
                bad = f"seeded with the single element {norm(p.record)}"
            elif p.seq.owner != "self":
                bad = f"seeded with the children of {p.seq.owner}"
        if bad is None:
            # Seeds are read from the taking side like any other put
            s_orders = taking_order(m, seeds)
            l_orders = taking_order(m, m.loop_puts)
            if s_orders != l_orders:
                bad = f"seed order {sorted(s_orders)} differs from the loop's {sorted(l_orders)}"
        if bad:
            ck.violation(rule, f, f.node, what, construct=f"{f.qualname}({mtxt}): {bad}")
        else:
            ck.holds(rule, f, f.node, what, seeds=len(seeds))
        check_records(ck, f, m, mtxt, rule)
    return m


def check_records(ck: Checker, f: Func, m: Model, mtxt: str, rule: str) -> None:
    """Every record put is NodeTraversalInfo(child, <node whose children are enumerated>, field, index)."""
    for kind, puts in (("seed", m.seed_puts), ("loop", m.loop_puts)):
        for p in puts:
            if p.seq is None:
                continue
            what = f"{f.qualname}({mtxt}) {kind} put: record = (child, enumerated parent, field, index) of the same enumeration tuple"
            owner_expected = "self" if kind == "seed" else f"{m.take_var}.node"
            bad = None
            if p.seq.method != "get_child_nodes_with_field":
                bad = f"children enumerated with {p.seq.method}"
            elif p.seq.owner != owner_expected:
                bad = f"children of {p.seq.owner} enumerated, expected {owner_expected}"
            else:
                rec, tg = p.record, p.targets
                if not (isinstance(rec, ast.Call) and dotted(rec.func) == "NodeTraversalInfo" and not rec.keywords and len(rec.args) == 4):
                    if isinstance(rec, ast.Call) and dotted(rec.func) == "NodeTraversalInfo" and rec.keywords:
                        args = _kwargs_to_pos(rec, ["node", "parent", "field", "findex"])
                        if args is None:
                            bad = f"record {norm(rec)[:60]}"
                        else:
                            rec_args = args
                    else:
                        bad = f"record {norm(rec)[:60]}"
                else:
                    rec_args = [norm(a) for a in rec.args]
                if bad is None:
                    if not (isinstance(tg, ast.Tuple) and len(tg.elts) == 3):
                        bad = f"loop target {norm(tg) if tg is not None else None}"
                    else:
                        t = [norm(x) for x in tg.elts]
                        if rec_args != [t[0], p.seq.owner, t[1], t[2]]:
                            bad = f"record arguments {rec_args} for enumeration tuple {t} of {p.seq.owner}"
            if bad:
                ck.violation(rule, f, p.node, what, construct=f"{f.qualname}({mtxt}) {kind}: {bad}")
            else:
                ck.holds(rule, f, p.node, what)


def _kwargs_to_pos(c: ast.Call, names: list[str]) -> list[str] | None:
    vals = [norm(a) for a in c.args]
    for n in names[len(vals):]:
        v = kw(c, n)
        if v is None:
            if n == "findex":
                vals.append("None")
                continue
            return None
        vals.append(norm(v))
    return vals


def check_ctrldep(ck: Checker, f: Func, m: Model, *, legacy: bool = False, rule: str = "R-CTRLDEP") -> None:
    rows = loop_body_table(m)
    tv = m.take_var
    mtxt = ",".join(f"{k}={v}" for k, v in m.mode.items()) or "-"
    keys = set(rows[0]) - {"emitted", "descended", "evaluated", "emit_args", "left_loop", "stmts"} if rows else set()
    fcall, pcall = f"filter({tv})", f"prune({tv})"
    known = {k_none("filter"), "filter", fcall, "prune", k_none("prune"), pcall}
    if legacy:
        known |= {"skip_self"}
    unknown = keys - known
    if unknown:
        # a positive pattern: elements are skipped because something derived from them was seen before (a visited set)
        fn_ = f.node
        seen_sets = {st.targets[0].id for st in walk_body(fn_.body) if isinstance(st, ast.Assign) and len(st.targets) == 1 and isinstance(st.targets[0], ast.Name)
                     and ((isinstance(st.value, ast.Call) and dotted(st.value.func) in ("set", "dict") and not st.value.args) or isinstance(st.value, (ast.Set, ast.Dict)))}
        grown = {c.func.value.id for c in walk_body(m.loop.body) if isinstance(c, ast.Call) and isinstance(c.func, ast.Attribute) and c.func.attr in ("add", "update", "setdefault")
                 and isinstance(c.func.value, ast.Name)} | {st.targets[0].value.id for st in walk_body(m.loop.body) if isinstance(st, ast.Assign)
                                                            and isinstance(st.targets[0], ast.Subscript) and isinstance(st.targets[0].value, ast.Name)}
        for k in sorted(unknown):
            for sname in sorted(seen_sets & grown):
                if k.startswith("in(") and k.endswith(f",{sname})") and tv in k:
                    ck.violation(rule, f, m.loop, f"{f.qualname}({mtxt}): every position of the tree is visited (no element is skipped because an equal / identically "
                                 "named one was seen before)", positive=True, construct=f"{f.qualname}({mtxt}): elements are skipped when {k[3:-1].split(',')[0]} is already in the local set "
                                 f"{sname} (a node object placed at two positions, or two nodes sharing an id, is traversed once only)")
                    return
        raise Unsupported(f"traversal loop body depends on {sorted(unknown)}", m.loop)
    bad = []
    for r in rows:
        f_absent = r.get(k_none("filter"), False) if k_none("filter") in r else (not r["filter"] if "filter" in r else True)
        p_present = (not r[k_none("prune")]) if k_none("prune") in r else r.get("prune", False)
        skipping = legacy and r.get("skip_self", False)
        exp_emit = (not skipping) and (f_absent or r.get(fcall, False))
        exp_desc = skipping or not (p_present and r.get(pcall, False))
        problems = []
        if bool(r["emitted"]) != exp_emit:
            problems.append(f"emitted={bool(r['emitted'])} expected {exp_emit}")
        if r["emitted"] > 1:
            problems.append("emitted twice")
        if r["emitted"] and any(a != tv for a in r["emit_args"]):
            problems.append(f"emits {r['emit_args']} instead of the taken record {tv}")
        if r["descended"] != exp_desc:
            problems.append(f"descended={r['descended']} expected {exp_desc}")
        if not skipping and not f_absent and fcall in r and fcall not in r["evaluated"] and (fcall in keys):
            problems.append("filter not evaluated on this element")
        if r["left_loop"]:
            problems.append("leaves the traversal loop")
        if skipping and "skip_self = False" not in r["stmts"]:
            problems.append("skip_self is not reset after the start node (later nodes would be skipped too)")
        if problems:
            bad.append({k: r[k] for k in sorted(keys)} | {"problems": problems})
    what = (f"{f.qualname}({mtxt}) loop body: emission iff the filter admits the taken element, descent iff not pruned, "
            "filter evaluated on pruned elements too, the emitted record is the taken one")
    if bad:
        ck.violation(rule, f, m.loop, what, evaluations=len(rows),
                     construct=f"{f.qualname}({mtxt}): {bad[0]['problems'][0]}", rows=bad[:4])
    else:
        ck.holds(rule, f, m.loop, what, evaluations=len(rows), atoms=sorted(keys))


def _closure_env(fn: ast.FunctionDef, exact: bool) -> dict[str, ast.FunctionDef]:
    """Nested function definitions in force at the end of gather's top level when exact_type has the given value."""
    env: dict[str, ast.FunctionDef] = {}

    def block(ss: list[ast.stmt]) -> None:
        for st in ss:
            if isinstance(st, ast.FunctionDef):
                env[st.name] = st
            elif isinstance(st, ast.If):
                try:
                    v = Evaluator({"exact_type": exact}).ev(st.test)
                except NeedAtom:
                    if any(isinstance(x, ast.FunctionDef) for x in walk_body(st.body + st.orelse)):
                        raise Unsupported("gather: a filter function is defined under a condition other than exact_type", st)
                    continue
                block(st.body if v else st.orelse)
    block(fn.body)
    return env


def _filter_table(fdef: ast.FunctionDef, env: dict[str, ast.FunctionDef], prelude: list[ast.stmt] | None = None,
                  exact: bool | None = None) -> list[tuple[dict, Any, Any]]:
    """Decision table of a filter closure; calls of sibling closures are evaluated in place (argument substitution)."""
    from ..dtree import bool_function
    from ..normalize import _Subst
    import copy

    def hook(c: ast.Call, assign: dict) -> object:
        if isinstance(c.func, ast.Name) and c.func.id in env and not c.keywords:
            callee = env[c.func.id]
            params = [a.arg for a in callee.args.args]
            if len(params) != len(c.args) or callee is fdef:
                return NotImplemented
            body = [_Subst(dict(zip(params, c.args))).visit(copy.deepcopy(st)) for st in callee.body]
            rows = bool_function(body, preset=dict(assign), call_hook=hook)
            vals = {bool(v) for _, v, lf in rows}
            if any(lf.outcome != "return" for _, _, lf in rows):
                raise Unsupported(f"gather: closure {callee.name} does not return on every path", callee)
            if len(vals) == 1:
                return vals.pop()
            for a_, _, _ in rows:
                for k in a_:
                    if k not in assign:
                        raise NeedAtom(k, c)
            raise Unsupported(f"gather: closure {callee.name} undecided", callee)
        return NotImplemented

    # flags computed once in the enclosing function (`is_exact = bool(exact_type)`) are free variables of the closure
    pre = list(prelude or [])
    rows = bool_function(pre + fdef.body, call_hook=hook, resolve=True, preset=({"exact_type": exact} if exact is not None else None))
    return [({k: v for k, v in a.items() if k != "exact_type"}, val, lf) for a, val, lf in rows]


def check_gather(ck: Checker, f: Func, *, legacy: bool = False, rule: str = "R-GATHER") -> None:
    fn = f.node
    # the stream: one loop over self.dfs(..., filter=<closure>)
    loops = [s for s in fn.body if isinstance(s, ast.For)]
    dcalls = [c for c in walk_body(fn.body) if isinstance(c, ast.Call) and isinstance(c.func, ast.Attribute) and c.func.attr == "dfs" and norm(c.func.value) == "self"]
    if not dcalls:
        others = [c for c in walk_body(fn.body) if isinstance(c, ast.Call) and isinstance(c.func, ast.Attribute) and c.func.attr == "bfs" and norm(c.func.value) == "self"]
        if others:
            # a positive pattern: the matches are streamed from the level-order traversal
            ck.violation(rule, f, others[0], "gather yields its matches in the pre-order of dfs()",
                         positive=True, construct=f"{f.qualname}: the matches are taken from self.bfs(...): they come in level order, not in pre-order")
            return
    if len(dcalls) != 1 or kw(dcalls[0], "filter") is None or not isinstance(kw(dcalls[0], "filter"), ast.Name):
        raise Unsupported("gather: not a single self.dfs(..., filter=<local function>) call", fn)
    fname = kw(dcalls[0], "filter").id  # type: ignore[union-attr]
    clsvar = None
    for exact in (True, False):
        env = _closure_env(fn, exact)
        d = env.get(fname)
        if d is None:
            raise Unsupported(f"gather: filter function {fname} not found for exact_type={exact}", fn)
        p = d.args.args[0].arg
        node_expr = p if legacy else f"{p}.node"
        what = f"gather(exact_type={exact}): filter = " + ("type(node) in classes" if exact else "isinstance(node, classes)") + " and (extra_filter is None or extra_filter(info))"
        prelude = [st for st in fn.body if isinstance(st, ast.Assign) and len(st.targets) == 1 and isinstance(st.targets[0], ast.Name)
                   and st.lineno < d.lineno and any(isinstance(n, ast.Name) and n.id == "exact_type" for n in ast.walk(st.value))]
        rows = _filter_table(d, env, prelude, exact)
        atoms = sorted({k for a_, _, _ in rows for k in a_})
        inst_key = next((a for a in atoms if a.startswith(f"isinstance({node_expr},")), None)
        exact_key = next((a for a in atoms if a.startswith(f"in(type({node_expr}),")), None)
        tkey = exact_key if exact else inst_key
        if tkey is None:
            ck.violation(rule, f, d, what, construct=f"gather(exact_type={exact}): type test atoms {atoms}")
            continue
        cv = tkey.split(",", 1)[1].rstrip(")").strip()
        clsvar = clsvar or cv
        xf_none, xf_call = k_none("extra_filter"), f"extra_filter({p})"
        other = set(atoms) - {tkey, xf_none, xf_call}
        if other:
            ck.violation(rule, f, d, what, construct=f"gather(exact_type={exact}): filter depends on {sorted(other)}")
            continue
        bad = []
        for a_, v, lf in rows:
            if lf.outcome != "return":
                bad.append((a_, lf.outcome))
                continue
            if tkey not in a_:
                bad.append((a_, "decided without the type test"))
            elif not a_[tkey]:
                exp = False
            elif xf_none not in a_:
                bad.append((a_, "decided without looking at extra_filter"))
                continue
            elif a_[xf_none]:
                exp = True
            elif xf_call not in a_:
                bad.append((a_, "extra_filter not consulted"))
                continue
            else:
                exp = a_[xf_call]
            if tkey in a_ and bool(v) != bool(exp):
                bad.append((a_, v))
        if bad:
            ck.violation(rule, f, d, what, evaluations=len(rows), construct=f"gather(exact_type={exact}): filter formula wrong on {len(bad)} rows", rows=[str(b) for b in bad[:3]])
        else:
            ck.holds(rule, f, d, what, evaluations=len(rows))
    # obj_classes normalisation
    what = "gather: a single class is wrapped into a tuple, a tuple is used as is"
    clsparam = fn.args.args[1].arg
    if clsvar is None:
        raise Unsupported("gather: class collection variable not identified", fn)
    from ..dtree import decision_tree
    head = [st for st in fn.body if st.lineno < dcalls[0].lineno and not isinstance(st, (ast.For, ast.FunctionDef))]
    k_tup = f"isinstance({clsparam}, tuple)"
    leaves = decision_tree(head, preset={"exact_type": True}) + decision_tree(head, preset={"exact_type": False})
    bad2 = None
    for lf in leaves:
        stores = [st for st in lf.resolved()[0] if isinstance(st, (ast.Assign, ast.AnnAssign)) and getattr(st, "value", None) is not None
                  and norm(st.targets[0] if isinstance(st, ast.Assign) else st.target) == clsvar]
        val = norm(stores[-1].value) if stores else None  # type: ignore[arg-type]
        if lf.outcome != "fall":
            continue
        if set(lf.assign) - {k_tup, "exact_type"}:
            raise Unsupported(f"gather: class normalisation decides on {sorted(lf.assign)}", fn)
        if k_tup not in lf.assign:
            bad2 = f"{clsvar} is {val} without testing whether {clsparam} is a tuple"
        elif lf.assign[k_tup] and val not in (clsparam, f"tuple({clsparam})"):
            bad2 = f"tuple of classes: {clsvar} is {val}"
        elif not lf.assign[k_tup] and val != f"({clsparam},)":
            bad2 = f"single class: {clsvar} is {val}"
    if bad2:
        ck.violation(rule, f, fn, what, construct=f"gather: class tuple normalisation wrong: {bad2}")
    else:
        ck.holds(rule, f, fn, what, evaluations=len(leaves))
    # delegation
    loops = [s for s in fn.body if isinstance(s, ast.For)]
    what = "gather delegates to dfs(prune=prune, filter=<built filter>, bottom_up=False) and yields the node of every record"
    bad = None
    if len(loops) != 1:
        bad = f"{len(loops)} loops"
    else:
        lp = loops[0]
        c = lp.iter
        if not (isinstance(c, ast.Call) and isinstance(c.func, ast.Attribute) and c.func.attr == "dfs" and norm(c.func.value) == "self" and not c.args):
            bad = f"iterates {norm(c)[:60]}"
        else:
            kws = {k.arg: norm(k.value) for k in c.keywords}
            exp = {"prune": "prune", "filter": fname}
            if legacy:
                exp["skip_self"] = "skip_self"
            if any(kws.get(k) != v for k, v in exp.items()) or kws.get("bottom_up", "False") != "False" or set(kws) - set(exp) - {"bottom_up"}:
                bad = f"dfs called with {kws}"
            else:
                ys = [n for n in walk_body(lp.body) if isinstance(n, ast.Yield)]
                tgt = norm(lp.target)
                want = tgt if legacy else f"{tgt}.node"
                if len(ys) != 1 or ys[0].value is None or norm(unwrap_cast(ys[0].value)) != want or len(lp.body) != 1:
                    bad = f"yields {[norm(y.value) for y in ys if y.value is not None]}"
                elif not (isinstance(lp.body[0], ast.Expr) and lp.body[0].value is ys[0]):
                    bad = "does not yield every record of the stream (the yield is conditional)"
    if bad:
        ck.violation(rule, f, fn, what, construct=f"gather: {bad}")
    else:
        ck.holds(rule, f, fn, what)


def r_traversals(ck: Checker) -> None:
    """dfs / bfs as worklist algorithms (order, seeding, records, loop-body truth table); shared with the properties that are defined through a traversal."""
    dfs = ck.repo.func(NODE, "ASTNode.dfs")
    bfs = ck.repo.func(NODE, "ASTNode.bfs")
    for trav in (dfs, bfs):
        rec = recursion_on_depth(trav)
        what = f"{trav.qualname} is iterative: the depth of the tree is not bounded by the interpreter's recursion limit"
        if rec:
            ck.violation("R-WORKLIST", trav, trav.node, what, positive=True, construct=f"{trav.qualname}: {rec} (a deep tree raises RecursionError instead of being traversed)")
            return
        ck.holds("R-WORKLIST", trav, trav.node, what)
        late = late_bound_deferred(trav)
        if late:
            ck.violation("R-WORKLIST", trav, trav.node, f"{trav.qualname}: no deferred group reads a loop variable after it is rebound",
                         positive=True, construct=f"{trav.qualname}: {late}")
            return
    for mode, exp in (({"bottom_up": False}, "pre-order"), ({"bottom_up": True}, "post-order")):
        m = check_worklist(ck, dfs, mode, exp)
        ck.guard("R-CTRLDEP", lambda m=m: check_ctrldep(ck, dfs, m), dfs)
    m = check_worklist(ck, bfs, {}, "level order")
    ck.guard("R-CTRLDEP", lambda: check_ctrldep(ck, bfs, m), bfs)


def r_gather_not_self(ck: Checker, modname: str = NODE, qual: str = "ASTNode.gather", rule: str = "R-GATHER") -> None:
    """gather yields descendants (what its traversal yields), never the node it is called on.  Positive pattern: a `yield` of `self`."""
    f = ck.repo.func(modname, qual)
    fn = f.raw or f.node
    bad = None
    for x in ast.walk(fn):
        if isinstance(x, ast.Yield) and x.value is not None:
            v = x.value
            while isinstance(v, ast.Call) and dotted(v.func) in ("cast", "t.cast", "typing.cast") and v.args:
                v = v.args[-1]
            if isinstance(v, ast.Name) and v.id == "self":
                bad = x
    what = f"{qual} yields only what the traversal of the descendants yields (the start node is not among them)"
    if bad is not None:
        ck.violation(rule, f, bad, what, positive=True, construct=f"{qual}: {norm(bad)[:50]} — the node gather was called on is reported when it matches (and without consulting extra_filter)")
    else:
        ck.holds(rule, f, f.node, what)


def r_no_early_tables(ck: Checker, rule: str = "R-TYPES-CACHE") -> None:
    """__init_subclass__ runs before the @dataclass decorator has processed the new class: dataclasses.fields(cls) are still those of the
    base.  Asking for the class's field tables there (get_cls_child_fields / get_cls_props / get_cls_all_fields / _populate_type_dicts /
    process_node_fields with cls) fills the per-class tables with the base's fields for good (positive pattern)."""
    f = ck.repo.func(NODE, "ASTNode.__init_subclass__")
    bad = None
    for fn in [x for x in (f.raw, f.node) if x is not None]:
        for c in ast.walk(fn):
            if isinstance(c, ast.Call) and (dotted(c.func) or "").split(".")[-1] in ("get_cls_child_fields", "get_cls_props", "get_cls_all_fields", "_populate_type_dicts", "process_node_fields", "get_field_types", "fields") \
                    and c.args and norm(c.args[0]) == "cls":
                bad = c
    what = "ASTNode.__init_subclass__ does not ask for the field tables of the class being created (the dataclass decorator has not run yet)"
    if bad is not None:
        ck.violation(rule, f, bad, what, positive=True,
                     construct=f"__init_subclass__: {norm(bad)[:50]} runs before @dataclass has processed the class — the tables are filled with the base class's fields and stay that way")
    else:
        ck.holds(rule, f, f.node, what)


def run(ck: Checker) -> None:
    ck.explanation = (
        "dfs/bfs are recognised as worklist algorithms; discipline (take side vs put side), sibling order (reverse()/reversed under "
        "which value of bottom_up) and emission (immediate yield, or buffer put side vs drain side) are derived from the container "
        "operations and looked up in a fixed calculus (LIFO+natural=pre-order, mirrored pre-order reversed=post-order, FIFO+natural=level "
        "order). The loop body is decided as a truth table over the outcomes of filter and prune (emission, descent, filter evaluated on "
        "pruned elements). Records must be (child, enumerated parent, field, index) of one enumeration tuple; the generated child "
        "enumeration is decided through the codegen templates (identity presence test, enumerate from 0); gather's filter formula and "
        "delegation are decided. A re-implementation outside the worklist idiom is reported as analysis-incomplete."
    )
    ck.rule_text = "one obligation per (function, mode, aspect); evaluations counts truth-table rows"
    ck.assumptions += ["list.pop/append, deque.popleft/append/appendleft/extend have their stdlib semantics",
                       "user predicates are pure and do not raise"]

    ck.guard("R-WORKLIST", lambda: r_traversals(ck))
    ck.guard("R-GATHER", lambda: check_gather(ck, ck.repo.func(NODE, "ASTNode.gather")))
    ck.guard("R-PRESENCE", lambda: T.r_presence(ck))
    from . import state_rules as S
    ck.guard("R-WORKLIST", lambda: S.r_fresh_worklist(ck, "R-WORKLIST", [ck.repo.func(NODE, "ASTNode.dfs"), ck.repo.func(NODE, "ASTNode.bfs")]))
    ck.guard("R-PRESENCE", lambda: T.r_child_abc(ck))
    ck.guard("R-REINSTALL", lambda: T.r_reinstall(ck))
    ck.guard("R-TYPES-CACHE", lambda: T.r_types_cache(ck))  # the child fields enumerated are those of the class asked for  # every class enumerates its own children (no accessor inherited from a base class)
    ck.guard("R-ENUM-SHAPE", lambda: T.r_enum_shape(ck))
    ck.guard("R-ORDER-KEY", lambda: T.r_order_key(ck, gens=("_gen_get_child_nodes_func", "_gen_get_child_nodes_with_field_func", "_gen_iter_child_fields_func")))
    ck.guard("R-ORDER-KEY", lambda: T.r_gen_stateless(ck))
    from .c11 import r_child_kind
    ck.guard("R-CHILD-KIND", lambda: r_child_kind(ck))
    from . import state_rules as S5
    ck.guard("R-GATHER", lambda: S5.r_iter_once(ck, "R-GATHER", ("pyoak.node",)))
    ck.guard("R-WORKLIST", lambda: S5.r_mutable_default(ck, "R-WORKLIST", ("pyoak.node",)))
    ck.guard("R-WORKLIST", lambda: S5.r_late_binding(ck, "R-WORKLIST", ("pyoak.node",)))
    ck.guard("R-TYPES-CACHE", lambda: r_no_early_tables(ck))
    ck.guard("R-GATHER", lambda: r_gather_not_self(ck))
    ck.guard("R-CTRLDEP", lambda: S5.r_callback_truthiness(ck, "R-CTRLDEP", [(NODE, "ASTNode.dfs"), (NODE, "ASTNode.bfs"), (NODE, "ASTNode.gather")]))
    ck.guard("R-GATHER", lambda: S5.r_cached_closure(ck, "R-GATHER", ("pyoak.node",)))
    ck.guard("R-WORKLIST", lambda: S5.r_position_not_by_content(ck, "R-WORKLIST", [(NODE, "ASTNode.dfs"), (NODE, "ASTNode.bfs")]))
    ck.guard("R-TYPES-CACHE", lambda: S5.r_class_attr_cache(ck, "R-TYPES-CACHE", ("pyoak.node", "pyoak.types", "pyoak.typing")))
    from . import state_rules as S_
    ck.guard("R-WORKLIST", lambda: S_.r_unstable_key(ck, "R-WORKLIST", [(NODE, "ASTNode.dfs"), (NODE, "ASTNode.bfs"), (NODE, "ASTNode.gather")], "a traversal enumerates the tree as it is now"))
    ck.require_count("R-WORKLIST", 3 + 3 + 6 + 2)
    ck.require_count("R-CTRLDEP", 3)
    ck.require_count("R-GATHER", 4)
