"""C05 — Traversals visit exactly the descendants, in order, with exact position info."""
from __future__ import annotations

import ast
from typing import Any

from ..astutil import dotted, is_const, kw, norm, unwrap_cast, walk_body
from ..finite import k_eq, k_is, k_none, Evaluator, NeedAtom, discover_atoms, truth_table
from ..report import Checker
from ..srcmodel import Func, Unsupported
from ..worklist import Model, Put, build_model, derived_order, loop_body_table, taking_order
from . import templates_rules as T

NODE = "pyoak.node"


def check_worklist(ck: Checker, f: Func, mode: dict[str, Any], expected: str, *, legacy: bool = False, rule: str = "R-WORKLIST") -> Model:
    m = build_model(f, mode)
    order, facts = derived_order(m)
    mtxt = ",".join(f"{k}={v}" for k, v in mode.items()) or "-"
    what = f"{f.qualname}({mtxt}) emits in {expected}"
    if order == expected:
        ck.holds(rule, f, m.loop, what, **facts)
    else:
        ck.violation(rule, f, m.loop, what, construct=f"{f.qualname}({mtxt}): derived order is {order}", **facts)
    # seeding
    if not legacy:
        what = f"{f.qualname}({mtxt}): the worklist is seeded with the children of the start node (never the node itself), in the loop's order"
        seeds = m.seed_puts
        bad = None
        if not seeds:
            bad = "no seeding of the worklist found"
        for p in seeds:
            if p.seq is None:
                bad = f"seeded with the single element {norm(p.record)}"
            elif p.seq.owner != "self":
                bad = f"seeded with the children of {p.seq.owner}"
        if bad is None:
            # Seeds are read from the taking side like any other put
            s_orders = taking_order(m, seeds)
            l_orders = taking_order(m, m.loop_puts)
            if s_orders != l_orders:
                bad = f"seed order {sorted(s_orders)} differs from the loop's {sorted(l_orders)}"
        if bad:
            ck.violation(rule, f, f.node, what, construct=f"{f.qualname}({mtxt}): {bad}")
        else:
            ck.holds(rule, f, f.node, what, seeds=len(seeds))
        check_records(ck, f, m, mtxt, rule)
    return m


def check_records(ck: Checker, f: Func, m: Model, mtxt: str, rule: str) -> None:
    """Every record put is NodeTraversalInfo(child, <node whose children are enumerated>, field, index)."""
    for kind, puts in (("seed", m.seed_puts), ("loop", m.loop_puts)):
        for p in puts:
            if p.seq is None:
                continue
            what = f"{f.qualname}({mtxt}) {kind} put: record = (child, enumerated parent, field, index) of the same enumeration tuple"
            owner_expected = "self" if kind == "seed" else f"{m.take_var}.node"
            bad = None
            if p.seq.method != "get_child_nodes_with_field":
                bad = f"children enumerated with {p.seq.method}"
            elif p.seq.owner != owner_expected:
                bad = f"children of {p.seq.owner} enumerated, expected {owner_expected}"
            else:
                rec, tg = p.record, p.targets
                if not (isinstance(rec, ast.Call) and dotted(rec.func) == "NodeTraversalInfo" and not rec.keywords and len(rec.args) == 4):
                    if isinstance(rec, ast.Call) and dotted(rec.func) == "NodeTraversalInfo" and rec.keywords:
                        args = _kwargs_to_pos(rec, ["node", "parent", "field", "findex"])
                        if args is None:
                            bad = f"record {norm(rec)[:60]}"
                        else:
                            rec_args = args
                    else:
                        bad = f"record {norm(rec)[:60]}"
                else:
                    rec_args = [norm(a) for a in rec.args]
                if bad is None:
                    if not (isinstance(tg, ast.Tuple) and len(tg.elts) == 3):
                        bad = f"loop target {norm(tg) if tg is not None else None}"
                    else:
                        t = [norm(x) for x in tg.elts]
                        if rec_args != [t[0], p.seq.owner, t[1], t[2]]:
                            bad = f"record arguments {rec_args} for enumeration tuple {t} of {p.seq.owner}"
            if bad:
                ck.violation(rule, f, p.node, what, construct=f"{f.qualname}({mtxt}) {kind}: {bad}")
            else:
                ck.holds(rule, f, p.node, what)


def _kwargs_to_pos(c: ast.Call, names: list[str]) -> list[str] | None:
    vals = [norm(a) for a in c.args]
    for n in names[len(vals):]:
        v = kw(c, n)
        if v is None:
            if n == "findex":
                vals.append("None")
                continue
            return None
        vals.append(norm(v))
    return vals


def check_ctrldep(ck: Checker, f: Func, m: Model, *, legacy: bool = False, rule: str = "R-CTRLDEP") -> None:
    rows = loop_body_table(m)
    tv = m.take_var
    mtxt = ",".join(f"{k}={v}" for k, v in m.mode.items()) or "-"
    keys = set(rows[0]) - {"emitted", "descended", "evaluated", "emit_args", "left_loop", "stmts"} if rows else set()
    fcall, pcall = f"filter({tv})", f"prune({tv})"
    known = {k_none("filter"), "filter", fcall, "prune", k_none("prune"), pcall}
    if legacy:
        known |= {"skip_self"}
    unknown = keys - known
    if unknown:
        raise Unsupported(f"traversal loop body depends on {sorted(unknown)}", m.loop)
    bad = []
    for r in rows:
        f_absent = r.get(k_none("filter"), False) if k_none("filter") in r else (not r["filter"] if "filter" in r else True)
        p_present = (not r[k_none("prune")]) if k_none("prune") in r else r.get("prune", False)
        skipping = legacy and r.get("skip_self", False)
        exp_emit = (not skipping) and (f_absent or r.get(fcall, False))
        exp_desc = skipping or not (p_present and r.get(pcall, False))
        problems = []
        if bool(r["emitted"]) != exp_emit:
            problems.append(f"emitted={bool(r['emitted'])} expected {exp_emit}")
        if r["emitted"] > 1:
            problems.append("emitted twice")
        if r["emitted"] and any(a != tv for a in r["emit_args"]):
            problems.append(f"emits {r['emit_args']} instead of the taken record {tv}")
        if r["descended"] != exp_desc:
            problems.append(f"descended={r['descended']} expected {exp_desc}")
        if not skipping and not f_absent and fcall in r and fcall not in r["evaluated"] and (fcall in keys):
            problems.append("filter not evaluated on this element")
        if r["left_loop"]:
            problems.append("leaves the traversal loop")
        if skipping and "skip_self = False" not in r["stmts"]:
            problems.append("skip_self is not reset after the start node (later nodes would be skipped too)")
        if problems:
            bad.append({k: r[k] for k in sorted(keys)} | {"problems": problems})
    what = (f"{f.qualname}({mtxt}) loop body: emission iff the filter admits the taken element, descent iff not pruned, "
            "filter evaluated on pruned elements too, the emitted record is the taken one")
    if bad:
        ck.violation(rule, f, m.loop, what, evaluations=len(rows),
                     construct=f"{f.qualname}({mtxt}): {bad[0]['problems'][0]}", rows=bad[:4])
    else:
        ck.holds(rule, f, m.loop, what, evaluations=len(rows), atoms=sorted(keys))


def check_gather(ck: Checker, f: Func, *, legacy: bool = False, rule: str = "R-GATHER") -> None:
    fn = f.node
    elem = "obj" if legacy else None
    defs: dict[bool, ast.FunctionDef] = {}
    for st in fn.body:
        if isinstance(st, ast.If):
            try:
                t_true = Evaluator({"exact_type": True}).ev(st.test)
                t_false = Evaluator({"exact_type": False}).ev(st.test)
            except NeedAtom:
                continue
            if bool(t_true) == bool(t_false):
                continue
            for branch, val in ((st.body, True), (st.orelse, False)):
                d = [x for x in branch if isinstance(x, ast.FunctionDef)]
                if len(d) == 1:
                    defs[True if (val == bool(t_true)) else False] = d[0]
    if set(defs) != {True, False}:
        raise Unsupported("gather: cannot find the two filter functions selected by exact_type", fn)
    names = {d.name for d in defs.values()}
    if len(names) != 1:
        raise Unsupported("gather: the two filter functions have different names", fn)
    fname = names.pop()
    # class tuple normalisation
    clsvar = None
    for exact, d in defs.items():
        p = d.args.args[0].arg
        rets = [s for s in d.body if isinstance(s, ast.Return)]
        if len(rets) != 1 or len([s for s in d.body if not (isinstance(s, ast.Expr) and isinstance(s.value, ast.Constant))]) != 1:
            raise Unsupported("gather filter function is not a single return", d)
        e = rets[0].value
        node_expr = p if legacy else f"{p}.node"
        atoms = discover_atoms(e)
        type_atoms = [a for a in atoms if a.startswith(("isinstance(", "in(type(", "in(" + node_expr))]
        inst_key = next((a for a in atoms if a.startswith(f"isinstance({node_expr},")), None)
        exact_key = next((a for a in atoms if a.startswith(f"in(type({node_expr}),")), None)
        tkey = exact_key if exact else inst_key
        what = f"gather(exact_type={exact}): filter = " + ("type(node) in classes" if exact else "isinstance(node, classes)") + " and (extra_filter is None or extra_filter(info))"
        if tkey is None:
            ck.violation(rule, f, d, what, construct=f"gather(exact_type={exact}): type test atoms {atoms}")
            continue
        cv = tkey.split(",", 1)[1].rstrip(")").strip()
        clsvar = clsvar or cv
        xf_none, xf_call = k_none("extra_filter"), f"extra_filter({p})"
        other = set(atoms) - {tkey, xf_none, xf_call}
        if other:
            ck.violation(rule, f, d, what, construct=f"gather(exact_type={exact}): filter depends on {sorted(other)}")
            continue
        rows = truth_table(e, {tkey: (True, False), xf_none: (True, False), xf_call: (True, False)})
        bad = [a for a, v in rows if bool(v) != (a[tkey] and (a[xf_none] or a[xf_call]))]
        if bad:
            ck.violation(rule, f, d, what, evaluations=len(rows), construct=f"gather(exact_type={exact}): filter formula wrong on {len(bad)} rows", rows=bad[:3])
        else:
            ck.holds(rule, f, d, what, evaluations=len(rows))
    # obj_classes normalisation
    what = "gather: a single class is wrapped into a tuple, a tuple is used as is"
    ok = False
    for st in fn.body:
        if isinstance(st, ast.If) and norm(st.test) in ("not isinstance(obj_class, tuple)", "isinstance(obj_class, tuple)"):
            pos = st.body if norm(st.test).startswith("not") else st.orelse
            neg = st.orelse if norm(st.test).startswith("not") else st.body
            if len(pos) == 1 and len(neg) == 1 and isinstance(pos[0], ast.Assign) and isinstance(neg[0], ast.Assign) \
                    and norm(pos[0].targets[0]) == clsvar == norm(neg[0].targets[0]) \
                    and norm(pos[0].value) == "(obj_class,)" and norm(neg[0].value) == "obj_class":
                ok = True
    (ck.holds if ok else ck.violation)(rule, f, fn, what, **({} if ok else {"construct": "gather: class tuple normalisation not recognised or wrong"}))
    # delegation
    loops = [s for s in fn.body if isinstance(s, ast.For)]
    what = "gather delegates to dfs(prune=prune, filter=<built filter>, bottom_up=False) and yields the node of every record"
    bad = None
    if len(loops) != 1:
        bad = f"{len(loops)} loops"
    else:
        lp = loops[0]
        c = lp.iter
        if not (isinstance(c, ast.Call) and isinstance(c.func, ast.Attribute) and c.func.attr == "dfs" and norm(c.func.value) == "self" and not c.args):
            bad = f"iterates {norm(c)[:60]}"
        else:
            kws = {k.arg: norm(k.value) for k in c.keywords}
            exp = {"prune": "prune", "filter": fname}
            if legacy:
                exp["skip_self"] = "skip_self"
            if any(kws.get(k) != v for k, v in exp.items()) or kws.get("bottom_up", "False") != "False" or set(kws) - set(exp) - {"bottom_up"}:
                bad = f"dfs called with {kws}"
            else:
                ys = [n for n in walk_body(lp.body) if isinstance(n, ast.Yield)]
                tgt = norm(lp.target)
                want = tgt if legacy else f"{tgt}.node"
                if len(ys) != 1 or ys[0].value is None or norm(unwrap_cast(ys[0].value)) != want or len(lp.body) != 1:
                    bad = f"yields {[norm(y.value) for y in ys if y.value is not None]}"
                elif not (isinstance(lp.body[0], ast.Expr) and lp.body[0].value is ys[0]):
                    bad = "does not yield every record of the stream (the yield is conditional)"
    if bad:
        ck.violation(rule, f, fn, what, construct=f"gather: {bad}")
    else:
        ck.holds(rule, f, fn, what)


def run(ck: Checker) -> None:
    ck.explanation = (
        "dfs/bfs are recognised as worklist algorithms; discipline (take side vs put side), sibling order (reverse()/reversed under "
        "which value of bottom_up) and emission (immediate yield, or buffer put side vs drain side) are derived from the container "
        "operations and looked up in a fixed calculus (LIFO+natural=pre-order, mirrored pre-order reversed=post-order, FIFO+natural=level "
        "order). The loop body is decided as a truth table over the outcomes of filter and prune (emission, descent, filter evaluated on "
        "pruned elements). Records must be (child, enumerated parent, field, index) of one enumeration tuple; the generated child "
        "enumeration is decided through the codegen templates (identity presence test, enumerate from 0); gather's filter formula and "
        "delegation are decided. A re-implementation outside the worklist idiom is reported as analysis-incomplete."
    )
    ck.rule_text = "one obligation per (function, mode, aspect); evaluations counts truth-table rows"
    ck.assumptions += ["list.pop/append, deque.popleft/append/appendleft/extend have their stdlib semantics",
                       "user predicates are pure and do not raise"]

    def wl() -> None:
        dfs = ck.repo.func(NODE, "ASTNode.dfs")
        bfs = ck.repo.func(NODE, "ASTNode.bfs")
        for mode, exp in (({"bottom_up": False}, "pre-order"), ({"bottom_up": True}, "post-order")):
            m = check_worklist(ck, dfs, mode, exp)
            ck.guard("R-CTRLDEP", lambda m=m: check_ctrldep(ck, dfs, m), dfs)
        m = check_worklist(ck, bfs, {}, "level order")
        ck.guard("R-CTRLDEP", lambda: check_ctrldep(ck, bfs, m), bfs)

    ck.guard("R-WORKLIST", wl)
    ck.guard("R-GATHER", lambda: check_gather(ck, ck.repo.func(NODE, "ASTNode.gather")))
    ck.guard("R-PRESENCE", lambda: T.r_presence(ck))
    ck.guard("R-ENUM-SHAPE", lambda: T.r_enum_shape(ck))
    ck.guard("R-ORDER-KEY", lambda: T.r_order_key(ck))
    from .c11 import r_child_kind
    ck.guard("R-CHILD-KIND", lambda: r_child_kind(ck))
    ck.require_count("R-WORKLIST", 3 + 3 + 6)
    ck.require_count("R-CTRLDEP", 3)
    ck.require_count("R-GATHER", 4)
