"""C16 — Serialization options apply to the whole call and to nothing after it."""
from __future__ import annotations

import ast

from ..astutil import calls, dotted, is_const, norm, strip_docstring, walk_body, walk_local
from ..dtree import decision_tree
from ..callgraph import CallGraph
from ..flow import Interp, Semantics, enumerate_paths
from ..report import Checker
from ..srcmodel import Func, Unsupported

MIXIN = "DataClassSerializeMixin"
SER = "pyoak.serialize"
ENTRY = ("as_dict", "as_obj")
FRONT = ("to_jsonb", "to_json", "from_json", "to_msgpck", "from_msgpck", "to_yaml", "from_yaml")


def _slot_of(target: ast.AST, slots: set[str], any_receiver: bool = False) -> str | None:
    """DataClassSerializeMixin.X -> X when X is an option slot.

    Only the mixin class itself is the process-global slot: ``cls.X = ...`` / ``self.X = ...`` inside a method creates
    a shadow attribute on a subclass / instance and leaves the shared slot untouched (so it is *not* a reset).
    With ``any_receiver`` every receiver counts (used to find foreign writers)."""
    if isinstance(target, ast.Attribute) and _unmangle(target.attr) in slots:
        if any_receiver or (isinstance(target.value, ast.Name) and target.value.id == MIXIN):
            return _unmangle(target.attr)
    return None


def _unmangle(name: str) -> str:
    pref = f"_{MIXIN}"
    return name[len(pref):] if name.startswith(pref + "__") else name


def find_slots(ck: Checker) -> dict[str, str]:
    """slot name -> normalised reset value (the class-level initialiser)."""
    c = ck.repo.cls(SER, MIXIN)
    getters = {}
    for st in c.node.body:
        if isinstance(st, ast.FunctionDef) and st.name.startswith("_get_"):
            for n in walk_body(st.body):
                if isinstance(n, ast.Return) and isinstance(n.value, ast.Attribute):
                    getters[st.name] = n.value.attr
    slots: dict[str, str] = {}
    for st in c.node.body:
        tgt = val = None
        if isinstance(st, ast.AnnAssign) and isinstance(st.target, ast.Name):
            tgt, val = st.target.id, st.value
        elif isinstance(st, ast.Assign) and len(st.targets) == 1 and isinstance(st.targets[0], ast.Name):
            tgt, val = st.targets[0].id, st.value
        if tgt and tgt in getters.values() and val is not None:
            slots[tgt] = norm(val)
    return slots


class PairSem(Semantics):
    """State = frozenset of dirty slots."""

    def __init__(self, slots: dict[str, str], any_receiver: bool = False) -> None:
        self.slots = slots
        self.any = any_receiver
        self.writes: list[tuple[str, str, ast.stmt]] = []

    def _effect(self, st: ast.stmt) -> list[tuple[str, bool]]:
        eff: list[tuple[str, bool]] = []  # (slot, dirty?)
        names = set(self.slots)
        if isinstance(st, (ast.Assign, ast.AnnAssign, ast.AugAssign)):
            targets = st.targets if isinstance(st, ast.Assign) else [st.target]
            for t in targets:
                s = _slot_of(t, names, self.any)
                if s is not None:
                    val = st.value
                    clean = (
                        not isinstance(st, ast.AugAssign)
                        and val is not None
                        and (norm(val) == self.slots[s] or (self.slots[s] == "{}" and norm(val) == "dict()"))
                    )
                    eff.append((s, not clean))
        for n in walk_local(st):
            if isinstance(n, ast.Call) and isinstance(n.func, ast.Attribute):
                s = _slot_of(n.func.value, names, self.any)
                if s is not None:
                    if n.func.attr == "clear":
                        eff.append((s, False))
                    elif n.func.attr in ("update", "setdefault", "__setitem__", "pop", "popitem"):
                        eff.append((s, True))
            if isinstance(n, ast.Subscript) and isinstance(n.ctx, (ast.Store, ast.Del)):
                s = _slot_of(n.value, names, self.any)
                if s is not None:
                    eff.append((s, True))
        return eff

    def simple(self, state, st):
        cur = set(state)
        for s, dirty in self._effect(st):
            self.writes.append((s, "dirty" if dirty else "clean", st))
            (cur.add if dirty else cur.discard)(s)
        return (frozenset(cur),)


def r_opt_pair(ck: Checker, slots: dict[str, str]) -> None:
    for name in ENTRY:
        f = ck.repo.func(SER, f"{MIXIN}.{name}")
        sem = PairSem(slots)
        out = Interp(sem).block(f.node.body, {frozenset()})
        dirtying = {s for s, k, _ in sem.writes if k == "dirty"}
        if dirtying != set(slots):
            ck.incomplete("R-OPT-PAIR", f, f.node,
                          f"{name} does not set every option slot (found writes to {sorted(dirtying)}, slots {sorted(slots)})")
            continue
        for kind, states in (("normal", out.normal | out.ret), ("exceptional", out.exc)):
            bad = sorted({s for st in states for s in st})
            what = f"every {kind} exit of {name} leaves all option slots reset"
            if bad:
                ck.violation("R-OPT-PAIR", f, f.node, what,
                             construct=f"{name}: {kind} exit reached with slot(s) {','.join(bad)} still set",
                             evaluations=len(states), dirty_slots=bad)
            else:
                if not states:
                    ck.incomplete("R-OPT-PAIR", f, f.node, f"no {kind} exit found in {name}")
                else:
                    ck.holds("R-OPT-PAIR", f, f.node, what, evaluations=len(states),
                             exits=len(states), slot_writes=[(s, k, norm(st)[:80]) for s, k, st in sem.writes])


def r_opt_own(ck: Checker, slots: dict[str, str]) -> None:
    """The slots are written only in as_dict/as_obj; the front-ends funnel into those two."""
    sem = PairSem(slots, any_receiver=True)
    n_sites = 0
    for f in ck.repo.functions(list(ck.repo.mods.values())):
        for n in walk_body(f.node.body):
            if isinstance(n, ast.stmt) and not isinstance(n, (ast.If, ast.For, ast.While, ast.Try, ast.With, ast.FunctionDef, ast.ClassDef)):
                eff = sem._effect(n)
                if not eff:
                    continue
                n_sites += 1
                owner_ok = f.mod.name == SER and f.qualname in {f"{MIXIN}.{e}" for e in ENTRY}
                what = "option slots are written only by as_dict / as_obj"
                if owner_ok:
                    ck.holds("R-OPT-OWN", f, n, what, write=norm(n)[:100])
                else:
                    ck.violation("R-OPT-OWN", f, n, what, construct=f"foreign write {norm(n)[:100]}")
    # module level / class level writes other than the initialisers
    for m in ck.repo.mods.values():
        for n in ast.walk(m.tree):
            if isinstance(n, ast.Attribute) and isinstance(n.ctx, (ast.Store, ast.Del)) and _unmangle(n.attr) in slots:
                pass  # covered above when inside functions; module-level attribute stores:
        for st in m.tree.body:
            if isinstance(st, (ast.Assign, ast.AugAssign, ast.AnnAssign, ast.Expr)) and sem._effect(st):
                ck.violation("R-OPT-OWN", m, st, "option slots are written only by as_dict / as_obj",
                             construct=f"module-level write {norm(st)[:100]}")
    # front-ends funnel
    for name in FRONT:
        f = ck.repo.func(SER, f"{MIXIN}.{name}")
        target = "as_dict" if name.startswith("to_") else "as_obj"
        cs = [c for c in calls(f.node.body) if isinstance(c.func, ast.Attribute)]
        direct = [c for c in cs if c.func.attr == target]
        via = [c for c in cs if c.func.attr in FRONT and c.func.attr != name]
        what = f"{name} funnels into {target} and passes serialization_options through"
        if not direct and not via:
            ck.violation("R-OPT-OWN", f, f.node, what, construct=f"{name}: no call of {target}")
            continue
        ok = True
        for c in direct + via:
            kwv = next((k.value for k in c.keywords if k.arg == "serialization_options"), None)
            pos = [a for a in c.args if isinstance(a, ast.Name) and a.id == "serialization_options"]
            if not ((isinstance(kwv, ast.Name) and kwv.id == "serialization_options") or pos):
                ok = False
        if ok:
            ck.holds("R-OPT-OWN", f, f.node, what, calls=len(direct) + len(via))
        else:
            ck.violation("R-OPT-OWN", f, f.node, what, construct=f"{name}: serialization_options not forwarded")
    ck.require_count("R-OPT-OWN", 6 + len(FRONT))


def r_opt_reentry(ck: Checker) -> None:
    mods = list(ck.repo.mods.values())
    cg = CallGraph(ck.repo, mods)
    roots = [f for f in cg.funcs if f.qualname.split(".")[-1] in ("_serialize", "_deserialize", "__post_serialize__")]
    if len(roots) < 10:
        ck.incomplete("R-OPT-REENTRY", None, None, f"only {len(roots)} serialization hooks found, expected >= 10")
        return
    reach = cg.reachable(roots)
    bad_names = set(ENTRY) | set(FRONT)
    n_bad = 0
    for key, (f, path) in reach.items():
        for c in calls(f.node.body):
            if isinstance(c.func, ast.Attribute) and c.func.attr in bad_names:
                n_bad += 1
                ck.violation("R-OPT-REENTRY", f, c,
                             "no function reachable from a serialization hook starts a nested as_dict/as_obj call",
                             construct=f"{f.qualname} calls {c.func.attr} (reachable via {' -> '.join(path[-3:])})")
    if not n_bad:
        ck.holds("R-OPT-REENTRY", (SER, MIXIN), None,
                 "no function reachable from a serialization hook starts a nested as_dict/as_obj call",
                 evaluations=len(reach), hooks=len(roots), reachable_functions=len(reach))


# ------------------------------------------------------------------ tag first / sorted
def _opt_flag(e: ast.expr, fn: ast.FunctionDef) -> str | None:
    """Which option a boolean local denotes: follows `x = <opts>.get(SerializationOption.K, False)`."""
    if isinstance(e, ast.Name):
        for n in walk_body(fn.body):
            if isinstance(n, ast.Assign) and len(n.targets) == 1 and isinstance(n.targets[0], ast.Name) and n.targets[0].id == e.id:
                return _opt_flag(n.value, fn)
        return None
    if isinstance(e, ast.Call) and isinstance(e.func, ast.Attribute) and e.func.attr == "get" and e.args:
        k = dotted(e.args[0])
        if k and k.startswith("SerializationOption."):
            default = e.args[1] if len(e.args) > 1 else None
            if default is not None and not is_const(default, False):
                return None
            return k.split(".")[1]
    return None


def r_tag_first(ck: Checker) -> None:
    f = ck.repo.func(SER, f"{MIXIN}.__post_serialize__")
    fn = f.node
    paths = enumerate_paths(fn.body, loops_as_stmts=True)["ret"]
    if not paths:
        raise Unsupported("__post_serialize__ has no return path", fn)
    n_eval = 0
    for p in paths:
        ret = p.events[-1][1]
        if not isinstance(ret.value, ast.Name):
            raise Unsupported("__post_serialize__ does not return a local mapping", ret)
        outv = ret.value.id
        flags: dict[str, bool] = {}
        for test, val in p.conds():
            t, pol = test, val
            while isinstance(t, ast.UnaryOp) and isinstance(t.op, ast.Not):
                t, pol = t.operand, not pol
            k = _opt_flag(t, fn)
            if k is None:
                continue  # a condition on something else: both of its branches are enumerated as separate paths
            flags[k] = pol
        tag_written = False
        others_written = False
        sorted_fill = None
        resorted = False
        for ev in p.events:
            if ev[0] != "stmt":
                continue
            st = ev[1]
            # out[TYPE_KEY] = ...
            if isinstance(st, ast.Assign) and len(st.targets) == 1 and isinstance(st.targets[0], ast.Subscript) \
                    and dotted(st.targets[0].value) == outv:
                key = st.targets[0].slice
                if dotted(key) == "TYPE_KEY" or is_const(key, "__type"):
                    n_eval += 1
                    if others_written:
                        ck.violation("R-TAG-FIRST", f, st, "the type tag is stored before any other key",
                                     construct="tag stored after other keys")
                    if norm(st.value) not in ("self.__class__.__name__", "type(self).__name__"):
                        ck.violation("R-TAG-TABLE", f, st, "the tag value is the class name",
                                     construct=f"tag value {norm(st.value)}")
                    tag_written = True
                else:
                    others_written = True
            elif isinstance(st, (ast.For,)):
                others_written = True
                sorted_fill = st
            elif isinstance(st, ast.Expr) and isinstance(st.value, ast.Call) and isinstance(st.value.func, ast.Attribute) \
                    and dotted(st.value.func.value) == outv and st.value.func.attr == "update":
                others_written = True
                sorted_fill = st
            elif isinstance(st, (ast.Assign, ast.AnnAssign)) and st.value is not None and any(
                    n == outv for t in (st.targets if isinstance(st, ast.Assign) else [st.target]) for n in [dotted(t)]):
                if isinstance(st.value, ast.Dict) and all(k is not None for k in st.value.keys):
                    # a literal initialiser: its keys are inserted in the order written
                    for k_, v_ in zip(st.value.keys, st.value.values):
                        if dotted(k_) == "TYPE_KEY" or is_const(k_, "__type"):
                            n_eval += 1
                            if others_written:
                                ck.violation("R-TAG-FIRST", f, st, "the type tag is stored before any other key", construct="tag stored after other keys")
                            if norm(v_) not in ("self.__class__.__name__", "type(self).__name__"):
                                ck.violation("R-TAG-TABLE", f, st, "the tag value is the class name", construct=f"tag value {norm(v_)}")
                            tag_written = True
                        else:
                            others_written = True
                elif norm(st.value) != "dict()":
                    if f"sorted({outv}.items()" in norm(st.value) or f"sorted({outv})" in norm(st.value):
                        # the mapping is re-built from a sort of itself: the tag, if already in it, is sorted like any field name
                        if tag_written:
                            ck.violation("R-TAG-FIRST", f, st, "the type tag is stored before any other key (also when the keys are sorted)",
                                         construct="the output mapping, tag included, is re-sorted as a whole (a field name that sorts before '__type' comes first)")
                        others_written = True
                        resorted = True
                        continue
                    raise Unsupported(f"output mapping initialised with {norm(st.value)}", st)
        skip = flags.get("SKIP_CLASS")
        if skip is None:
            raise Unsupported("path does not decide SKIP_CLASS", fn)
        n_eval += 1
        what = "the tag is stored iff tag suppression is off"
        if tag_written == (not skip):
            ck.holds("R-TAG-FIRST", f, fn, what, skip_class=skip, tag_written=tag_written)
        else:
            ck.violation("R-TAG-FIRST", f, fn, what, construct=f"skip_class={skip} tag_written={tag_written}")
        srt = flags.get("SORT_KEYS")
        if srt is None:
            raise Unsupported("path does not decide SORT_KEYS", fn)
        what = "with key sorting the remaining keys are inserted in sorted key order"
        if srt:
            ok = False
            dparam = fn.args.args[1].arg if len(fn.args.args) > 1 else "d"
            if isinstance(sorted_fill, ast.For) and isinstance(sorted_fill.iter, ast.Call) and dotted(sorted_fill.iter.func) == "sorted":
                c = sorted_fill.iter
                keyf = next((k.value for k in c.keywords if k.arg == "key"), None)
                rev = next((k.value for k in c.keywords if k.arg == "reverse"), None)
                tg = sorted_fill.target
                body1 = sorted_fill.body[0] if len(sorted_fill.body) == 1 and isinstance(sorted_fill.body[0], ast.Assign) else None
                rev_ok = rev is None or is_const(rev, False)
                if len(c.args) == 1 and isinstance(c.args[0], ast.Call) and isinstance(c.args[0].func, ast.Attribute) \
                        and c.args[0].func.attr == "items" and norm(c.args[0].func.value) == dparam:
                    key_ok = keyf is None or norm(keyf) in ("itemgetter(0)", "operator.itemgetter(0)") or (
                        isinstance(keyf, ast.Lambda) and isinstance(keyf.body, ast.Subscript) and is_const(keyf.body.slice, 0))
                    body_ok = (
                        body1 is not None and isinstance(tg, ast.Tuple) and len(tg.elts) == 2
                        and isinstance(body1.targets[0], ast.Subscript) and dotted(body1.targets[0].value) == outv
                        and norm(body1.targets[0].slice) == norm(tg.elts[0]) and norm(body1.value) == norm(tg.elts[1])
                    )
                    ok = key_ok and body_ok and rev_ok
                elif len(c.args) == 1 and norm(c.args[0]) in (dparam, f"{dparam}.keys()", f"list({dparam})") and keyf is None:
                    body_ok = (
                        body1 is not None and isinstance(tg, ast.Name) and isinstance(body1.targets[0], ast.Subscript)
                        and dotted(body1.targets[0].value) == outv and norm(body1.targets[0].slice) == tg.id
                        and norm(body1.value) == f"{dparam}[{tg.id}]"
                    )
                    ok = body_ok and rev_ok
            if isinstance(sorted_fill, ast.Expr):  # out.update(sorted(d.items(), key=<first component>)): pairs are inserted in sorted key order
                c = sorted_fill.value.args[0] if len(sorted_fill.value.args) == 1 and not sorted_fill.value.keywords else None  # type: ignore[attr-defined]
                if isinstance(c, ast.Call) and dotted(c.func) == "dict" and len(c.args) == 1 and not c.keywords:
                    c = c.args[0]
                if isinstance(c, ast.Call) and dotted(c.func) == "sorted" and len(c.args) == 1:
                    keyf = next((k.value for k in c.keywords if k.arg == "key"), None)
                    rev = next((k.value for k in c.keywords if k.arg == "reverse"), None)
                    src_ok = isinstance(c.args[0], ast.Call) and isinstance(c.args[0].func, ast.Attribute) and c.args[0].func.attr == "items" \
                        and norm(c.args[0].func.value) == dparam and not c.args[0].args
                    key_ok = keyf is None or norm(keyf) in ("itemgetter(0)", "operator.itemgetter(0)") or (
                        isinstance(keyf, ast.Lambda) and isinstance(keyf.body, ast.Subscript) and is_const(keyf.body.slice, 0)
                        and norm(keyf.body.value) == keyf.args.args[0].arg)
                    ok = src_ok and key_ok and (rev is None or is_const(rev, False)) and not [k for k in c.keywords if k.arg not in ("key", "reverse")]
            if resorted and not ok:
                ok = True  # all keys copied, then the mapping re-built in sorted key order
            if ok:
                ck.holds("R-SORTED", f, sorted_fill, what)
            else:
                ck.violation("R-SORTED", f, sorted_fill or fn, what,
                             construct=("sorted path fills with " + (norm(sorted_fill).splitlines()[0][:80] if sorted_fill is not None else "nothing")
                                        + ": not a sort of the keys of the mapping being serialized"))
        else:
            if sorted_fill is None:
                ck.violation("R-SORTED", f, fn, "the unsorted path copies all keys", construct="unsorted path copies nothing")
            else:
                ck.holds("R-SORTED", f, sorted_fill, "the unsorted path copies all keys")
    ck.require_count("R-TAG-FIRST", 4)


def r_overrides(ck: Checker) -> None:
    """Overrides of __post_serialize__ call super first-or-last and add no key after the ordered fill."""
    mods = ck.repo.nonlegacy()
    n = 0
    for f in ck.repo.functions(mods):
        if f.qualname.split(".")[-1] != "__post_serialize__" or f.cls is None or f.cls.name == MIXIN:
            continue
        n += 1
        fn = f.node
        sup = [c for c in calls(fn.body) if isinstance(c.func, ast.Attribute) and c.func.attr == "__post_serialize__"
               and isinstance(c.func.value, ast.Call) and dotted(c.func.value.func) == "super"]
        what = "override calls super().__post_serialize__"
        if len(sup) != 1:
            ck.violation("R-SORTED-OVERRIDE", f, fn, what, construct=f"{f.qualname}: {len(sup)} super calls")
            continue
        ck.holds("R-SORTED-OVERRIDE", f, sup[0], what)
        sup_line = sup[0].lineno
        # the variable holding the ordered mapping
        outv = None
        for st in walk_body(fn.body):
            if isinstance(st, ast.Assign) and st.value is sup[0] and isinstance(st.targets[0], ast.Name):
                outv = st.targets[0].id
        what2 = "no top-level key is inserted into the ordered mapping after the super call"
        bad = False
        for st in walk_body(fn.body):
            if getattr(st, "lineno", 0) <= sup_line or outv is None:
                continue
            if isinstance(st, ast.Subscript) and isinstance(st.ctx, ast.Store) and dotted(st.value) == outv:
                bad = True
                ck.violation("R-SORTED-OVERRIDE", f, st, what2, construct=f"{f.qualname}: {norm(st)} stored after the ordered fill")
            if isinstance(st, ast.Call) and isinstance(st.func, ast.Attribute) and dotted(st.func.value) == outv \
                    and st.func.attr in ("update", "setdefault", "__setitem__"):
                bad = True
                ck.violation("R-SORTED-OVERRIDE", f, st, what2, construct=f"{f.qualname}: {norm(st)[:60]} after the ordered fill")
        # literal mappings built by the override (nested stubs): tag first, rest sorted, and a tag only when tags are not suppressed
        parents: dict[int, ast.AST] = {}
        for p_ in ast.walk(fn):
            for c_ in ast.iter_child_nodes(p_):
                parents[id(c_)] = p_
        local_dicts = {norm(st.targets[0] if isinstance(st, ast.Assign) else st.target): st.value for st in walk_body(fn.body)
                       if isinstance(st, (ast.Assign, ast.AnnAssign)) and isinstance(st.value, ast.Dict)
                       and isinstance(st.targets[0] if isinstance(st, ast.Assign) else st.target, ast.Name)}
        for dct in [n for n in walk_body(fn.body) if isinstance(n, ast.Dict) and n.keys]:
            ks: list = []
            for k, v in zip(dct.keys, dct.values):
                if k is None:
                    inner = v if isinstance(v, ast.Dict) else local_dicts.get(norm(v))
                    if inner is dct and isinstance(v, ast.Name):
                        # x = {TAG: .., **x}: the spread is the literal bound to x before this statement
                        earlier = [st_.value for st_ in walk_body(fn.body) if isinstance(st_, ast.Assign) and len(st_.targets) == 1 and norm(st_.targets[0]) == v.id
                                   and isinstance(st_.value, ast.Dict) and st_.value is not dct and (st_.lineno, st_.col_offset) < (dct.lineno, dct.col_offset)]
                        inner = earlier[-1] if len(earlier) == 1 else None
                    if inner is None or inner is dct:
                        ks.append(None)
                    else:
                        ks += [kk.value if isinstance(kk, ast.Constant) and isinstance(kk.value, str) else None for kk in inner.keys]
                elif dotted(k) == "TYPE_KEY" or is_const(k, "__type"):
                    ks.append("\0")
                elif isinstance(k, ast.Constant) and isinstance(k.value, str):
                    ks.append(k.value)
                else:
                    ks.append(None)
            if "\0" in ks:
                guarded = False
                cur: ast.AST = dct
                while id(cur) in parents:
                    prev, cur = cur, parents[id(cur)]
                    if isinstance(cur, ast.If):
                        in_body = any(prev is x or any(prev is y for y in ast.walk(x)) for x in cur.body)
                        in_else = any(prev is x or any(prev is y for y in ast.walk(x)) for x in cur.orelse)
                        t, pol = cur.test, True
                        while isinstance(t, ast.UnaryOp) and isinstance(t.op, ast.Not):
                            t, pol = t.operand, not pol
                        # reached only when SKIP_CLASS is false: body of `if not SKIP`, or else-branch of `if SKIP`
                        if _opt_flag(t, fn) == "SKIP_CLASS" and ((in_body and not pol) or (in_else and pol)):
                            guarded = True
                what3 = "a literal mapping written by the override carries a type tag only when tags are not suppressed"
                if guarded:
                    ck.holds("R-TAG-FIRST", f, dct, what3)
                else:
                    bad = True
                    ck.violation("R-TAG-FIRST", f, dct, what3, positive=True, construct=f"{f.qualname}: literal mapping with a type tag is not guarded by `not SKIP_CLASS`")
            if None in ks:
                if bad:
                    continue
                raise Unsupported("non-constant key in a literal mapping of a __post_serialize__ override", dct)
            shown = [k if k != "\0" else "TYPE_KEY" for k in ks]
            if ks != sorted(ks):
                bad = True
                ck.violation("R-SORTED-OVERRIDE", f, dct, "a literal mapping written by the override lists the tag first and the other keys sorted",
                             construct=f"{f.qualname}: literal keys {shown}")
            else:
                ck.holds("R-SORTED-OVERRIDE", f, dct, "a literal mapping written by the override lists the tag first and the other keys sorted", keys=shown)
        if not bad:
            ck.holds("R-SORTED-OVERRIDE", f, fn, what2)
    if n < 2:
        ck.incomplete("R-SORTED-OVERRIDE", None, None, f"only {n} __post_serialize__ overrides found (expected >= 2)")


def r_default_tag(ck: Checker) -> None:
    mods = ck.repo.nonlegacy()
    subs = {c.name for c in ck.repo.subclasses_of(MIXIN, mods)}
    for need, mod in (("ASTNode", "pyoak.node"), ("Origin", "pyoak.origin"), ("Source", "pyoak.origin"),
                      ("Position", "pyoak.origin"), ("CodePoint", "pyoak.origin")):
        ck.repo.cls(mod, need)
        what = f"{need} derives from the tagging mixin"
        if need in subs:
            ck.holds("R-DEFAULT-TAG", (mod, need), None, what)
        else:
            ck.violation("R-DEFAULT-TAG", (mod, need), None, what, construct=f"{need} is not a {MIXIN} subclass")
    # _serialize overrides that bypass the tagging path
    for f in ck.repo.functions(mods):
        if f.qualname.split(".")[-1] != "_serialize" or f.cls is None or f.cls.name == MIXIN:
            continue
        for n in walk_body(f.node.body):
            if not isinstance(n, ast.Return) or n.value is None:
                continue
            v = n.value
            what = "_serialize overrides drop the tag only for the empty placeholder and the index form"
            if isinstance(v, ast.Call) and isinstance(v.func, ast.Attribute) and v.func.attr == "_serialize" \
                    and isinstance(v.func.value, ast.Call) and dotted(v.func.value.func) == "super":
                ck.holds("R-DEFAULT-TAG", f, n, what, form="super()._serialize()")
            elif isinstance(v, ast.Dict) and not v.keys:
                ck.holds("R-DEFAULT-TAG", f, n, what, form="{} placeholder")
            elif isinstance(v, ast.Dict) and len(v.keys) == 1 and is_const(v.keys[0], "idx"):
                ck.holds("R-DEFAULT-TAG", f, n, what, form="index reference")
            else:
                ck.violation("R-DEFAULT-TAG", f, n, what, construct=f"{f.qualname} returns {norm(v)[:60]}")
    ck.require_count("R-DEFAULT-TAG", 9)


def r_options_readonly(ck: Checker) -> None:
    """The mapping returned by _get_serialization_options() *is* the class-level slot of the call in progress.  A hook that stores into
    it (a derived flag "parked" there) leaves the entry behind when the hook was reached through mashumaro's own to_dict (no as_dict
    around it to reset the slot), and the next call reads it (positive pattern: a store / update / setdefault on a local bound to the
    getter's result, or on the call itself)."""
    from .state_rules import _raw_functions
    n = 0
    for m_ in ck.repo.nonlegacy():
        for q, fn, _cls in _raw_functions(m_):
            views = {st.targets[0].id for st in ast.walk(fn) if isinstance(st, ast.Assign) and len(st.targets) == 1 and isinstance(st.targets[0], ast.Name)
                     and isinstance(st.value, ast.Call) and (dotted(st.value.func) or "").split(".")[-1] in ("_get_serialization_options",)}

            def is_view(e: ast.expr) -> bool:
                return (isinstance(e, ast.Name) and e.id in views) or (isinstance(e, ast.Call) and (dotted(e.func) or "").split(".")[-1] == "_get_serialization_options")
            if not views and not any(isinstance(x, ast.Call) and (dotted(x.func) or "").split(".")[-1] == "_get_serialization_options" for x in ast.walk(fn)):
                continue
            n += 1
            bad = None
            for x in ast.walk(fn):
                if isinstance(x, ast.Subscript) and isinstance(x.ctx, (ast.Store, ast.Del)) and is_view(x.value):
                    bad = x
                elif isinstance(x, ast.Call) and isinstance(x.func, ast.Attribute) and x.func.attr in ("update", "setdefault", "pop", "clear", "popitem", "__setitem__") and is_view(x.func.value):
                    bad = x
            presence = next((x for x in ast.walk(fn) if isinstance(x, ast.Compare) and len(x.ops) == 1 and isinstance(x.ops[0], (ast.In, ast.NotIn)) and is_view(x.comparators[0])), None)
            if presence is not None:
                ck.violation("R-OPT-OWN", (m_.rel, q), presence, f"{q} reads an option by its value (an option given as False is an option not taken)", positive=True,
                             construct=f"{q}: `{norm(presence)[:60]}` tests whether the option key is present — passing the option with a falsy value (the documented way to switch it off) switches it on")
                continue
            what = f"{q} only reads the options of the call in progress"
            if bad is not None:
                ck.violation("R-OPT-OWN", (m_.rel, q), bad, what, positive=True,
                             construct=f"{q}: {norm(bad)[:60]} writes into the option mapping of the call — the entry outlives the hook and is read by later calls")
            else:
                ck.holds("R-OPT-OWN", (m_.rel, q), fn, what)
    if n < 3:
        ck.incomplete("R-OPT-OWN", None, None, f"only {n} readers of the serialization options found (>= 3 confirmed by hand)")


def r_serialize_overrides(ck: Checker) -> None:
    """A class that overrides _serialize still goes through the mixin's hook for its fields (`super()._serialize()`): tag, key order and
    dialect are applied there.  Positive pattern: an override that returns a mapping it has put together from the object's attributes."""
    n = 0
    for m_ in ck.repo.nonlegacy():
        for c in [x for x in ast.walk(m_.tree) if isinstance(x, ast.ClassDef) and x.name != MIXIN]:
            ov = next((st for st in c.body if isinstance(st, ast.FunctionDef) and st.name == "_serialize"), None)
            if ov is None:
                continue
            n += 1
            what = f"{c.name}._serialize converts the object's fields through the mixin (super()._serialize())"
            handmade = [d for d in ast.walk(ov) if isinstance(d, ast.Dict) and any(isinstance(v, ast.Attribute) and isinstance(v.value, ast.Name) and v.value.id == "self" and v.attr != "__class__"
                                                                                 for v in d.values if v is not None)]
            calls_super = any(isinstance(x, ast.Call) and isinstance(x.func, ast.Attribute) and x.func.attr in ("_serialize", "to_dict") and isinstance(x.func.value, ast.Call)
                              and dotted(x.func.value.func) == "super" for x in ast.walk(ov))
            if handmade:
                ck.violation("R-SORTED-OVERRIDE", (m_.rel, f"{c.name}._serialize"), handmade[0], what, positive=True,
                             construct=f"{c.name}._serialize builds {norm(handmade[0])[:60]} by hand — key sorting (and whatever else the mixin's hook applies per call) does not reach objects of this class")
            elif calls_super:
                ck.holds("R-SORTED-OVERRIDE", (m_.rel, f"{c.name}._serialize"), ov, what)
            elif all(isinstance(r.value, ast.Dict) and not r.value.keys for r in ast.walk(ov) if isinstance(r, ast.Return)):
                ck.holds("R-SORTED-OVERRIDE", (m_.rel, f"{c.name}._serialize"), ov, f"{c.name}._serialize returns the empty placeholder (nothing to order or tag)")
            else:
                raise Unsupported(f"{c.name}._serialize: neither super()._serialize() nor a hand-built mapping", ov)
    if n == 0:
        ck.incomplete("R-SORTED-OVERRIDE", None, None, "no _serialize override found (Source._serialize confirmed by hand)")


def r_frontends_via_entry(ck: Checker) -> None:
    """The options and the dialect of a call reach nested objects only through the class-level slots that as_dict / as_obj publish.  A format
    front-end (to_json, to_msgpck, to_yaml, from_* ...) that calls mashumaro's to_dict / from_dict itself hands the dialect to the root
    object only (positive pattern: such a call outside _serialize / _deserialize / as_dict / as_obj)."""
    c = ck.repo.cls(SER, MIXIN)
    n = 0
    for st in c.node.body:
        if not isinstance(st, ast.FunctionDef) or st.name in ("_serialize", "_deserialize", "as_dict", "as_obj", "__post_serialize__") or st.name.startswith("__"):
            continue
        n += 1
        bad = next((x for x in ast.walk(st) if isinstance(x, ast.Call) and isinstance(x.func, ast.Attribute) and x.func.attr in ("to_dict", "from_dict")), None)
        what = f"{MIXIN}.{st.name} converts through as_dict / as_obj (which publish the options and the dialect for the nested objects)"
        if bad is not None:
            ck.violation("R-OPT-OWN", (c.mod.rel, f"{MIXIN}.{st.name}"), bad, what, positive=True,
                         construct=f"{MIXIN}.{st.name}: {norm(bad)[:60]} bypasses as_dict / as_obj — the dialect and the options of this call never reach the nested objects")
        else:
            ck.holds("R-OPT-OWN", (c.mod.rel, f"{MIXIN}.{st.name}"), st, what)
    if n < 6:
        ck.incomplete("R-OPT-OWN", None, None, f"only {n} format front-ends found (>= 6 confirmed by hand)")


def r_dialect_passed(ck: Checker) -> None:
    """mashumaro does not hand a dialect down to nested SerializableType values by itself: every nested object gets it from the class-level
    slot inside _serialize / _deserialize.  So every path of those two hooks that converts (to_dict / from_dict) either passes
    `dialect=<the slot>` or has established that the slot is None (path-based; positive pattern: a conversion without `dialect=` on a path
    on which the slot was never compared with None, or is known to be set)."""
    c = ck.repo.cls(SER, MIXIN)
    for name, conv in (("_serialize", "to_dict"), ("_deserialize", "from_dict")):
        f = ck.repo.func(SER, f"{MIXIN}.{name}")
        leaves = decision_tree(strip_docstring(f.node.body), max_atoms=8)
        n = 0
        bad = None
        for lf in leaves:
            stmts, val = lf.resolved()
            calls = [x for st in list(stmts) + ([ast.Expr(value=val)] if val is not None else []) for x in ast.walk(st)
                     if isinstance(x, ast.Call) and isinstance(x.func, ast.Attribute) and x.func.attr == conv]
            if not calls:
                continue
            slot_atoms = {k: v for k, v in lf.assign.items() if "mashumaro_dialect" in k and k.startswith("is(") and "None" in k}
            known_none = any(v is True for v in slot_atoms.values())
            for cl in calls:
                n += 1
                kw = next((k for k in cl.keywords if k.arg == "dialect"), None)
                if kw is not None and "mashumaro_dialect" in norm(kw.value):
                    continue
                if kw is None and known_none:
                    continue
                star = [k for k in cl.keywords if k.arg is None]
                if star:
                    if any("mashumaro_dialect" in norm(k.value) for k in star):
                        continue
                    raise Unsupported(f"{MIXIN}.{name}: {norm(cl)[:60]} passes its options through a mapping that was not resolved", cl)
                bad = (cl, "the slot is set on this path" if slot_atoms else "the slot was not looked at on this path")
        what = f"{MIXIN}.{name}: every conversion passes the dialect of the call in progress unless none is set"
        if bad:
            ck.violation("R-OPT-OWN", f, bad[0], what, positive=True, evaluations=len(leaves),
                         construct=f"{MIXIN}.{name}: {norm(bad[0])[:60]} converts without `dialect=` although {bad[1]} — nested objects on this path are (de)serialized with the default strategies")
        elif n == 0:
            raise Unsupported(f"{MIXIN}.{name}: no {conv}(...) call found on any path", f.node)
        else:
            ck.holds("R-OPT-OWN", f, f.node, what, evaluations=len(leaves))


def run(ck: Checker) -> None:
    ck.explanation = (
        "Static dataflow over serialize.py/node.py/origin.py: set/reset pairing of the two process-global option "
        "slots on every normal and exceptional exit of as_dict/as_obj (flow interpreter with exceptional edges), "
        "ownership of the slots (who may write), absence of re-entry from serialization hooks (package call graph), "
        "tag-first / sorted-fill path analysis of __post_serialize__ and its overrides, tagging by default. "
        "Decides these structural necessary conditions, not mashumaro's behaviour."
    )
    ck.rule_text = "one obligation per (rule, function, exit kind / path / call site); distinct = distinct (rule, site, obligation)"
    ck.assumptions += [
        "mashumaro calls _serialize/_deserialize/__post_serialize__ on every nested mixin object (third party, not analysed)",
        "a write to a slot is atomic: if its statement raises the slot keeps its previous value",
    ]
    from . import state_rules as S16
    ck.guard("R-OPT-OWN", lambda: S16.r_shared_defaults(ck, "R-OPT-OWN", SER, None))  # per-thread / per-call state objects do not share one mutable default
    slots = find_slots(ck)
    if len(slots) < 2:
        ck.incomplete("R-OPT-PAIR", None, None, f"expected 2 option slots on {MIXIN}, found {sorted(slots)}")
        return
    ck.guard("R-OPT-PAIR", lambda: r_opt_pair(ck, slots))
    ck.guard("R-OPT-OWN", lambda: r_opt_own(ck, slots))
    ck.guard("R-OPT-REENTRY", lambda: r_opt_reentry(ck))
    ck.guard("R-OPT-OWN", lambda: r_dialect_passed(ck))
    ck.guard("R-OPT-OWN", lambda: r_frontends_via_entry(ck))
    ck.guard("R-OPT-OWN", lambda: r_options_readonly(ck))
    ck.guard("R-SORTED-OVERRIDE", lambda: r_serialize_overrides(ck))
    ck.guard("R-TAG-FIRST", lambda: r_tag_first(ck))
    ck.guard("R-SORTED-OVERRIDE", lambda: r_overrides(ck))
    ck.guard("R-DEFAULT-TAG", lambda: r_default_tag(ck))
    from . import state_rules as S
    ck.guard("R-OPT-OWN", lambda: S.r_class_attr_cache(ck, "R-OPT-OWN", ("pyoak.node", "pyoak.serialize", "pyoak.origin")))
    ck.require_count("R-OPT-PAIR", 4)
