"""State that outlives a call: rules shared by the properties whose statements quantify over histories of calls.

S1  query methods write nothing on their receiver (their answer cannot depend on earlier calls)
S2a a mutable class-level default that instances fill is one object shared by all instances
S2b a per-class cache kept as a class attribute and found through ordinary attribute lookup is inherited by subclasses

All three are *positive* patterns: the verdict names a store that is there.
"""
from __future__ import annotations

import ast

from ..astutil import dotted, norm, walk_body
from ..report import Checker
from ..srcmodel import Func

MUTATORS = ("add", "append", "appendleft", "extend", "update", "pop", "popleft", "popitem", "setdefault", "clear", "remove", "discard", "insert")


def _self_writes(fn: ast.AST, recv: str = "self") -> list[tuple[ast.AST, str]]:
    out: list[tuple[ast.AST, str]] = []
    for n in ast.walk(fn):
        if isinstance(n, ast.Attribute) and isinstance(n.ctx, (ast.Store, ast.Del)) and norm(n.value) == recv:
            out.append((n, f"{recv}.{n.attr} is assigned"))
        elif isinstance(n, ast.Subscript) and isinstance(n.ctx, (ast.Store, ast.Del)) and isinstance(n.value, ast.Attribute) and norm(n.value.value) == recv:
            out.append((n, f"{recv}.{n.value.attr}[...] is assigned"))
        elif isinstance(n, ast.Call) and isinstance(n.func, ast.Attribute) and n.func.attr in MUTATORS and isinstance(n.func.value, ast.Attribute) \
                and norm(n.func.value.value) == recv:
            out.append((n, f"{recv}.{n.func.value.attr}.{n.func.attr}(...)"))
        elif isinstance(n, ast.Call) and dotted(n.func) in ("setattr", "object.__setattr__") and n.args and norm(n.args[0]) == recv:
            out.append((n, f"{dotted(n.func)}({recv}, ...)"))
    return out


def r_stateless(ck: Checker, rule: str, modname: str, cls: str, methods: tuple[str, ...] | None, why: str) -> None:
    """S1 for the named methods of a class (None: every method but __init__ / __post_init__ / __new__)."""
    n = 0
    for f in ck.repo.functions([ck.repo.mod(modname)]):
        if f.cls is None or f.cls.name != cls or f.qualname.count(".") != 1:
            continue
        m = f.qualname.split(".")[-1]
        if (methods is None and m in ("__init__", "__post_init__", "__new__", "__init_subclass__")) or (methods is not None and m not in methods):
            continue
        n += 1
        what = f"{cls}.{m} keeps nothing on the object between calls ({why})"
        ws = _self_writes(f.raw or f.node)
        if ws:
            ck.violation(rule, f, ws[0][0], what, positive=True, construct=f"{cls}.{m}: {ws[0][1]} — what the next call answers depends on what this one has seen")
        else:
            ck.holds(rule, f, f.node, what)
    if methods is not None and n < len(methods):
        ck.incomplete(rule, None, None, f"{cls}: only {n} of the methods {methods} found")


def r_shared_defaults(ck: Checker, rule: str, modname: str, classes: tuple[str, ...]) -> None:
    """S2a: `x: T = {}` in the class body, `self.x[...] = ...` in a method, no `self.x = ...` in __init__."""
    for cname in classes:
        c = ck.repo.cls(modname, cname)
        what = f"every {cname} instance has containers of its own (no mutable default declared at class level is filled by the instances)"
        mutable: dict[str, ast.AST] = {}
        for st in c.node.body:
            tgt = st.target if isinstance(st, ast.AnnAssign) else (st.targets[0] if isinstance(st, ast.Assign) and len(st.targets) == 1 else None)
            val = getattr(st, "value", None)
            if isinstance(tgt, ast.Name) and val is not None and (isinstance(val, (ast.Dict, ast.List, ast.Set))
                                                                   or (isinstance(val, ast.Call) and dotted(val.func) in ("dict", "list", "set", "defaultdict", "deque", "OrderedDict"))):
                if "ClassVar" in norm(getattr(st, "annotation", ast.Constant(value=""))):
                    continue
                mutable[tgt.id] = st
        bad = None
        for name, st in mutable.items():
            rebinds = False
            fills = None
            for m in c.node.body:
                if not isinstance(m, ast.FunctionDef):
                    continue
                for n in ast.walk(m):
                    if isinstance(n, ast.Attribute) and isinstance(n.ctx, ast.Store) and norm(n.value) == "self" and n.attr == name and m.name in ("__init__", "__post_init__"):
                        rebinds = True
                for w, txt in _self_writes(m):
                    if f"self.{name}[" in txt or f"self.{name}." in txt:
                        fills = (m.name, txt)
            if fills and not rebinds:
                bad = (st, f"{cname}.{name} is a mutable default declared at class level and {cname}.{fills[0]} fills it ({fills[1]}): all instances share the one object")
        if bad:
            ck.violation(rule, (c.mod.rel, f"class {cname}"), bad[0], what, positive=True, construct=bad[1])
        else:
            ck.holds(rule, (c.mod.rel, f"class {cname}"), c.node, what)


def r_class_attr_cache(ck: Checker, rule: str, modnames: tuple[str, ...]) -> None:
    """S2b: read of C.<name> / getattr(C, "<name>") and store C.<name> = ... / setattr(C, "<name>", ...) in one function, C a class object."""
    def class_expr(e: ast.expr) -> bool:
        t = norm(e)
        return t in ("cls", "self.__class__", "type(self)", "node.__class__", "type(node)") or t.endswith(".__class__")

    n = 0
    for modname in modnames:
        # attributes that every subclass gets afresh in __init_subclass__ are per-class by construction
        reset: set[str] = set()
        for g in ck.repo.functions([ck.repo.mod(modname)]):
            if g.qualname.endswith(".__init_subclass__"):
                for x in ast.walk(g.raw or g.node):
                    if isinstance(x, ast.Attribute) and isinstance(x.ctx, ast.Store) and norm(x.value) == "cls":
                        reset.add(x.attr)
                    elif isinstance(x, ast.Call) and dotted(x.func) == "setattr" and len(x.args) == 3 and norm(x.args[0]) == "cls" and isinstance(x.args[1], ast.Constant):
                        reset.add(str(x.args[1].value))
        mod_ = ck.repo.mod(modname)
        for fn in [x for x in ast.walk(mod_.tree) if isinstance(x, ast.FunctionDef)]:  # (as written, helpers of later origin included)
            if fn.name in ("__new__", "__init_subclass__"):
                continue  # (a singleton kept by __new__ is shared with subclasses on purpose)
            f = (mod_.rel, fn.name)
            n += 1
            aliases = {st.targets[0].id for st in ast.walk(fn) if isinstance(st, ast.Assign) and len(st.targets) == 1 and isinstance(st.targets[0], ast.Name) and class_expr(st.value)}

            def is_cls(e: ast.expr) -> bool:
                return class_expr(e) or (isinstance(e, ast.Name) and e.id in aliases)

            stores: dict[str, ast.AST] = {}
            reads: dict[str, ast.AST] = {}
            for x in ast.walk(fn):
                if isinstance(x, ast.Attribute) and is_cls(x.value) and not x.attr.startswith("__"):
                    (stores if isinstance(x.ctx, ast.Store) else reads)[x.attr] = x
                elif isinstance(x, ast.Call) and dotted(x.func) in ("setattr",) and len(x.args) == 3 and is_cls(x.args[0]) and isinstance(x.args[1], ast.Constant):
                    stores[str(x.args[1].value)] = x
                elif isinstance(x, ast.Call) and dotted(x.func) in ("getattr", "hasattr") and len(x.args) >= 2 and is_cls(x.args[0]) and isinstance(x.args[1], ast.Constant):
                    reads[str(x.args[1].value)] = x
            both = sorted((set(stores) & set(reads)) - reset)
            if both:
                ck.violation(rule, f, stores[both[0]], "per-class data is keyed by the class object (a table keyed by cls, or cls.__dict__), not found through attribute lookup",
                             positive=True, construct=f"{fn.name}: caches {both[0]} as a class attribute and reads it back with ordinary attribute lookup: a subclass finds the value "
                             "computed for its base class (attribute lookup follows the MRO) and never computes its own")
                return
    ck.holds(rule, ("src/pyoak", ", ".join(modnames)), None, "no per-class cache is kept as an inheritable class attribute", functions=n)


def r_fresh_worklist(ck: Checker, rule: str, funcs: list[Func]) -> None:
    """The containers a traversal works with are created by the call that uses them: a container taken from module-level state
    (a pool, a cache) may still hold what an abandoned earlier traversal left in it."""
    for f in funcs:
        fn = f.raw or f.node
        what = f"{f.qualname}: every container the traversal works with is created inside the call"
        globals_ = {st.targets[0].id for st in f.mod.tree.body if isinstance(st, ast.Assign) and len(st.targets) == 1 and isinstance(st.targets[0], ast.Name)} | \
            {st.target.id for st in f.mod.tree.body if isinstance(st, ast.AnnAssign) and isinstance(st.target, ast.Name)}
        bad = None
        for st in ast.walk(fn):
            if isinstance(st, ast.Assign) and len(st.targets) == 1 and isinstance(st.targets[0], ast.Name):
                for c in ast.walk(st.value):
                    if isinstance(c, ast.Call) and isinstance(c.func, ast.Attribute) and c.func.attr in ("pop", "popleft", "get", "setdefault") and isinstance(c.func.value, ast.Name) \
                            and c.func.value.id in globals_ and c.func.value.id.isupper() is not None:
                        tgt = st.targets[0].id
                        used_as_container = any(isinstance(x, ast.Call) and isinstance(x.func, ast.Attribute) and norm(x.func.value) == tgt
                                                and x.func.attr in ("append", "appendleft", "extend", "extendleft", "pop", "popleft") for x in ast.walk(fn))
                        if used_as_container:
                            bad = (st, f"{f.qualname}: the container {tgt} is taken from the module-level {c.func.value.id} ({norm(c)[:40]}): what an abandoned earlier "
                                   "traversal left in it is yielded by the next one")
        if bad:
            ck.violation(rule, f, bad[0], what, positive=True, construct=bad[1])
        else:
            ck.holds(rule, f, f.node, what)


def r_config_readonly(ck: Checker, rule: str, names: tuple[str, ...]) -> None:
    """The library reads its configuration switches, it never writes them (a switch flipped around a call stays flipped when the call raises)."""
    what = f"no library function assigns config.{'/'.join(names)}"
    for m in ck.repo.nonlegacy():
        for fn in [x for x in ast.walk(m.tree) if isinstance(x, ast.FunctionDef)]:
            for x in ast.walk(fn):
                if isinstance(x, ast.Attribute) and isinstance(x.ctx, ast.Store) and x.attr in names and norm(x.value).endswith("config"):
                    ck.violation(rule, (m.rel, fn.name), x, what, positive=True,
                                 construct=f"{fn.name}: assigns {norm(x)} (process-wide): validation is switched for every other caller, and stays switched if the call in between raises")
                    return
                if isinstance(x, ast.Call) and dotted(x.func) == "setattr" and len(x.args) == 3 and norm(x.args[0]).endswith("config") and isinstance(x.args[1], ast.Constant) \
                        and x.args[1].value in names:
                    ck.violation(rule, (m.rel, fn.name), x, what, positive=True, construct=f"{fn.name}: {norm(x)[:50]}")
                    return
    ck.holds(rule, ("src/pyoak", "*"), None, what)


def r_pruned_walk(ck: Checker, rule: str, funcs: list[tuple[str, str]], why: str) -> None:
    """A function that has to look at *every* descendant hands no `prune=` callback to dfs/bfs/gather: below a pruned node nothing is
    visited, whatever the callback tests (positive pattern; `filter=` only hides nodes from the caller and is left to the callers' own rules)."""
    for modname, qual in funcs:
        f = ck.repo.func(modname, qual)
        what = f"{qual}: the walk over the descendants is not cut short by a prune callback ({why})"
        bad = None
        for n in [x for fn in (f.raw, f.node) if fn is not None for x in ast.walk(fn)]:
            if isinstance(n, ast.Call) and isinstance(n.func, ast.Attribute) and n.func.attr in ("dfs", "bfs", "gather"):
                for k in n.keywords:
                    if k.arg == "prune" and not (isinstance(k.value, ast.Constant) and k.value.value is None):
                        bad = (n, f"{norm(n.func)}(prune={norm(k.value)[:40]})")
                if n.func.attr in ("dfs", "bfs") and n.args:
                    bad = (n, f"{norm(n.func)}({norm(n.args[0])[:40]}, ...) passes a positional prune callback")
        if bad:
            ck.violation(rule, f, bad[0], what, positive=True, construct=f"{qual}: {bad[1]} — nodes below a pruned node are never looked at")
        else:
            ck.holds(rule, f, f.node, what)


def r_visited_key(ck: Checker, rule: str, modnames: tuple[str, ...]) -> None:
    """A visited set / memo consulted for an early answer (`if K in S: return ...` with `S.add(K)` or `S[K] = ...` elsewhere in the function)
    is keyed by the argument itself.  Positive pattern: K is computed from a parameter by a call, attribute or subscript (get_origin(t),
    type(x), x.__name__ ...) — two different arguments with the same K get the answer of the first one."""
    n = 0
    for modname in modnames:
        mod_ = ck.repo.mod(modname)
        for fn in [x for x in ast.walk(mod_.tree) if isinstance(x, ast.FunctionDef)]:  # (as written, helpers of later origin included)
            f = (mod_.rel, fn.name)
            params = {a.arg for a in fn.args.args + fn.args.kwonlyargs + fn.args.posonlyargs}
            marks: list[tuple[str, ast.expr, ast.AST]] = []
            for c in ast.walk(fn):
                if isinstance(c, ast.Call) and isinstance(c.func, ast.Attribute) and c.func.attr in ("add", "append") and isinstance(c.func.value, ast.Name) and len(c.args) == 1:
                    marks.append((c.func.value.id, c.args[0], c))
                elif isinstance(c, ast.Subscript) and isinstance(c.ctx, ast.Store) and isinstance(c.value, ast.Name):
                    marks.append((c.value.id, c.slice, c))
            if not marks:
                continue
            for t in ast.walk(fn):
                if not isinstance(t, ast.If):
                    continue
                tests = [t.test] + (list(t.test.values) if isinstance(t.test, ast.BoolOp) else [])
                for cmp_ in tests:
                    if not (isinstance(cmp_, ast.Compare) and len(cmp_.ops) == 1 and isinstance(cmp_.ops[0], ast.In) and isinstance(cmp_.comparators[0], ast.Name)):
                        continue
                    sname = cmp_.comparators[0].id
                    if not any(m[0] == sname and norm(m[1]) == norm(cmp_.left) for m in marks):
                        continue
                    if not any(isinstance(x, ast.Return) for x in t.body):
                        continue
                    key: ast.expr = cmp_.left
                    if isinstance(key, ast.Name) and key.id not in params:
                        defs = [st for st in ast.walk(fn) if isinstance(st, ast.Assign) and len(st.targets) == 1 and norm(st.targets[0]) == key.id]
                        if len(defs) == 1:
                            key = defs[0].value
                    n += 1
                    what = f"{fn.name}: the visited set `{sname}` that short-cuts the answer is keyed by the argument itself"
                    derived = [x for x in ast.walk(key) if isinstance(x, (ast.Call, ast.Attribute, ast.Subscript))
                               and any(isinstance(y, ast.Name) and y.id in params for y in ast.walk(x))
                               and not (isinstance(x, ast.Call) and dotted(x.func) == "id")]
                    if derived and not (isinstance(key, ast.Call) and dotted(key.func) == "id"):
                        ck.violation(rule, f, t, what, positive=True,
                                     construct=f"{fn.name}: `{norm(cmp_)[:40]}` with key {norm(key)[:50]} — different arguments sharing that key get the first one's answer")
                    else:
                        ck.holds(rule, f, t, what, key=norm(key)[:40])
    if n == 0:
        ck.holds(rule, (modnames[0], "*"), None, f"no visited-set short cut in {', '.join(modnames)}")
