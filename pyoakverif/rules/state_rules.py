"""State that outlives a call: rules shared by the properties whose statements quantify over histories of calls.

S1  query methods write nothing on their receiver (their answer cannot depend on earlier calls)
S2a a mutable class-level default that instances fill is one object shared by all instances
S2b a per-class cache kept as a class attribute and found through ordinary attribute lookup is inherited by subclasses

All three are *positive* patterns: the verdict names a store that is there.
"""
from __future__ import annotations

import ast

from ..astutil import dotted, norm, walk_body
from ..report import Checker
from ..srcmodel import Func

MUTATORS = ("add", "append", "appendleft", "extend", "update", "pop", "popleft", "popitem", "setdefault", "clear", "remove", "discard", "insert")


def _self_writes(fn: ast.AST, recv: str = "self") -> list[tuple[ast.AST, str]]:
    out: list[tuple[ast.AST, str]] = []
    for n in ast.walk(fn):
        if isinstance(n, ast.Attribute) and isinstance(n.ctx, (ast.Store, ast.Del)) and norm(n.value) == recv:
            out.append((n, f"{recv}.{n.attr} is assigned"))
        elif isinstance(n, ast.Subscript) and isinstance(n.ctx, (ast.Store, ast.Del)) and isinstance(n.value, ast.Attribute) and norm(n.value.value) == recv:
            out.append((n, f"{recv}.{n.value.attr}[...] is assigned"))
        elif isinstance(n, ast.Call) and isinstance(n.func, ast.Attribute) and n.func.attr in MUTATORS and isinstance(n.func.value, ast.Attribute) \
                and norm(n.func.value.value) == recv:
            out.append((n, f"{recv}.{n.func.value.attr}.{n.func.attr}(...)"))
        elif isinstance(n, ast.Call) and dotted(n.func) in ("setattr", "object.__setattr__") and n.args and norm(n.args[0]) == recv:
            out.append((n, f"{dotted(n.func)}({recv}, ...)"))
    return out


def r_stateless(ck: Checker, rule: str, modname: str, cls: str, methods: tuple[str, ...] | None, why: str) -> None:
    """S1 for the named methods of a class (None: every method but __init__ / __post_init__ / __new__)."""
    n = 0
    for f in ck.repo.functions([ck.repo.mod(modname)]):
        if f.cls is None or f.cls.name != cls or f.qualname.count(".") != 1:
            continue
        m = f.qualname.split(".")[-1]
        if (methods is None and m in ("__init__", "__post_init__", "__new__", "__init_subclass__")) or (methods is not None and m not in methods):
            continue
        n += 1
        what = f"{cls}.{m} keeps nothing on the object between calls ({why})"
        ws = _self_writes(f.raw or f.node)
        if ws:
            ck.violation(rule, f, ws[0][0], what, positive=True, construct=f"{cls}.{m}: {ws[0][1]} — what the next call answers depends on what this one has seen")
        else:
            ck.holds(rule, f, f.node, what)
    if methods is not None and n < len(methods):
        ck.incomplete(rule, None, None, f"{cls}: only {n} of the methods {methods} found")


def r_shared_defaults(ck: Checker, rule: str, modname: str, classes: tuple[str, ...] | None) -> None:
    """S2a: `x: T = {}` in the class body, `self.x[...] = ...` in a method, no `self.x = ...` in __init__.
    (classes = None: every class of the module, and fills through a module-level instance `_STATE.x.update(...)` count as well.)"""
    if classes is None:
        classes = tuple(c_.name for c_ in ck.repo.mod(modname).tree.body if isinstance(c_, ast.ClassDef))  # (top-level classes)
    for cname in classes:
        c = ck.repo.cls(modname, cname)
        what = f"every {cname} instance has containers of its own (no mutable default declared at class level is filled by the instances)"
        mutable: dict[str, ast.AST] = {}
        for st in c.node.body:
            tgt = st.target if isinstance(st, ast.AnnAssign) else (st.targets[0] if isinstance(st, ast.Assign) and len(st.targets) == 1 else None)
            val = getattr(st, "value", None)
            if isinstance(tgt, ast.Name) and val is not None and (isinstance(val, (ast.Dict, ast.List, ast.Set))
                                                                   or (isinstance(val, ast.Call) and dotted(val.func) in ("dict", "list", "set", "defaultdict", "deque", "OrderedDict"))):
                if "ClassVar" in norm(getattr(st, "annotation", ast.Constant(value=""))):
                    continue
                mutable[tgt.id] = st
        bad = None
        for name, st in mutable.items():
            rebinds = False
            fills = None
            for m in c.node.body:
                if not isinstance(m, ast.FunctionDef):
                    continue
                for n in ast.walk(m):
                    if isinstance(n, ast.Attribute) and isinstance(n.ctx, ast.Store) and norm(n.value) == "self" and n.attr == name and m.name in ("__init__", "__post_init__"):
                        rebinds = True
                for w, txt in _self_writes(m):
                    if f"self.{name}[" in txt or f"self.{name}." in txt:
                        fills = (m.name, txt)
            if fills is None and not rebinds:
                # filled through an instance kept at module level: `_STATE = C()` ... `_STATE.<name>.update(...)` / `_STATE.<name>[k] = v`
                mod_tree = c.mod.tree
                insts = {st_.targets[0].id for st_ in mod_tree.body if isinstance(st_, ast.Assign) and len(st_.targets) == 1 and isinstance(st_.targets[0], ast.Name)
                         and isinstance(st_.value, ast.Call) and dotted(st_.value.func) == cname}
                for x in ast.walk(mod_tree):
                    if isinstance(x, ast.Call) and isinstance(x.func, ast.Attribute) and x.func.attr in MUTATORS and isinstance(x.func.value, ast.Attribute) \
                            and x.func.value.attr == name and isinstance(x.func.value.value, ast.Name) and x.func.value.value.id in insts:
                        fills = ("<module>", norm(x)[:50])
                    elif isinstance(x, ast.Subscript) and isinstance(x.ctx, (ast.Store, ast.Del)) and isinstance(x.value, ast.Attribute) and x.value.attr == name \
                            and isinstance(x.value.value, ast.Name) and x.value.value.id in insts:
                        fills = ("<module>", norm(x)[:50])
            if fills and not rebinds:
                bad = (st, f"{cname}.{name} is a mutable default declared at class level and {cname}.{fills[0]} fills it ({fills[1]}): all instances share the one object")
        if bad:
            ck.violation(rule, (c.mod.rel, f"class {cname}"), bad[0], what, positive=True, construct=bad[1])
        else:
            ck.holds(rule, (c.mod.rel, f"class {cname}"), c.node, what)


def r_class_attr_cache(ck: Checker, rule: str, modnames: tuple[str, ...]) -> None:
    """S2b: read of C.<name> / getattr(C, "<name>") and store C.<name> = ... / setattr(C, "<name>", ...) in one function, C a class object."""
    def class_expr(e: ast.expr) -> bool:
        t = norm(e)
        return t in ("cls", "self.__class__", "type(self)", "node.__class__", "type(node)") or t.endswith(".__class__")

    n = 0
    for modname in modnames:
        # attributes that every subclass gets afresh in __init_subclass__ are per-class by construction
        reset: set[str] = set()
        for g in ck.repo.functions([ck.repo.mod(modname)]):
            if g.qualname.endswith(".__init_subclass__"):
                for x in ast.walk(g.raw or g.node):
                    if isinstance(x, ast.Attribute) and isinstance(x.ctx, ast.Store) and norm(x.value) == "cls":
                        reset.add(x.attr)
                    elif isinstance(x, ast.Call) and dotted(x.func) == "setattr" and len(x.args) == 3 and norm(x.args[0]) == "cls" and isinstance(x.args[1], ast.Constant):
                        reset.add(str(x.args[1].value))
        mod_ = ck.repo.mod(modname)
        for fn in [x for x in ast.walk(mod_.tree) if isinstance(x, ast.FunctionDef)]:  # (as written, helpers of later origin included)
            if fn.name in ("__new__", "__init_subclass__"):
                continue  # (a singleton kept by __new__ is shared with subclasses on purpose)
            f = (mod_.rel, fn.name)
            n += 1
            aliases = {st.targets[0].id for st in ast.walk(fn) if isinstance(st, ast.Assign) and len(st.targets) == 1 and isinstance(st.targets[0], ast.Name) and class_expr(st.value)}

            def is_cls(e: ast.expr) -> bool:
                return class_expr(e) or (isinstance(e, ast.Name) and e.id in aliases)

            str_consts = {st_.targets[0].id: st_.value.value for st_ in mod_.tree.body if isinstance(st_, ast.Assign) and len(st_.targets) == 1 and isinstance(st_.targets[0], ast.Name)
                          and isinstance(st_.value, ast.Constant) and isinstance(st_.value.value, str)}

            def attr_name(e: ast.expr) -> str | None:
                if isinstance(e, ast.Constant) and isinstance(e.value, str):
                    return e.value
                if isinstance(e, ast.Name) and e.id in str_consts:
                    return str_consts[e.id]
                return None
            # (a function that receives the class as a parameter named cls / klass / clz / a parameter annotated type[...] reads and writes class attributes too)
            for a_ in fn.args.args:
                if a_.arg in ("cls", "klass", "clz", "class_") or (a_.annotation is not None and norm(a_.annotation).lower().startswith(("type[", "t.type[", "typing.type["))):
                    aliases.add(a_.arg)
            stores: dict[str, ast.AST] = {}
            reads: dict[str, ast.AST] = {}
            for x in ast.walk(fn):
                if isinstance(x, ast.Attribute) and is_cls(x.value) and not x.attr.startswith("__"):
                    (stores if isinstance(x.ctx, ast.Store) else reads)[x.attr] = x
                elif isinstance(x, ast.Call) and dotted(x.func) in ("setattr",) and len(x.args) == 3 and is_cls(x.args[0]) and attr_name(x.args[1]) is not None:
                    stores[attr_name(x.args[1])] = x  # type: ignore[index]
                elif isinstance(x, ast.Call) and dotted(x.func) in ("getattr", "hasattr") and len(x.args) >= 2 and is_cls(x.args[0]) and attr_name(x.args[1]) is not None:
                    reads[attr_name(x.args[1])] = x  # type: ignore[index]
            both = sorted((set(stores) & set(reads)) - reset)
            if both:
                ck.violation(rule, f, stores[both[0]], "per-class data is keyed by the class object (a table keyed by cls, or cls.__dict__), not found through attribute lookup",
                             positive=True, construct=f"{fn.name}: caches {both[0]} as a class attribute and reads it back with ordinary attribute lookup: a subclass finds the value "
                             "computed for its base class (attribute lookup follows the MRO) and never computes its own")
                return
    ck.holds(rule, ("src/pyoak", ", ".join(modnames)), None, "no per-class cache is kept as an inheritable class attribute", functions=n)


def r_fresh_worklist(ck: Checker, rule: str, funcs: list[Func]) -> None:
    """The containers a traversal works with are created by the call that uses them: a container taken from module-level state
    (a pool, a cache) may still hold what an abandoned earlier traversal left in it."""
    for f in funcs:
        fn = f.raw or f.node
        what = f"{f.qualname}: every container the traversal works with is created inside the call"
        globals_ = {st.targets[0].id for st in f.mod.tree.body if isinstance(st, ast.Assign) and len(st.targets) == 1 and isinstance(st.targets[0], ast.Name)} | \
            {st.target.id for st in f.mod.tree.body if isinstance(st, ast.AnnAssign) and isinstance(st.target, ast.Name)}
        bad = None
        for st in ast.walk(fn):
            if isinstance(st, ast.Assign) and len(st.targets) == 1 and isinstance(st.targets[0], ast.Name):
                for c in ast.walk(st.value):
                    if isinstance(c, ast.Call) and isinstance(c.func, ast.Attribute) and c.func.attr in ("pop", "popleft", "get", "setdefault") and isinstance(c.func.value, ast.Name) \
                            and c.func.value.id in globals_ and c.func.value.id.isupper() is not None:
                        tgt = st.targets[0].id
                        used_as_container = any(isinstance(x, ast.Call) and isinstance(x.func, ast.Attribute) and norm(x.func.value) == tgt
                                                and x.func.attr in ("append", "appendleft", "extend", "extendleft", "pop", "popleft") for x in ast.walk(fn))
                        if used_as_container:
                            bad = (st, f"{f.qualname}: the container {tgt} is taken from the module-level {c.func.value.id} ({norm(c)[:40]}): what an abandoned earlier "
                                   "traversal left in it is yielded by the next one")
        if bad:
            ck.violation(rule, f, bad[0], what, positive=True, construct=bad[1])
        else:
            ck.holds(rule, f, f.node, what)


def r_config_readonly(ck: Checker, rule: str, names: tuple[str, ...]) -> None:
    """The library reads its configuration switches, it never writes them (a switch flipped around a call stays flipped when the call raises)."""
    what = f"no library function assigns config.{'/'.join(names)}"
    for m in ck.repo.nonlegacy():
        for fn in [x for x in ast.walk(m.tree) if isinstance(x, ast.FunctionDef)]:
            for x in ast.walk(fn):
                if isinstance(x, ast.Attribute) and isinstance(x.ctx, ast.Store) and x.attr in names and norm(x.value).endswith("config"):
                    ck.violation(rule, (m.rel, fn.name), x, what, positive=True,
                                 construct=f"{fn.name}: assigns {norm(x)} (process-wide): validation is switched for every other caller, and stays switched if the call in between raises")
                    return
                if isinstance(x, ast.Call) and dotted(x.func) == "setattr" and len(x.args) == 3 and norm(x.args[0]).endswith("config") and isinstance(x.args[1], ast.Constant) \
                        and x.args[1].value in names:
                    ck.violation(rule, (m.rel, fn.name), x, what, positive=True, construct=f"{fn.name}: {norm(x)[:50]}")
                    return
    ck.holds(rule, ("src/pyoak", "*"), None, what)


def r_pruned_walk(ck: Checker, rule: str, funcs: list[tuple[str, str]], why: str) -> None:
    """A function that has to look at *every* descendant hands no `prune=` callback to dfs/bfs/gather: below a pruned node nothing is
    visited, whatever the callback tests (positive pattern; `filter=` only hides nodes from the caller and is left to the callers' own rules)."""
    for modname, qual in funcs:
        f = ck.repo.func(modname, qual)
        what = f"{qual}: the walk over the descendants is not cut short by a prune callback ({why})"
        bad = None
        for n in [x for fn in (f.raw, f.node) if fn is not None for x in ast.walk(fn)]:
            if isinstance(n, ast.Call) and isinstance(n.func, ast.Attribute) and n.func.attr in ("dfs", "bfs", "gather"):
                for k in n.keywords:
                    if k.arg == "prune" and not (isinstance(k.value, ast.Constant) and k.value.value is None):
                        bad = (n, f"{norm(n.func)}(prune={norm(k.value)[:40]})")
                if n.func.attr in ("dfs", "bfs") and n.args:
                    bad = (n, f"{norm(n.func)}({norm(n.args[0])[:40]}, ...) passes a positional prune callback")
        if bad:
            ck.violation(rule, f, bad[0], what, positive=True, construct=f"{qual}: {bad[1]} — nodes below a pruned node are never looked at")
        else:
            ck.holds(rule, f, f.node, what)


def r_visited_key(ck: Checker, rule: str, modnames: tuple[str, ...]) -> None:
    """A visited set / memo consulted for an early answer (`if K in S: return ...` with `S.add(K)` or `S[K] = ...` elsewhere in the function)
    is keyed by the argument itself.  Positive pattern: K is computed from a parameter by a call, attribute or subscript (get_origin(t),
    type(x), x.__name__ ...) — two different arguments with the same K get the answer of the first one."""
    n = 0
    for modname in modnames:
        mod_ = ck.repo.mod(modname)
        for fn in [x for x in ast.walk(mod_.tree) if isinstance(x, ast.FunctionDef)]:  # (as written, helpers of later origin included)
            f = (mod_.rel, fn.name)
            params = {a.arg for a in fn.args.args + fn.args.kwonlyargs + fn.args.posonlyargs}
            marks: list[tuple[str, ast.expr, ast.AST]] = []
            for c in ast.walk(fn):
                if isinstance(c, ast.Call) and isinstance(c.func, ast.Attribute) and c.func.attr in ("add", "append") and isinstance(c.func.value, ast.Name) and len(c.args) == 1:
                    marks.append((c.func.value.id, c.args[0], c))
                elif isinstance(c, ast.Subscript) and isinstance(c.ctx, ast.Store) and isinstance(c.value, ast.Name):
                    marks.append((c.value.id, c.slice, c))
            if not marks:
                continue
            for t in ast.walk(fn):
                if not isinstance(t, ast.If):
                    continue
                tests = [t.test] + (list(t.test.values) if isinstance(t.test, ast.BoolOp) else [])
                for cmp_ in tests:
                    if not (isinstance(cmp_, ast.Compare) and len(cmp_.ops) == 1 and isinstance(cmp_.ops[0], ast.In) and isinstance(cmp_.comparators[0], ast.Name)):
                        continue
                    sname = cmp_.comparators[0].id
                    if not any(m[0] == sname and norm(m[1]) == norm(cmp_.left) for m in marks):
                        continue
                    if not any(isinstance(x, ast.Return) for x in t.body):
                        continue
                    key: ast.expr = cmp_.left
                    if isinstance(key, ast.Name) and key.id not in params:
                        defs = [st for st in ast.walk(fn) if isinstance(st, ast.Assign) and len(st.targets) == 1 and norm(st.targets[0]) == key.id]
                        if len(defs) == 1:
                            key = defs[0].value
                    n += 1
                    what = f"{fn.name}: the visited set `{sname}` that short-cuts the answer is keyed by the argument itself"
                    derived = [x for x in ast.walk(key) if isinstance(x, (ast.Call, ast.Attribute, ast.Subscript))
                               and any(isinstance(y, ast.Name) and y.id in params for y in ast.walk(x))
                               and not (isinstance(x, ast.Call) and dotted(x.func) == "id")]
                    if derived and not (isinstance(key, ast.Call) and dotted(key.func) == "id"):
                        ck.violation(rule, f, t, what, positive=True,
                                     construct=f"{fn.name}: `{norm(cmp_)[:40]}` with key {norm(key)[:50]} — different arguments sharing that key get the first one's answer")
                    else:
                        ck.holds(rule, f, t, what, key=norm(key)[:40])
    if n == 0:
        ck.holds(rule, (modnames[0], "*"), None, f"no visited-set short cut in {', '.join(modnames)}")


# ----------------------------------------------------------------------------- S4: memo tables with a key that does not identify what is cached
_REGISTRIES = {"NODE_REGISTRY", "_nodes", "_sources", "_source_idx_to_source", "TYPES"}
_CONTAINER_CALLS = {"dict", "list", "set", "defaultdict", "collections.defaultdict", "OrderedDict", "collections.OrderedDict", "WeakKeyDictionary",
                    "weakref.WeakKeyDictionary", "WeakValueDictionary", "weakref.WeakValueDictionary", "deque", "collections.deque", "Counter", "collections.Counter"}
_CG_SKIP = {"get", "pop", "update", "append", "appendleft", "extend", "insert", "remove", "clear", "add", "discard", "sort", "reverse", "setdefault", "items",
            "keys", "values", "join", "split", "strip", "startswith", "endswith", "encode", "decode", "format", "copy", "index", "count", "popleft", "lower", "upper",
            "search", "fullmatch", "compile", "hexdigest", "debug", "info", "warning", "error", "exception", "isEnabledFor"}


def _raw_functions(mod) -> list[tuple[str, ast.FunctionDef, ast.ClassDef | None]]:
    out: list[tuple[str, ast.FunctionDef, ast.ClassDef | None]] = []

    def rec(body: list[ast.stmt], prefix: str, cls: ast.ClassDef | None) -> None:
        for st in body:
            if isinstance(st, (ast.FunctionDef, ast.AsyncFunctionDef)):
                out.append((prefix + st.name, st, cls))  # type: ignore[arg-type]
                rec(st.body, prefix + st.name + ".", cls)
            elif isinstance(st, ast.ClassDef):
                rec(st.body, prefix + st.name + ".", st)
            elif isinstance(st, (ast.If, ast.Try, ast.With)):
                for f in ("body", "orelse", "finalbody"):
                    rec(getattr(st, f, []) or [], prefix, cls)
    rec(mod.tree.body, "", None)
    return out


def _mutable_container(v: ast.expr | None) -> bool:
    return isinstance(v, (ast.Dict, ast.List, ast.Set, ast.DictComp, ast.ListComp, ast.SetComp)) or \
        (isinstance(v, ast.Call) and (dotted(v.func) or "") in _CONTAINER_CALLS)


def r_unstable_key(ck: Checker, rule: str, entries: list[tuple[str, str]], why: str) -> None:
    """A table that outlives a call (module level or class level) and is consulted on the way from the property's entry points must be
    keyed by something that identifies what is cached for as long as the entry lives.  Positive patterns for the key:
    a node id (ids are handed out again after detach / replace / garbage collection; and an id does not cover what lies deeper than the
    direct children), a class / source *name* (`__name__`, `__qualname__`, `__module__`, `fqn`: distinct objects share names), a node object
    itself in a method of a node class (nodes compare structurally: an equal twin built later hits the entry); and `isinstance(x, T)`
    against a module-level tuple that functions extend at run time (a subclass of a learned class is taken for it)."""
    legacy = any(".legacy" in m for m, _ in entries)
    mods = ck.repo.legacy() if legacy else ck.repo.nonlegacy()
    funcs: list[tuple[object, str, ast.FunctionDef, ast.ClassDef | None]] = []
    tables: set[str] = set()
    learned: set[str] = set()
    for m in mods:
        for q, fn, cls in _raw_functions(m):
            funcs.append((m, q, fn, cls))
            for g in ast.walk(fn):
                if isinstance(g, ast.Global):
                    learned |= set(g.names)
        for st in m.tree.body:
            tg = st.targets[0] if isinstance(st, ast.Assign) and len(st.targets) == 1 else (st.target if isinstance(st, ast.AnnAssign) else None)
            if isinstance(tg, ast.Name) and _mutable_container(getattr(st, "value", None)):
                tables.add(tg.id)
        for c in [x for x in ast.walk(m.tree) if isinstance(x, ast.ClassDef)]:
            for st in c.body:
                tg = st.targets[0] if isinstance(st, ast.Assign) and len(st.targets) == 1 else (st.target if isinstance(st, ast.AnnAssign) else None)
                if isinstance(tg, ast.Name) and _mutable_container(getattr(st, "value", None)):
                    tables.add(tg.id)
    tables -= _REGISTRIES
    # only tables that functions fill at run time are memos (a table written once at import time is a constant)
    filled: set[str] = set()
    for _m, _q, fn_, _c in funcs:
        for x in ast.walk(fn_):
            if isinstance(x, ast.Subscript) and isinstance(x.ctx, ast.Store):
                t_ = x.value.id if isinstance(x.value, ast.Name) else (x.value.attr if isinstance(x.value, ast.Attribute) else None)
                if t_ in tables:
                    filled.add(t_)
            elif isinstance(x, ast.Call) and isinstance(x.func, ast.Attribute) and x.func.attr in ("setdefault", "update", "add", "append", "__setitem__"):
                t_ = x.func.value.id if isinstance(x.func.value, ast.Name) else (x.func.value.attr if isinstance(x.func.value, ast.Attribute) else None)
                if t_ in tables:
                    filled.add(t_)
    tables &= filled
    by_simple: dict[str, list[int]] = {}
    for i, (_, q, fn, _c) in enumerate(funcs):
        by_simple.setdefault(fn.name, []).append(i)
    # `name = function` in a class body / module / `cls.name = function`: calling `name` is calling the function
    alias: dict[str, set[str]] = {}
    for m in mods:
        for st in ast.walk(m.tree):
            if isinstance(st, ast.Assign) and isinstance(st.value, ast.Name) and st.value.id in by_simple:
                for tg in st.targets:
                    nm = tg.id if isinstance(tg, ast.Name) else (tg.attr if isinstance(tg, ast.Attribute) else None)
                    if nm and nm != st.value.id:
                        alias.setdefault(nm, set()).add(st.value.id)
    # reachability by simple name (calls, references passed as arguments, decorators of a reached function, functions nested in it)
    reach: set[int] = set()
    work = [i for i, (m, q, fn, _c) in enumerate(funcs) if any(m.name == em and (q == eq or q.startswith(eq + ".")) for em, eq in entries)]
    if not work:
        ck.incomplete(rule, None, None, f"none of the entry points {entries[:3]} found")
        return
    while work:
        i = work.pop()
        if i in reach:
            continue
        reach.add(i)
        m, q, fn, _c = funcs[i]
        names: set[str] = set()
        for n in ast.walk(fn):
            if isinstance(n, ast.Call):
                if isinstance(n.func, ast.Name):
                    names.add(n.func.id)
                elif isinstance(n.func, ast.Attribute) and n.func.attr not in _CG_SKIP:
                    names.add(n.func.attr)
                for a in list(n.args) + [k.value for k in n.keywords]:
                    if isinstance(a, ast.Name):
                        names.add(a.id)
                    elif isinstance(a, ast.Attribute) and isinstance(a.value, ast.Name) and a.value.id in ("self", "cls"):
                        names.add(a.attr)
            elif isinstance(n, ast.Attribute) and isinstance(n.ctx, ast.Load) and isinstance(n.value, ast.Name) and n.value.id in ("self", "cls") and n.attr in by_simple:
                names.add(n.attr)  # (properties)
        for d in fn.decorator_list:
            names |= {x.id for x in ast.walk(d) if isinstance(x, ast.Name)}
        for nm in set(names) | {a_ for n_ in names for a_ in alias.get(n_, ())}:
            for j in by_simple.get(nm, []):
                if j not in reach:
                    work.append(j)
        for j, (m2, q2, _f2, _c2) in enumerate(funcs):
            if m2 is m and q2.startswith(q + ".") and j not in reach:
                work.append(j)
    n_acc = 0
    NODE_CLASSES = ("ASTNode", "AwareASTNode")
    for i in sorted(reach):
        m, q, fn, cls = funcs[i]
        where = (m.rel, q)

        def table_of(e: ast.expr) -> str | None:
            if isinstance(e, ast.Name) and e.id in tables:
                return e.id
            if isinstance(e, ast.Attribute) and e.attr in tables:
                return e.attr
            return None

        def resolve(e: ast.expr) -> ast.expr:
            for _ in range(3):
                if not isinstance(e, ast.Name):
                    break
                defs = [st.value for st in ast.walk(fn) if isinstance(st, ast.Assign) and len(st.targets) == 1 and isinstance(st.targets[0], ast.Name) and st.targets[0].id == e.id]
                defs += [st.value for st in ast.walk(fn) if isinstance(st, ast.NamedExpr) and st.target.id == e.id]
                if len(defs) != 1:
                    break
                e = defs[0]
            return e

        _resolve_local = resolve

        def resolve(e: ast.expr) -> ast.expr:  # type: ignore[no-redef]
            e = _resolve_local(e)
            # a key computed by a one-expression helper: what the helper returns is what keys the table
            if isinstance(e, ast.Call) and isinstance(e.func, ast.Name) and len(by_simple.get(e.func.id, [])) == 1:
                h = funcs[by_simple[e.func.id][0]][2]
                rets = [r for r in ast.walk(h) if isinstance(r, ast.Return) and r.value is not None]
                if len(rets) == 1:
                    return rets[0].value
            return e

        accesses: list[tuple[ast.AST, str, ast.expr]] = []
        for n in ast.walk(fn):
            if isinstance(n, ast.Subscript) and table_of(n.value):
                accesses.append((n, table_of(n.value), n.slice))  # type: ignore[arg-type]
            elif isinstance(n, ast.Call) and isinstance(n.func, ast.Attribute) and n.func.attr in ("get", "setdefault", "pop", "__contains__", "__getitem__") and table_of(n.func.value) and n.args:
                accesses.append((n, table_of(n.func.value), n.args[0]))  # type: ignore[arg-type]
            elif isinstance(n, ast.Compare) and len(n.ops) == 1 and isinstance(n.ops[0], (ast.In, ast.NotIn)) and table_of(n.comparators[0]):
                accesses.append((n, table_of(n.comparators[0]), n.left))  # type: ignore[arg-type]
            elif isinstance(n, ast.Call) and dotted(n.func) == "isinstance" and len(n.args) == 2 and isinstance(n.args[1], ast.Name) and n.args[1].id in learned:
                n_acc += 1
                ck.violation(rule, where, n, f"{q}: a class test against a table is exact for the classes that were entered ({why})", positive=True,
                             construct=f"{q}: {norm(n)[:60]} — `{n.args[1].id}` is extended at run time (global), and isinstance also accepts subclasses of what was learned from earlier calls")
        seen_t: set[tuple[str, str]] = set()
        for n, tname, key0 in accesses:
            key = resolve(key0)
            ktxt = norm(key)[:60]
            if (tname, ktxt) in seen_t:
                continue
            seen_t.add((tname, ktxt))
            n_acc += 1
            what = f"{q}: the table `{tname}` is keyed by something that identifies the cached fact for as long as the entry lives ({why})"
            attrs = {a.attr for a in ast.walk(key) if isinstance(a, ast.Attribute)}
            bad = None
            if "id" in attrs:
                bad = "a node id: ids are handed out again after detach / replace / garbage collection, and equal ids do not mean equal sub-trees below the direct children"
            elif attrs & {"__name__", "__qualname__", "__module__", "fqn"}:
                bad = f"a name ({sorted(attrs & {'__name__', '__qualname__', '__module__', 'fqn'})[0]}): distinct classes / sources may share it"
            elif isinstance(key, ast.Name) and key.id in ("self", "node") and cls is not None and (cls.name in NODE_CLASSES or any(norm(b) in NODE_CLASSES for b in cls.bases)):
                bad = "the node object: nodes hash by id and compare structurally, so an equal node built later finds the entry of one that is gone"
            if bad:
                ck.violation(rule, where, n, what, positive=True, construct=f"{q}: `{tname}` is keyed by {ktxt} — {bad}")
            else:
                ck.holds(rule, where, n, what, key=ktxt)
    if n_acc == 0:
        ck.holds(rule, (mods[0].rel, "*"), None, f"no table that outlives a call is consulted on the way from the entry points ({len(reach)} functions reached)")


_GEN_METHODS = {"dfs", "bfs", "gather", "get_child_nodes", "get_child_nodes_with_field", "iter_child_fields", "get_properties", "get_property_fields",
                "get_child_fields", "findall", "ancestors", "get_ancestors", "finditer", "items_iter"}
_GEN_BUILTINS = {"map", "filter", "zip", "iter", "enumerate", "reversed", "itertools.chain", "chain", "itertools.islice", "islice", "itertools.starmap", "starmap"}
_CONSUMERS = {"sum", "list", "tuple", "set", "frozenset", "sorted", "any", "all", "min", "max", "dict", "deque", "collections.deque", "next", "len"}


def r_iter_once(ck: Checker, rule: str, modnames: tuple[str, ...]) -> None:
    """A local bound to a one-shot iterator (a generator method of the library, map / filter / zip, a generator expression) is consumed at
    most once on any path.  Positive pattern: two consuming uses that are not in the two arms of one `if` — the second one sees what the
    first left over (nothing, if the first ran to the end: counting the matches for a log line empties the stream that is yielded from)."""
    n = 0
    for modname in modnames:
        m_ = ck.repo.mod(modname)
        for q, fn, _cls in _raw_functions(m_):
            parent = {id(c): p_ for p_ in ast.walk(fn) for c in ast.iter_child_nodes(p_)}
            defs: dict[str, list[ast.expr]] = {}
            for st in ast.walk(fn):
                if isinstance(st, ast.Assign) and len(st.targets) == 1 and isinstance(st.targets[0], ast.Name):
                    defs.setdefault(st.targets[0].id, []).append(st.value)
                elif isinstance(st, ast.AnnAssign) and isinstance(st.target, ast.Name) and st.value is not None:
                    defs.setdefault(st.target.id, []).append(st.value)
            # a parameter the signature declares as an Iterable / Iterator may be a one-shot iterator as well
            for a_ in fn.args.args + fn.args.kwonlyargs:
                if a_.annotation is not None and any(k in norm(a_.annotation) for k in ("Iterable", "Iterator", "Generator")):
                    defs[a_.arg] = [ast.Call(func=ast.Name(id="iter", ctx=ast.Load()), args=[ast.Name(id=f"<parameter {a_.arg}: {norm(a_.annotation)[:30]}>", ctx=ast.Load())], keywords=[])]
            for name, vals in defs.items():
                if len(vals) != 1:
                    continue
                v = vals[0]
                oneshot = isinstance(v, ast.GeneratorExp) or (isinstance(v, ast.Call) and ((isinstance(v.func, ast.Attribute) and v.func.attr in _GEN_METHODS)
                                                                                             or (dotted(v.func) or "") in _GEN_BUILTINS))
                if not oneshot:
                    continue
                uses: list[ast.AST] = []
                for x in ast.walk(fn):
                    if isinstance(x, (ast.For, ast.comprehension)) and isinstance(x.iter, ast.Name) and x.iter.id == name:
                        uses.append(x)
                    elif isinstance(x, ast.Call) and (dotted(x.func) or "") in _CONSUMERS and x.args and isinstance(x.args[0], ast.Name) and x.args[0].id == name \
                            and (dotted(x.func) or "") != "next":
                        uses.append(x)
                    elif isinstance(x, ast.YieldFrom) and isinstance(x.value, ast.Name) and x.value.id == name:
                        uses.append(x)
                    elif isinstance(x, ast.Starred) and isinstance(x.value, ast.Name) and x.value.id == name:
                        uses.append(x)
                if len(uses) < 2:
                    continue
                n += 1

                def arms(u: ast.AST) -> list[tuple[int, str]]:
                    out = []
                    x = u
                    while id(x) in parent:
                        up = parent[id(x)]
                        if isinstance(up, ast.If):
                            out.append((id(up), "body" if any(x is b for b in up.body) else ("orelse" if any(x is b for b in up.orelse) else "test")))
                        elif isinstance(up, ast.IfExp):
                            out.append((id(up), "body" if x is up.body else ("orelse" if x is up.orelse else "test")))
                        x = up
                    return out
                clash = None
                for i_, a in enumerate(uses):
                    for b in uses[i_ + 1:]:
                        aa, bb = dict(arms(a)), dict(arms(b))
                        exclusive = any(k in bb and {aa[k], bb[k]} == {"body", "orelse"} for k in aa)
                        # a use in an arm that always leaves (return / raise at its end) is exclusive with what follows the if
                        if not exclusive:
                            for k, arm in aa.items():
                                if k not in bb and arm in ("body", "orelse"):
                                    ifn = next(p_ for p_ in ast.walk(fn) if id(p_) == k)
                                    blk = getattr(ifn, arm, None)
                                    if isinstance(blk, list) and blk and isinstance(blk[-1], (ast.Return, ast.Raise, ast.Continue, ast.Break)):
                                        exclusive = True
                        if not exclusive:
                            clash = (a, b)
                what = f"{q}: the one-shot iterator `{name}` is consumed at most once on any path"
                if clash:
                    ck.violation(rule, (m_.rel, q), clash[1] if hasattr(clash[1], "lineno") else clash[0], what, positive=True,
                                 construct=f"{q}: `{name} = {norm(v)[:50]}` is consumed at line {getattr(clash[0], 'lineno', '?')} and again at line {getattr(clash[1], 'lineno', '?')} — the second use gets what the first left over")
                else:
                    ck.holds(rule, (m_.rel, q), uses[0], what)
    if n == 0:
        ck.holds(rule, (modnames[0], "*"), None, f"no local one-shot iterator is used twice in {', '.join(modnames)}")


def r_mutable_default(ck: Checker, rule: str, modnames: tuple[str, ...]) -> None:
    """A default argument is evaluated once, when the function is defined: a mutable container given as a default and then filled (or handed
    out) by the function is one object shared by every call that relies on the default — what a call appends is still there for the next
    one, and for a generator that is abandoned half way (positive pattern)."""
    n = 0
    for modname in modnames:
        m_ = ck.repo.mod(modname)
        for q, fn, _cls in _raw_functions(m_):
            a = fn.args
            pos = a.posonlyargs + a.args
            pairs = list(zip(pos[len(pos) - len(a.defaults):], a.defaults)) + [(p_, d_) for p_, d_ in zip(a.kwonlyargs, a.kw_defaults) if d_ is not None]
            for p_, d_ in pairs:
                if not _mutable_container(d_):
                    continue
                n += 1
                name = p_.arg
                rebound_first = bool(fn.body) and any(isinstance(st, ast.Assign) and any(isinstance(t_, ast.Name) and t_.id == name for t_ in st.targets) for st in fn.body[:2])
                used = [x for x in ast.walk(fn) if (isinstance(x, ast.Call) and isinstance(x.func, ast.Attribute) and x.func.attr in MUTATORS and isinstance(x.func.value, ast.Name) and x.func.value.id == name)
                        or (isinstance(x, ast.Subscript) and isinstance(x.ctx, (ast.Store, ast.Del)) and isinstance(x.value, ast.Name) and x.value.id == name)
                        or (isinstance(x, ast.Return) and isinstance(x.value, ast.Name) and x.value.id == name)]
                what = f"{q}: no mutable default argument is filled or handed out (every call works on containers of its own)"
                if used and not rebound_first:
                    ck.violation(rule, (m_.rel, q), used[0], what, positive=True,
                                 construct=f"{q}: parameter `{name}={norm(d_)}` is one object for all calls; {norm(used[0])[:40]} — a later call (or a second traversal alive at the same time) sees what an earlier one left in it")
                else:
                    ck.holds(rule, (m_.rel, q), fn, what)
    if n == 0:
        ck.holds(rule, (modnames[0], "*"), None, f"no function of {', '.join(modnames)} has a mutable container as a default argument")


def r_iter_stored(ck: Checker, rule: str, modnames: tuple[str, ...]) -> None:
    """A one-shot iterator (map / filter / zip / a generator expression / a generator method) kept in a table that outlives the call is
    exhausted by its first reader: the second caller iterates nothing (positive pattern: such a value stored into a module- or class-level
    table, or returned from a memoised function)."""
    n = 0
    for modname in modnames:
        m_ = ck.repo.mod(modname)
        tables = {tg.id for st in m_.tree.body for tg in ([st.targets[0]] if isinstance(st, ast.Assign) and len(st.targets) == 1 else [st.target] if isinstance(st, ast.AnnAssign) else [])
                  if isinstance(tg, ast.Name) and _mutable_container(getattr(st, "value", None))}

        def oneshot(v: ast.expr, fn: ast.AST) -> bool:
            if isinstance(v, ast.Name):
                defs = [st.value for st in ast.walk(fn) if isinstance(st, ast.Assign) and len(st.targets) == 1 and isinstance(st.targets[0], ast.Name) and st.targets[0].id == v.id]
                defs += [st.value for st in ast.walk(fn) if isinstance(st, ast.NamedExpr) and st.target.id == v.id]
                return len(defs) == 1 and oneshot(defs[0], fn)
            return isinstance(v, ast.GeneratorExp) or (isinstance(v, ast.Call) and ((dotted(v.func) or "") in _GEN_BUILTINS or (isinstance(v.func, ast.Attribute) and v.func.attr in _GEN_METHODS)))
        for q, fn, _cls in _raw_functions(m_):
            memo = any((dotted(d.func if isinstance(d, ast.Call) else d) or "").split(".")[-1] in ("lru_cache", "cache", "cached") for d in fn.decorator_list)
            for x in ast.walk(fn):
                bad = None
                if isinstance(x, ast.Assign) and any(isinstance(t_, ast.Subscript) and isinstance(t_.value, ast.Name) and t_.value.id in tables for t_ in x.targets) and oneshot(x.value, fn):
                    bad = x
                elif isinstance(x, ast.NamedExpr) and False:
                    pass
                elif isinstance(x, ast.Call) and isinstance(x.func, ast.Attribute) and x.func.attr == "setdefault" and isinstance(x.func.value, ast.Name) and x.func.value.id in tables \
                        and len(x.args) == 2 and oneshot(x.args[1], fn):
                    bad = x
                elif memo and isinstance(x, ast.Return) and x.value is not None and oneshot(x.value, fn):
                    bad = x
                if bad is not None:
                    n += 1
                    ck.violation(rule, (m_.rel, q), bad, f"{q}: what is kept beyond the call can be read any number of times", positive=True,
                                 construct=f"{q}: {norm(bad)[:70]} keeps a one-shot iterator — the first reader exhausts it, every later reader sees nothing")
    if n == 0:
        ck.holds(rule, (modnames[0], "*"), None, f"no one-shot iterator is kept in a table or memoised in {', '.join(modnames)}")


def r_returns_shared(ck: Checker, rule: str, modnames: tuple[str, ...]) -> None:
    """A function that hands out a module-level mutable container (`return _EMPTY` with `_EMPTY = {}`) hands every caller the same object:
    what one caller adds to "its" result is there for all later ones (positive pattern)."""
    n = 0
    for modname in modnames:
        m_ = ck.repo.mod(modname)
        shared = {tg.id for st in m_.tree.body for tg in ([st.targets[0]] if isinstance(st, ast.Assign) and len(st.targets) == 1 else [st.target] if isinstance(st, ast.AnnAssign) else [])
                  if isinstance(tg, ast.Name) and _mutable_container(getattr(st, "value", None))} - _REGISTRIES
        for q, fn, _cls in _raw_functions(m_):
            local = {t_.id for st in ast.walk(fn) if isinstance(st, ast.Assign) for t_ in st.targets if isinstance(t_, ast.Name)}
            for r in ast.walk(fn):
                if isinstance(r, ast.Return) and r.value is not None:
                    vals = [r.value] + ([r.value.body, r.value.orelse] if isinstance(r.value, ast.IfExp) else [])
                    for v in vals:
                        if isinstance(v, ast.Name) and v.id in shared and v.id not in local:
                            n += 1
                            ck.violation(rule, (m_.rel, q), r, f"{q}: a result handed to the caller is the caller's own object", positive=True,
                                         construct=f"{q}: returns the module-level container `{v.id}` — every caller gets the same object, and what one of them adds to it is seen by all later calls")
    if n == 0:
        ck.holds(rule, (modnames[0], "*"), None, f"no function of {', '.join(modnames)} returns a module-level mutable container")


def r_memo_keeps_alive(ck: Checker, rule: str, modnames: tuple[str, ...], why: str) -> None:
    """lru_cache / cache on a function that receives live objects (a parameter named value / node / obj / item / instance, or annotated
    with a node class) keeps a strong reference to every argument it has seen, and answers for an equal-but-distinct argument from the
    entry of the first one (positive pattern; functions of annotations / classes / texts are not concerned)."""
    LIVE = ("value", "node", "obj", "o", "item", "instance", "self", "other", "child")
    n = 0
    for modname in modnames:
        m_ = ck.repo.mod(modname)
        for q, fn, _cls in _raw_functions(m_):
            memo = [(dotted(d.func if isinstance(d, ast.Call) else d) or "") for d in fn.decorator_list]
            memo = [d for d in memo if d.split(".")[-1] in ("lru_cache", "cache", "cached")]
            if not memo:
                continue
            n += 1
            live = [a.arg for a in fn.args.args + fn.args.kwonlyargs if a.arg in LIVE or (a.annotation is not None and "ASTNode" in norm(a.annotation) and "type[" not in norm(a.annotation).lower())]
            what = f"{q}: memoised functions receive annotations, classes or texts only, never live values ({why})"
            if live:
                ck.violation(rule, (m_.rel, q), fn, what, positive=True,
                             construct=f"{q} is decorated with {memo[0]} and receives `{live[0]}`: every value it was ever called with stays referenced by the cache "
                             "(nodes dropped by the program stay alive and registered), and equal-but-distinct values share one answer")
            else:
                ck.holds(rule, (m_.rel, q), fn, what)
    if n == 0:
        ck.holds(rule, (modnames[0], "*"), None, f"no memoised function in {', '.join(modnames)}")


def r_late_binding(ck: Checker, rule: str, modnames: tuple[str, ...]) -> None:
    """A generator expression / lambda created in a loop and *stored* (append / add / insert / subscript store — not consumed on the spot)
    evaluates its delayed part when it is finally consumed; a loop variable it reads names, by then, the element of the last iteration
    (only the first iterable of a generator expression is evaluated when it is created).  Positive pattern."""
    STORE = ("append", "appendleft", "add", "insert", "put", "setdefault")
    n = 0
    for modname in modnames:
        m_ = ck.repo.mod(modname)
        for q, fn, _cls in _raw_functions(m_):
            for lp in [x for x in ast.walk(fn) if isinstance(x, (ast.For, ast.While))]:
                rebound = {t.id for x in lp.body for t in ast.walk(x) if isinstance(t, ast.Name) and isinstance(t.ctx, ast.Store)}
                if isinstance(lp, ast.For):
                    rebound |= {t.id for t in ast.walk(lp.target) if isinstance(t, ast.Name)}
                for x in [y for b in lp.body for y in ast.walk(b)]:
                    lazies: list[ast.expr] = []
                    if isinstance(x, ast.Call) and isinstance(x.func, ast.Attribute) and x.func.attr in STORE and x.args:
                        lazies = [a for a in x.args if isinstance(a, (ast.GeneratorExp, ast.Lambda))]
                    elif isinstance(x, ast.Assign) and any(isinstance(t, ast.Subscript) for t in x.targets) and isinstance(x.value, (ast.GeneratorExp, ast.Lambda)):
                        lazies = [x.value]
                    for lz in lazies:
                        if isinstance(lz, ast.GeneratorExp):
                            own = {t.id for g in lz.generators for t in ast.walk(g.target) if isinstance(t, ast.Name)}
                            delayed: list[ast.AST] = [lz.elt]
                            for i, g in enumerate(lz.generators):
                                delayed += g.ifs
                                if i:
                                    delayed.append(g.iter)
                        else:
                            own = {a.arg for a in lz.args.args + lz.args.kwonlyargs}
                            # a default argument binds early: `lambda x, f=f: ...`
                            delayed = [lz.body]
                        used = {t.id for d in delayed for t in ast.walk(d) if isinstance(t, ast.Name) and isinstance(t.ctx, ast.Load)} - own
                        hit = sorted(used & rebound)
                        n += 1
                        what = f"{q}: a lazy group stored in a loop reads no variable the loop re-binds"
                        if hit:
                            ck.violation(rule, (m_.rel, q), lz, what, positive=True,
                                         construct=f"{q}: {norm(lz)[:60]} is stored, not consumed; when it runs, `{hit[0]}` is what the last iteration left in it (late binding)")
                        else:
                            ck.holds(rule, (m_.rel, q), lz, what)
    if n == 0:
        ck.holds(rule, (modnames[0], "*"), None, f"no generator expression / lambda is stored from inside a loop in {', '.join(modnames)}")


def r_no_raw_construction(ck: Checker, rule: str, modname: str, classes: tuple[str, ...]) -> None:
    """Values of validated classes come into being through their constructors: `object.__new__(C)` + attribute stores skips
    `__post_init__`, i.e. every invariant the class checks there (positive pattern)."""
    m_ = ck.repo.mod(modname)
    n = 0
    for q, fn, _cls in _raw_functions(m_):
        for x in ast.walk(fn):
            if isinstance(x, ast.Call) and dotted(x.func) in ("object.__new__",) and x.args and (dotted(x.args[0]) or "") in classes:
                n += 1
                ck.violation(rule, (m_.rel, q), x, f"{q}: {dotted(x.args[0])} values are built by calling the class (its __post_init__ validates them)", positive=True,
                             construct=f"{q}: {norm(x)} builds the value behind the constructor's back — the checks of {dotted(x.args[0])}.__post_init__ do not run")
    if n == 0:
        ck.holds(rule, (m_.rel, "*"), None, f"no object.__new__ of {', '.join(classes)} in {modname}")


def r_who_calls(ck: Checker, rule: str, modnames: tuple[str, ...], callee: str, allowed: tuple[str, ...], why: str) -> None:
    """Who-may-call: `callee` is called only from the listed functions (positive pattern: a call site elsewhere)."""
    n = 0
    for modname in modnames:
        m_ = ck.repo.mod(modname)
        for q, fn, _cls in _raw_functions(m_):
            if q in allowed or q.split(".")[-1] == callee:
                continue
            for x in ast.walk(fn):
                if isinstance(x, ast.Call) and ((isinstance(x.func, ast.Attribute) and x.func.attr == callee) or (isinstance(x.func, ast.Name) and x.func.id == callee)):
                    n += 1
                    ck.violation(rule, (m_.rel, q), x, f"`{callee}` is called only by {', '.join(allowed) or 'the user'} ({why})", positive=True,
                                 construct=f"{q} calls {norm(x)[:50]} — {why}")
    if n == 0:
        ck.holds(rule, (modnames[0], "*"), None, f"`{callee}` has no call site in the library outside {', '.join(allowed) or 'user code'} ({why})")


def r_position_not_by_content(ck: Checker, rule: str, funcs: list[tuple[str, str]]) -> None:
    """A traversal reports *positions*: two content-equal sub-trees are two positions with their own descendants (and their own origins).
    Bookkeeping keyed by `content_id` (or by the node, which compares by content) — a memo of expansions, a visited set — makes the second
    occurrence share what belongs to the first (positive pattern: `.content_id` as a subscript / get / membership key inside a traversal)."""
    for modname, qual in funcs:
        f = ck.repo.func(modname, qual)
        bad = None
        for fn in [x for x in (f.raw, f.node) if x is not None]:
            for x in ast.walk(fn):
                key = None
                if isinstance(x, ast.Subscript):
                    key = x.slice
                elif isinstance(x, ast.Call) and isinstance(x.func, ast.Attribute) and x.func.attr in ("get", "setdefault", "add", "pop") and x.args:
                    key = x.args[0]
                elif isinstance(x, ast.Compare) and len(x.ops) == 1 and isinstance(x.ops[0], (ast.In, ast.NotIn)):
                    key = x.left
                if key is not None and any(isinstance(a, ast.Attribute) and a.attr == "content_id" for a in ast.walk(key)):
                    bad = x
        what = f"{qual}: no bookkeeping of the traversal is keyed by content (equal sub-trees at two positions are expanded and reported separately)"
        if bad is not None:
            ck.violation(rule, f, bad, what, positive=True, construct=f"{qual}: {norm(bad)[:60]} — keyed by content_id: below a repeated sub-tree the descendants (and origins) of its first occurrence are reported")
        else:
            ck.holds(rule, f, f.node, what)


def r_flag_pairing(ck: Checker, rule: str, modnames: tuple[str, ...]) -> None:
    """A switch that lives at module or class level and is set for the duration of an operation (`X.flag = True; work(); X.flag = False`,
    `global M; M = obj; work(); M = None`) must be reset on every exit: `work()` can raise.  Positive pattern: between the set and the
    reset of the same target there is a call, and the reset is not in a `finally` (nor repeated in a handler that covers the calls)."""
    n = 0
    for modname in modnames:
        m_ = ck.repo.mod(modname)
        for q, fn, _cls in _raw_functions(m_):
            globs = {nm for g in ast.walk(fn) if isinstance(g, ast.Global) for nm in g.names}

            def target_key(t: ast.expr) -> str | None:
                if isinstance(t, ast.Name) and t.id in globs:
                    return t.id
                if isinstance(t, ast.Attribute) and isinstance(t.value, ast.Name) and (t.value.id == "cls" or t.value.id[:1].isupper()) and not t.attr.startswith("__"):
                    return norm(t)
                return None
            for blk in [b for x in ast.walk(fn) for b in ([getattr(x, f_) for f_ in ("body", "orelse") if isinstance(getattr(x, f_, None), list)])]:
                for i, st in enumerate(blk):
                    if not (isinstance(st, ast.Assign) and len(st.targets) == 1 and target_key(st.targets[0])):
                        continue
                    key = target_key(st.targets[0])
                    resets = [j for j in range(i + 1, len(blk)) if isinstance(blk[j], ast.Assign) and len(blk[j].targets) == 1 and target_key(blk[j].targets[0]) == key]
                    if not resets:
                        continue
                    between = blk[i + 1:resets[0]]
                    calls = [c for b_ in between for c in ast.walk(b_) if isinstance(c, ast.Call)]
                    if not calls:
                        continue
                    n += 1
                    what = f"{q}: `{key}` is reset on every exit of the region it is set for (try/finally)"
                    ck.violation(rule, (m_.rel, q), blk[resets[0]], what, positive=True,
                                 construct=f"{q}: `{norm(st)[:40]}` … {norm(calls[0])[:40]} … `{norm(blk[resets[0]])[:40]}` in one block: when the call raises, `{key}` keeps its value for every later operation")
    if n == 0:
        ck.holds(rule, (modnames[0], "*"), None, f"no module- / class-level switch is set and reset around calls without try/finally in {', '.join(modnames)}")


def r_cached_closure(ck: Checker, rule: str, modnames: tuple[str, ...]) -> None:
    """A function object created inside a call closes over that call's arguments.  Kept in a table that outlives the call and handed to later
    calls, it still uses the *first* call's arguments for everything that is not part of the table key (positive pattern: a nested def /
    lambda stored in a module-level table while it reads a parameter of the enclosing function that the key does not mention)."""
    n = 0
    for modname in modnames:
        m_ = ck.repo.mod(modname)
        tables = {tg.id for st in m_.tree.body for tg in ([st.targets[0]] if isinstance(st, ast.Assign) and len(st.targets) == 1 else [st.target] if isinstance(st, ast.AnnAssign) else [])
                  if isinstance(tg, ast.Name) and _mutable_container(getattr(st, "value", None))}
        for q, fn, _cls in _raw_functions(m_):
            params = {a.arg for a in fn.args.args + fn.args.kwonlyargs}
            nested = {x.name: x for x in ast.walk(fn) if isinstance(x, ast.FunctionDef) and x is not fn}
            for st in ast.walk(fn):
                if not (isinstance(st, ast.Assign) and len(st.targets) == 1 and isinstance(st.targets[0], ast.Subscript) and isinstance(st.targets[0].value, ast.Name)
                        and st.targets[0].value.id in tables):
                    continue
                v = st.value
                bodies = [nested[v.id]] if isinstance(v, ast.Name) and v.id in nested else ([v] if isinstance(v, ast.Lambda) else [])
                if not bodies:
                    continue
                n += 1
                key = st.targets[0].slice
                if isinstance(key, ast.Name):
                    defs = [d.value for d in ast.walk(fn) if isinstance(d, ast.Assign) and len(d.targets) == 1 and isinstance(d.targets[0], ast.Name) and d.targets[0].id == key.id]
                    key = defs[0] if len(defs) == 1 else key
                in_key = {x.id for x in ast.walk(key) if isinstance(x, ast.Name)}
                # every nested def of that name (the two arms of an if define the same name twice)
                all_bodies = [x for x in ast.walk(fn) if isinstance(x, ast.FunctionDef) and x is not fn and isinstance(v, ast.Name) and x.name == v.id] or bodies
                captured = sorted({x.id for b in all_bodies for x in ast.walk(b) if isinstance(x, ast.Name) and isinstance(x.ctx, ast.Load) and x.id in params} - in_key)
                what = f"{q}: a function kept in `{st.targets[0].value.id}` depends only on what the key of its entry names"
                if captured:
                    ck.violation(rule, (m_.rel, q), st, what, positive=True,
                                 construct=f"{q}: the closure stored under {norm(key)[:40]} reads `{captured[0]}` of the call that created it — later calls with the same key but another `{captured[0]}` get the first one's")
                else:
                    ck.holds(rule, (m_.rel, q), st, what)
    if n == 0:
        ck.holds(rule, (modnames[0], "*"), None, f"no closure is kept in a module-level table in {', '.join(modnames)}")


def r_memo_of_live_view(ck: Checker, rule: str, modnames: tuple[str, ...]) -> None:
    """What `cls.__subclasses__()` or the TYPES registry answer changes whenever a class is defined.  A value computed from them and kept
    in a table that outlives the call is a snapshot: classes defined later are missing from it for good (positive pattern: a function
    that both stores into a module-level table and reads `__subclasses__()` / TYPES)."""
    n = 0
    for modname in modnames:
        m_ = ck.repo.mod(modname)
        tables = {tg.id for st in m_.tree.body for tg in ([st.targets[0]] if isinstance(st, ast.Assign) and len(st.targets) == 1 else [st.target] if isinstance(st, ast.AnnAssign) else [])
                  if isinstance(tg, ast.Name) and _mutable_container(getattr(st, "value", None))} - _REGISTRIES
        for q, fn, _cls in _raw_functions(m_):
            stores = [x for x in ast.walk(fn) if isinstance(x, ast.Subscript) and isinstance(x.ctx, ast.Store) and isinstance(x.value, ast.Name) and x.value.id in tables]
            stores += [x for x in ast.walk(fn) if isinstance(x, ast.Call) and isinstance(x.func, ast.Attribute) and x.func.attr in ("setdefault", "update") and isinstance(x.func.value, ast.Name)
                       and x.func.value.id in tables]
            if not stores:
                continue
            live = [x for x in ast.walk(fn) if (isinstance(x, ast.Call) and isinstance(x.func, ast.Attribute) and x.func.attr == "__subclasses__")
                    or (isinstance(x, ast.Name) and x.id == "TYPES" and isinstance(x.ctx, ast.Load))]
            n += 1
            what = f"{q}: what is kept in a table does not depend on the set of classes defined so far"
            if live:
                ck.violation(rule, (m_.rel, q), stores[0], what, positive=True,
                             construct=f"{q}: {norm(stores[0])[:40]} keeps a value computed from {norm(live[0])[:40]} — a class defined after the entry was made is never seen by it")
            else:
                ck.holds(rule, (m_.rel, q), stores[0], what)
    if n == 0:
        ck.holds(rule, (modnames[0], "*"), None, f"no function of {', '.join(modnames)} fills a module-level table")


def r_groupby_on_nodes(ck: Checker, rule: str, modnames: tuple[str, ...]) -> None:
    """itertools.groupby starts a new group when the key *compares unequal* to the previous one.  Nodes compare structurally, so two
    adjacent keys that are different node objects with equal content and origins fall into one group (positive pattern: groupby keyed by a
    node-valued attribute — parent / node — of traversal records)."""
    n = 0
    for modname in modnames:
        m_ = ck.repo.mod(modname)
        for q, fn, _cls in _raw_functions(m_):
            for x in ast.walk(fn):
                if isinstance(x, ast.Call) and (dotted(x.func) or "").split(".")[-1] == "groupby":
                    key = next((k.value for k in x.keywords if k.arg == "key"), x.args[1] if len(x.args) > 1 else None)
                    n += 1
                    nodey = key is not None and any((isinstance(y, ast.Constant) and y.value in ("parent", "node")) or (isinstance(y, ast.Attribute) and y.attr in ("parent", "node"))
                                                    for y in ast.walk(key))
                    what = f"{q}: consecutive records are grouped by identity of the node they belong to, not by equality"
                    if nodey or key is None:
                        ck.violation(rule, (m_.rel, q), x, what, positive=True,
                                     construct=f"{q}: {norm(x)[:60]} groups by a node compared with == — adjacent twin parents (equal content, equal origins) are merged into one group")
                    else:
                        ck.holds(rule, (m_.rel, q), x, what)
    if n == 0:
        ck.holds(rule, (modnames[0], "*"), None, f"no itertools.groupby in {', '.join(modnames)}")


def r_callback_truthiness(ck: Checker, rule: str, funcs: list[tuple[str, str]], callbacks: tuple[str, ...] = ("filter", "prune", "extra_filter")) -> None:
    """The filter / prune callbacks are predicates: their result is used by its truth value (None, 0, '' reject).  Positive pattern: the
    result of a callback call compared with `is False` / `is not False` / `is True` / `== True`."""
    for modname, qual in funcs:
        f = ck.repo.func(modname, qual)
        bad = None
        for fn in [x for x in (f.raw, f.node) if x is not None]:
            for x in ast.walk(fn):
                if isinstance(x, ast.Compare) and len(x.ops) == 1 and isinstance(x.comparators[0], ast.Constant) and isinstance(x.comparators[0].value, bool) \
                        and isinstance(x.left, ast.Call) and isinstance(x.left.func, ast.Name) and x.left.func.id in callbacks:
                    bad = x
        what = f"{qual}: what a filter / prune callback returns is used by its truth value"
        if bad is not None:
            ck.violation(rule, f, bad, what, positive=True, construct=f"{qual}: {norm(bad)[:50]} — a falsy result that is not the object False (None, 0, '') is no longer a rejection")
        else:
            ck.holds(rule, f, f.node, what)


def r_class_keyed_memo(ck: Checker, rule: str, modnames: tuple[str, ...], why: str) -> None:
    """A memo kept per class (a table whose key is made of `type(x)` / `x.__class__` components, or an attribute stored on `type(x)`)
    answers for every instance of the class.  Positive pattern: the memoised computation consults the instance itself — a plain
    attribute of `x` that is not part of the key (`visitor.strict`), or a method of `x` that reads the instance's field values by a
    computed name (`getattr(self, field.name)`): the first instance that comes by decides for all later ones."""
    n = 0
    for modname in modnames:
        m_ = ck.repo.mod(modname)
        classvars = {st.target.id for c_ in ast.walk(m_.tree) if isinstance(c_, ast.ClassDef) for st in c_.body
                     if isinstance(st, ast.AnnAssign) and isinstance(st.target, ast.Name) and "ClassVar" in norm(st.annotation)}
        module_names = {t.id for st in m_.tree.body if isinstance(st, (ast.Assign, ast.AnnAssign))
                        for t in (st.targets if isinstance(st, ast.Assign) else [st.target]) if isinstance(t, ast.Name)}
        for q, fn, cls in _raw_functions(m_):
            n += 1
            once: dict[str, ast.expr] = {}
            counts: dict[str, int] = {}
            for st in ast.walk(fn):
                if isinstance(st, ast.Assign) and len(st.targets) == 1 and isinstance(st.targets[0], ast.Name):
                    counts[st.targets[0].id] = counts.get(st.targets[0].id, 0) + 1
                    once[st.targets[0].id] = st.value
            once = {k: v for k, v in once.items() if counts[k] == 1}

            def resolve(e: ast.expr) -> ast.expr:
                seen = 0
                while isinstance(e, ast.Name) and e.id in once and seen < 4:
                    e = once[e.id]
                    seen += 1
                return e

            def class_of(e: ast.expr) -> str | None:
                e = resolve(e)
                if isinstance(e, ast.Attribute) and e.attr == "__class__" and isinstance(e.value, ast.Name):
                    return e.value.id
                if isinstance(e, ast.Call) and dotted(e.func) == "type" and len(e.args) == 1 and isinstance(e.args[0], ast.Name):
                    return e.args[0].id
                return None

            # (store statement, objects whose class is the key, texts that are part of the key)
            memos: list[tuple[ast.stmt, set[str], set[str]]] = []
            for st in ast.walk(fn):
                if not isinstance(st, ast.Assign) or len(st.targets) != 1:
                    continue
                tg = st.targets[0]
                if isinstance(tg, ast.Subscript) and isinstance(tg.value, ast.Name) and tg.value.id in module_names:
                    key = resolve(tg.slice)
                    comps = list(key.elts) if isinstance(key, ast.Tuple) else [key]
                    objs = {o for o in (class_of(c_) for c_ in comps) if o is not None}
                    if objs:
                        memos.append((st, objs, {norm(resolve(c_)) for c_ in comps}))
                elif isinstance(tg, ast.Attribute) and class_of(tg.value) is not None and not tg.attr.startswith("__"):
                    memos.append((st, {class_of(tg.value)}, set()))  # type: ignore[arg-type]
            for st, objs, keyparts in memos:
                # the statement of the function body that holds the store: the miss branch
                top = next((b for b in fn.body if any(x is st for x in ast.walk(b))), st)
                called = {id(x.func) for x in ast.walk(top) if isinstance(x, ast.Call)}
                hit: tuple[ast.AST, str] | None = None
                for x in ast.walk(top):
                    if isinstance(x, ast.Attribute) and isinstance(x.ctx, ast.Load) and isinstance(x.value, ast.Name) and x.value.id in objs \
                            and not x.attr.startswith("__") and id(x) not in called and x.attr not in classvars and norm(x) not in keyparts:
                        hit = (x, f"reads {norm(x)}, which is not part of the key")
                    elif isinstance(x, ast.Call) and isinstance(x.func, ast.Attribute) and isinstance(x.func.value, ast.Name) and x.func.value.id in objs and cls is not None:
                        meth = next((b for b in cls.body if isinstance(b, ast.FunctionDef) and b.name == x.func.attr and b.args.args), None)
                        if meth is not None:
                            recv = meth.args.args[0].arg
                            for y in ast.walk(meth):
                                if isinstance(y, ast.Call) and dotted(y.func) == "getattr" and len(y.args) >= 2 and norm(y.args[0]) == recv and not isinstance(y.args[1], ast.Constant):
                                    hit = (x, f"calls {norm(x.func)}, which reads the instance's own field values ({norm(y)[:40]})")
                what = f"{q}: what is remembered per class is computed from the class alone ({why})"
                if hit is not None:
                    ck.violation(rule, (m_.rel, q), hit[0], what, positive=True,
                                 construct=f"{q}: the memo stored by `{norm(st)[:60]}` is kept per class of {sorted(objs)} but its computation {hit[1]} — the first instance decides for every later instance of the class")
                else:
                    ck.holds(rule, (m_.rel, q), st, what)
    if n == 0:
        ck.incomplete(rule, None, None, f"no function found in {modnames}")
    else:
        ck.holds(rule, ("src/pyoak", ", ".join(modnames)), None, "no per-class memo is computed from one instance", functions=n)


def r_index_presence(ck: Checker, rule: str, funcs: list[tuple[str, str]], sources: tuple[str, ...], why: str) -> None:
    """Positions and registry indexes start at 0: whether one is present is asked with `is None`, never by its truth value.  Positive
    pattern: an expression whose text matches one of `sources` (or a name bound to one) used as a truth value (`x or ...`, `if x`,
    `not x`, `x and ...`)."""
    import re
    pats = [re.compile(s) for s in sources]

    def is_src(e: ast.expr) -> bool:
        t = norm(e)
        return any(p.fullmatch(t) for p in pats)

    for modname, qual in funcs:
        f = ck.repo.func(modname, qual)
        bad = None
        for fn in [x for x in (f.raw, f.node) if x is not None]:
            names = {st.targets[0].id for st in ast.walk(fn) if isinstance(st, ast.Assign) and len(st.targets) == 1 and isinstance(st.targets[0], ast.Name) and is_src(st.value)}
            names |= {x.target.id for x in ast.walk(fn) if isinstance(x, ast.NamedExpr) and is_src(x.value)}

            def idx(e: ast.expr) -> bool:
                return is_src(e) or (isinstance(e, ast.Name) and e.id in names) or (isinstance(e, ast.NamedExpr) and is_src(e.value))
            for x in ast.walk(fn):
                tests: list[ast.expr] = []
                if isinstance(x, (ast.If, ast.While, ast.IfExp, ast.Assert)):
                    tests.append(x.test)
                elif isinstance(x, ast.BoolOp):
                    tests.extend(x.values[:-1] if isinstance(x.op, ast.Or) else x.values)
                elif isinstance(x, ast.UnaryOp) and isinstance(x.op, ast.Not):
                    tests.append(x.operand)
                elif isinstance(x, ast.comprehension):
                    tests.extend(x.ifs)
                for t_ in tests:
                    if idx(t_):
                        bad = t_
        what = f"{qual}: whether an index is present is asked with `is None` ({why})"
        if bad is not None:
            ck.violation(rule, f, bad, what, positive=True, construct=f"{qual}: `{norm(bad)[:50]}` is used by its truth value — index 0 counts as absent")
        else:
            ck.holds(rule, f, f.node, what)


def r_position_presence(ck: Checker, rule: str, modname: str, why: str) -> None:
    """A child's position in a sequence field starts at 0; `None` says "not in a sequence".  Whether a position is present is therefore
    asked with `is None`.  Positive pattern, over every function of the module (helpers added later included): a parameter / local /
    attribute whose name says it is an index (`index`, `*_index`, `parent_index`) and that is not a bool is used by its truth value
    (`if index:`, `index and ...`, `index or ...`, `not index`) — the first element of a sequence is treated as a single child."""
    import re
    m_ = ck.repo.mod(modname)
    pat = re.compile(r"(?:[A-Za-z_][\w\.]*\.)?_?(?:[a-z_]*_)?index")
    n = 0
    hits = []
    for q, fn, _cls in _raw_functions(m_):
        n += 1
        rendered = {id(v.value) for v in ast.walk(fn) if isinstance(v, ast.FormattedValue)}
        for x in ast.walk(fn):
            tests: list[ast.expr] = []
            if isinstance(x, (ast.If, ast.While)):
                tests.append(x.test)  # statement-level tests only: `index or '0'`-style defaulting inside expressions renders 0 and None alike and is harmless
            elif isinstance(x, ast.BoolOp):
                if isinstance(x.op, ast.Or) and len(x.values) == 2 and isinstance(x.values[1], ast.Constant) and (
                        (x.values[1].value == 0 and not isinstance(x.values[1].value, bool)) or (x.values[1].value == "0" and id(x) in rendered)):
                    continue  # `index or 0`, and `{index or '0'}` inside an f-string: position 0 and the fallback give the same result
                pass
            for t_ in tests:
                if isinstance(t_, ast.NamedExpr):
                    t_ = t_.target
                if isinstance(t_, (ast.Name, ast.Attribute)) and pat.fullmatch(norm(t_)):
                    hits.append((q, t_))
    what = f"{modname}: whether a position is present is asked with `is None` ({why})"
    if hits:
        q, t_ = hits[0]
        ck.violation(rule, (m_.rel, q), t_, what, positive=True,
                     construct=f"{q}: `{norm(t_)[:40]}` is used by its truth value — position 0 of a sequence field counts as \"not in a sequence\"")
    elif n == 0:
        ck.incomplete(rule, None, None, f"no function found in {modname}")
    else:
        ck.holds(rule, None, None, what, functions=n)
