"""C10 — No operation ever modifies an existing node (effect / ownership analysis)."""
from __future__ import annotations

import ast

from ..astutil import decorators, dotted, kw, norm, root_name, walk_body
from ..effects import local_bindings, params, scan_mutations, scan_writes
from ..report import Checker
from ..srcmodel import Func

NODE_TYPE_NAMES = {"ASTNode", "ASTNodeType", "_AT"}
TRAVERSALS = {"dfs", "bfs", "gather", "get_child_nodes", "get_child_nodes_with_field", "get_ancestors", "findall",
              "iter_child_fields", "children"}
# Locals that hold an object constructed on the same path (not yet visible to anyone else).
# (module, function, local) -> reason
FRESH_LOCALS: dict[tuple[str, str, str], str] = {}
FRESH_ROLE = {("pyoak.node", "ASTNode._deserialize"): "re-created by super()._deserialize on this path; the id is forced before the object is returned"}


def is_fresh_local(f, name: str) -> str | None:
    if (f.mod.name, f.qualname, name) in FRESH_LOCALS:
        return FRESH_LOCALS[(f.mod.name, f.qualname, name)]
    if (f.mod.name, f.qualname) == ("pyoak.codegen", "_gen_func"):
        # the function object just created by exec: bound once to a call of an entry of the namespace handed to exec(); not a node
        ns = {norm(c.args[2]) for c in ast.walk(f.node) if isinstance(c, ast.Call) and dotted(c.func) == "exec" and len(c.args) == 3}
        binds = local_bindings(f.node, name)
        if len(binds) == 1 and isinstance(binds[0], ast.Assign) and isinstance(binds[0].value, ast.Call) \
                and isinstance(binds[0].value.func, ast.Subscript) and norm(binds[0].value.func.value) in ns:
            return "function object just created by exec; not a node"
    if (f.mod.name, f.qualname) in FRESH_ROLE:
        from ..dcmodel import fresh_object_local
        if fresh_object_local(f.node) == name:
            return FRESH_ROLE[(f.mod.name, f.qualname)]
    return None


def node_classes(ck: Checker) -> set[str]:
    mods = ck.repo.nonlegacy()
    return {"ASTNode"} | {c.name for c in ck.repo.subclasses_of("ASTNode", mods)}


def ann_is_node(ann: ast.expr | None, ncls: set[str]) -> bool:
    if ann is None:
        return False
    txt = norm(ann)
    if txt.startswith(("type[", "Type[", "t.Type[", "typing.Type[")):
        return False
    names = {n.id for n in ast.walk(ann) if isinstance(n, ast.Name)} | {
        n.value for n in ast.walk(ann) if isinstance(n, ast.Constant) and isinstance(n.value, str)}
    return bool(names & (ncls | NODE_TYPE_NAMES | {"NodeTraversalInfo", "_NodeTraversalInfo"}))


def ann_is_class(ann: ast.expr | None) -> bool:
    return ann is not None and norm(ann).startswith(("type[", "Type[", "t.Type[", "typing.Type["))


def node_evidence(e: ast.expr, f: Func, ncls: set[str], depth: int = 0) -> str | None:
    """A reason why ``e`` denotes a pre-existing node object, or None."""
    if depth > 4:
        return None
    if isinstance(e, ast.Name):
        if e.id == "self":
            if f.cls is not None and f.cls.name in ncls and _is_method_of_class(f):
                return f"self of node class {f.cls.name}"
            return None
        ps = params(f.node)
        if e.id in ps:
            return f"parameter {e.id}: {norm(ps[e.id])}" if ann_is_node(ps[e.id], ncls) else None
        for b in local_bindings(f.node, e.id):
            if isinstance(b, (ast.For, ast.AsyncFor)) and isinstance(b.iter, ast.Call):
                nm = b.iter.func.attr if isinstance(b.iter.func, ast.Attribute) else dotted(b.iter.func)
                if nm in ("get_child_nodes_with_field", "iter_child_fields") and isinstance(b.target, ast.Tuple) and b.target.elts \
                        and not (isinstance(b.target.elts[0], ast.Name) and b.target.elts[0].id == e.id):
                    continue  # (child, field, index): only the first component is a node
                if nm in TRAVERSALS or nm in ("reversed", "list", "enumerate", "zip"):
                    return f"loop variable over {norm(b.iter)[:50]}"
            if isinstance(b, ast.Assign):
                v = b.value
                if "NODE_REGISTRY" in norm(v):
                    return f"taken from the registry: {norm(v)[:50]}"
                if isinstance(v, ast.Call) and isinstance(v.func, ast.Attribute) and v.func.attr in ("get", "get_any", "visit", "transform", "find", "pop", "popleft"):
                    r = node_evidence(v.func.value, f, ncls, depth + 1)
                    if r or v.func.attr in ("get_any", "find") or (v.func.attr in ("visit", "transform") and norm(v.func.value) in ("self", "visitor")):
                        return f"result of {norm(v)[:50]}"
                if isinstance(v, (ast.Attribute, ast.Subscript, ast.Name)):
                    r = node_evidence(v, f, ncls, depth + 1)
                    if r:
                        return r
                if isinstance(v, ast.IfExp):
                    for alt in (v.body, v.orelse):
                        r = node_evidence(alt, f, ncls, depth + 1)
                        if r:
                            return r
        return None
    if isinstance(e, ast.Attribute):
        if e.attr in ("node", "parent", "root", "_root", "child"):
            return f"attribute .{e.attr}"
        return node_evidence(e.value, f, ncls, depth + 1) and f"field of a node: {norm(e)}"
    if isinstance(e, ast.Subscript):
        return node_evidence(e.value, f, ncls, depth + 1)
    if isinstance(e, ast.Call):
        if isinstance(e.func, ast.Attribute) and (e.func.attr in ("get_any", "find", "duplicate") or (
                e.func.attr in ("visit", "transform") and norm(e.func.value) in ("self", "visitor"))):
            return f"result of {norm(e)[:50]}"
        if isinstance(e.func, ast.Attribute) and e.func.attr == "get" and norm(e.func.value) == "NODE_REGISTRY":
            return f"taken from the registry: {norm(e)[:50]}"
    return None


def _is_method_of_class(f: Func) -> bool:
    return f.cls is not None and f.qualname.split(".")[-2:-1] == [f.cls.name]


def r_frozen(ck: Checker, ncls: set[str]) -> None:
    mods = ck.repo.nonlegacy()
    found = 0
    for name in sorted(ncls):
        for c in ck.repo.classes().get(name, []):
            if c.mod not in mods:
                continue
            found += 1
            decs = decorators(c.node)
            dc = [d for d in decs if d[0] in ("dataclass", "dataclasses.dataclass")]
            what = f"node class {name} is a frozen dataclass"
            frozen = False
            for _, call in dc:
                if call is not None:
                    v = kw(call, "frozen")
                    frozen = frozen or (isinstance(v, ast.Constant) and v.value is True)
            if frozen:
                ck.holds("R-FROZEN", (c.mod.rel, f"class {name}"), c.node, what)
            else:
                ck.violation("R-FROZEN", (c.mod.rel, f"class {name}"), c.node, what,
                             construct=f"class {name}: decorators {[norm(x) for x in c.node.decorator_list]}")
            for st in c.node.body:
                if isinstance(st, ast.FunctionDef) and st.name in ("__setattr__", "__delattr__"):
                    ck.violation("R-FROZEN", (c.mod.rel, f"{name}.{st.name}"), st,
                                 "node classes do not override __setattr__/__delattr__",
                                 construct=f"{name} defines {st.name}")
                if isinstance(st, ast.Assign) and any(dotted(t) in ("__setattr__", "__delattr__") for t in st.targets):
                    ck.violation("R-FROZEN", (c.mod.rel, f"class {name}"), st,
                                 "node classes do not override __setattr__/__delattr__",
                                 construct=f"{name} assigns {norm(st)[:50]}")
    ck.require_count("R-FROZEN", 2)


def r_bypass(ck: Checker, ncls: set[str]) -> None:
    mods = ck.repo.nonlegacy()
    class_names = set(ck.repo.classes())
    what = "every attribute write targets an object under construction, a class object or a non-node object"
    n_bypass = 0
    for w in scan_writes(ck.repo, mods):
        f = w.func
        rn = root_name(w.receiver)
        if w.kind in ("object.__setattr__", "object.__delattr__", "setattr", "delattr", "dunder-setattr", "dict-store"):
            n_bypass += 1
        cat = None
        if isinstance(w.receiver, ast.Name):
            nm = w.receiver.id
            ps = params(f.node)
            if nm == "self" and _is_method_of_class(f):
                if f.cls.name in ncls:
                    if f.qualname.split(".")[-1] == "__post_init__":
                        cat = "self under construction (__post_init__)"
                    else:
                        ck.violation("R-BYPASS-WRITE", f, w.node, what,
                                     construct=f"{w.kind} on self.{w.attr} outside __post_init__ in node class {f.cls.name}",
                                     receiver=w.recv)
                        continue
                else:
                    cat = f"self of non-node class {f.cls.name}"
            elif nm in ("cls", "clz") or nm in class_names or (nm in ps and ann_is_class(ps[nm])):
                cat = "class object"
            elif is_fresh_local(f, nm):
                binds = local_bindings(f.node, nm)
                if len(binds) == 1 and isinstance(binds[0], ast.Assign) and isinstance(binds[0].value, ast.Call) \
                        and "NODE_REGISTRY" not in norm(binds[0].value):
                    cat = "fresh local: " + is_fresh_local(f, nm)
                else:
                    ck.violation("R-BYPASS-WRITE", f, w.node, what,
                                 construct=f"{w.kind} on {nm}.{w.attr}: local is not bound exactly once to a constructing call",
                                 receiver=w.recv)
                    continue
        elif isinstance(w.receiver, ast.Attribute) and w.receiver.attr == "__class__":
            cat = "class object"
        elif isinstance(w.receiver, ast.Call) and dotted(w.receiver.func) == "type":
            cat = "class object"
        if cat is not None:
            ck.holds("R-BYPASS-WRITE", f, w.node, what, kind=w.kind, receiver=w.recv, attr=w.attr, category=cat)
            continue
        if field_name_write(w):
            ck.violation("R-BYPASS-WRITE", f, w.node, what, positive=True, construct=f"{w.kind}({w.recv}, {norm(w.node.args[1])}, ...) assigns dataclass fields by computed name to an object that "
                         "was constructed before (the frozen node is changed after its ids were computed)", receiver=w.recv)
            continue
        ev = node_evidence(w.receiver, f, ncls)
        if ev:
            ck.violation("R-BYPASS-WRITE", f, w.node, what,
                         construct=f"{w.kind} on {w.recv}.{w.attr}: receiver is an existing node ({ev})", receiver=w.recv)
        else:
            ck.incomplete("R-BYPASS-WRITE", f, w.node, f"cannot classify receiver {w.recv} of {w.kind}")
    ck.require_count("R-BYPASS-WRITE", 40)
    if n_bypass < 12:
        ck.incomplete("R-BYPASS-WRITE", None, None, f"only {n_bypass} frozen-bypass calls found (17 confirmed by hand; at least 12 required)")


def r_inplace(ck: Checker, ncls: set[str]) -> None:
    mods = ck.repo.nonlegacy()
    what = "in-place container mutation is never applied to a value reached through a node attribute"
    n = 0
    for m in scan_mutations(ck.repo, mods):
        n += 1
        f = m.func
        bad = None
        sub = m.target  # the container is reached through the value chain; subscript keys do not lead to it
        while isinstance(sub, (ast.Attribute, ast.Subscript, ast.Call)):
            if isinstance(sub, ast.Attribute) and isinstance(sub.ctx, ast.Load):
                ev = node_evidence(sub.value, f, ncls)
                if ev and not sub.attr.startswith("__"):
                    bad = (sub, ev)
                    break
            sub = sub.func if isinstance(sub, ast.Call) else sub.value
        if bad:
            ck.violation("R-INPLACE", f, m.node, what,
                         construct=f"{m.method} on {norm(m.target)[:60]} ({bad[1]})")
    if n < 45:
        ck.incomplete("R-INPLACE", None, None, f"only {n} mutation sites scanned (>= 45 expected)")
    else:
        ck.holds("R-INPLACE", ("src/pyoak", "*"), None, what, evaluations=n, mutation_sites=n)


def r_reg_callers(ck: Checker, ncls: set[str]) -> None:
    """Registry membership of existing nodes changes only through detach / detach_self / replace called by the *user*: no other
    library operation (traversal, visiting, transforming, matching, serialization) calls them on the nodes it is given."""
    mods = ck.repo.nonlegacy()
    what = "no library operation other than detach / detach_self / replace themselves removes the nodes it works on from the registry"
    owners = {"ASTNode.detach", "ASTNode.detach_self", "ASTNode.replace"}
    n = 0
    for f in ck.repo.functions(mods):
        if f.qualname in owners:
            continue
        for c in ast.walk(f.node):
            if not (isinstance(c, ast.Call) and isinstance(c.func, ast.Attribute) and c.func.attr in ("detach", "detach_self", "replace")):
                continue
            recv = c.func.value
            ev = node_evidence(recv, f, ncls)
            if c.func.attr == "replace" and not ev:
                continue  # str.replace and the like
            n += 1
            ck.violation("R-REG-CALLERS", f, c, what, positive=True, construct=f"{f.qualname} calls {norm(c)[:60]} ({ev or 'registry operation'})")
    if not n:
        ck.holds("R-REG-CALLERS", ("src/pyoak", "*"), None, what)


WITNESS_FAIL = """from dataclasses import dataclass
from pyoak.node import ASTNode


@dataclass(frozen=True)
class W(ASTNode):
    x: int = 1


w = W()
w.x = 2
w.id = "a"
del w.x
"""
WITNESS_PASS = """from dataclasses import dataclass
from pyoak.node import ASTNode


@dataclass(frozen=True)
class W(ASTNode):
    x: int = 1


w = W()
print(w.x, w.id, w.content_id, w.origin)
"""


def r_frozen_witness(ck: Checker) -> None:
    """Compile-fail witness: a program that assigns to a node field must not type-check; its reading twin must."""
    from ..typed import witness

    res = witness(ck.repo, {"witness_fail": WITNESS_FAIL, "witness_pass": WITNESS_PASS})
    c = ck.repo.cls("pyoak.node", "ASTNode")
    fail = [l for l in res["witness_fail"] if "error:" in l]
    ro = [l for l in fail if "read-only" in l]
    what = "compile-fail witness: assigning to `x` and `id` of a frozen ASTNode subclass is rejected by the type checker as read-only"
    if len(ro) >= 2:
        ck.holds("R-FROZEN", (c.mod.rel, "class ASTNode"), c.node, what, mypy=ro[:3])
    else:
        ck.violation("R-FROZEN", (c.mod.rel, "class ASTNode"), c.node, what, construct="witness program that mutates a node type-checks", mypy=res["witness_fail"][:5])
    what = "passing twin: the same program that only reads the fields type-checks"
    perr = [l for l in res["witness_pass"] if "error:" in l]
    if not perr:
        ck.holds("R-FROZEN", (c.mod.rel, "class ASTNode"), c.node, what)
    else:
        ck.incomplete("R-FROZEN", (c.mod.rel, "class ASTNode"), c.node, f"the passing twin does not type-check: {perr[:2]}")


def r_bypass_typed(ck: Checker, ncls: set[str]) -> None:
    """Typed cross-check of the receiver classification (mypy-inferred receiver types)."""
    from ..typed import typed_repo

    tr = typed_repo(ck.repo)
    mods = ck.repo.nonlegacy()
    n = 0
    node_types = {f"pyoak.node.{c}" for c in ncls} | {f"pyoak.match.xpath.{c}" for c in ncls}
    for w in scan_writes(ck.repo, mods):
        f = w.func
        r = w.receiver
        ts = tr.type_at(f.mod.name, getattr(r, "lineno", 0), getattr(r, "col_offset", -1), type(r).__name__)
        if not ts:
            continue
        n += 1
        is_node = any(t.split("[")[0].rstrip("?") in node_types or t.startswith(("ASTNodeType`", "_AT`")) for t in ts)
        is_cls = any(t.startswith(("type[", "def (")) or "Type[" in t for t in ts)
        what = "typed cross-check: no attribute write has a receiver whose inferred type is a node instance, except objects under construction"
        allowed = (isinstance(r, ast.Name) and r.id == "self" and f.qualname.split(".")[-1] == "__post_init__") or \
            (isinstance(r, ast.Name) and is_fresh_local(f, r.id) is not None)
        if is_node and not is_cls and not allowed:
            ck.violation("R-BYPASS-WRITE", f, w.node, what, construct=f"{w.kind} on {w.recv}.{w.attr}: receiver has inferred type {ts[0]}")
        else:
            ck.holds("R-BYPASS-TYPED", f, w.node, what, receiver=w.recv, inferred=ts[0])
    if n < 30:
        ck.incomplete("R-BYPASS-TYPED", None, None, f"only {n} write receivers carry an inferred type (>= 30 expected)")


def field_name_write(w) -> bool:
    """object.__setattr__(x, f.name, v) / setattr(x, f.name, v): the attribute name is read from a dataclass Field object."""
    n = w.node
    return w.kind in ("object.__setattr__", "setattr") and w.attr is None and isinstance(n, ast.Call) and len(n.args) >= 2 \
        and isinstance(n.args[1], ast.Attribute) and n.args[1].attr == "name" and not (isinstance(w.receiver, ast.Name) and w.receiver.id in ("cls", "clz"))


def r_field_writes(ck: Checker, rule: str) -> None:
    """No field of a node is assigned after construction (its digest would not describe it any more): shared with C01."""
    from ..effects import scan_writes
    mods = [ck.repo.mod("pyoak.node"), ck.repo.mod("pyoak.visitor"), ck.repo.mod("pyoak.serialize")]
    what = "no dataclass field of a node is assigned through the frozen bypass after the node was constructed (content_id describes the values the node holds)"
    hits = [w for w in scan_writes(ck.repo, mods) if field_name_write(w) and not (norm(w.receiver) == "self" and w.func.qualname.endswith(".__post_init__"))]
    if hits:
        w = hits[0]
        ck.violation(rule, w.func, w.node, what, positive=True, construct=f"{w.func.qualname}: {norm(w.node)[:70]} stores field values on {w.recv} after its content_id was computed")
    else:
        ck.holds(rule, (ck.repo.mod("pyoak.node").rel, "*"), None, what)


def r_operand_alias_mutation(ck: Checker, rule: str = "R-INPLACE", modnames: tuple[str, ...] = ("pyoak.origin",)) -> None:
    """Origins are values held by nodes.  A function that binds a local to a container *inside* one of its operands (`acc = o.origins`, no copy)
    and then edits that local in place edits the operand — the origin of every node that holds it (positive pattern)."""
    EDITS = ("append", "extend", "insert", "remove", "pop", "clear", "sort", "reverse", "update", "add", "discard", "setdefault", "__iadd__")
    from .state_rules import _raw_functions
    n = 0
    for modname in modnames:
        m_ = ck.repo.mod(modname)
        for q, fn, _cls in _raw_functions(m_):
            params = {a.arg for a in fn.args.args + fn.args.kwonlyargs + fn.args.posonlyargs} | ({fn.args.vararg.arg} if fn.args.vararg else set())
            operands = set(params)
            for lp in ast.walk(fn):  # elements of an operand sequence are operands
                if isinstance(lp, (ast.For, ast.comprehension)) and any(isinstance(x, ast.Name) and x.id in params for x in ast.walk(lp.iter)):
                    operands |= {x.id for x in ast.walk(lp.target) if isinstance(x, ast.Name)}
            aliases: dict[str, ast.AST] = {}
            for st in ast.walk(fn):
                if isinstance(st, ast.Assign) and len(st.targets) == 1 and isinstance(st.targets[0], ast.Name):
                    v = st.value
                    root = v
                    while isinstance(root, ast.Attribute):
                        root = root.value
                    if isinstance(v, ast.Attribute) and isinstance(root, ast.Name) and root.id in operands and root.id not in ("self", "cls"):
                        aliases[st.targets[0].id] = st
            if not aliases:
                continue
            n += 1
            bad = None
            for x in ast.walk(fn):
                if isinstance(x, ast.Call) and isinstance(x.func, ast.Attribute) and x.func.attr in EDITS and isinstance(x.func.value, ast.Name) and x.func.value.id in aliases:
                    bad = (x, x.func.value.id)
                elif isinstance(x, ast.AugAssign) and isinstance(x.target, ast.Name) and x.target.id in aliases:
                    bad = (x, x.target.id)
                elif isinstance(x, ast.Subscript) and isinstance(x.ctx, (ast.Store, ast.Del)) and isinstance(x.value, ast.Name) and x.value.id in aliases:
                    bad = (x, x.value.id)
            what = f"{q}: a container taken from an operand is copied before it is extended (operands are values held by live nodes)"
            if bad:
                ck.violation(rule, (m_.rel, q), bad[0], what, positive=True,
                             construct=f"{q}: `{norm(aliases[bad[1]])[:50]}` binds `{bad[1]}` to the operand's own container and `{norm(bad[0])[:40]}` edits it in place — the origin of every node holding that operand changes")
            else:
                ck.holds(rule, (m_.rel, q), fn, what)
    if n == 0:
        ck.holds(rule, (modnames[0], "*"), None, "no function binds a local to a container inside one of its operands")


def r_field_value_alias_edit(ck: Checker, rule: str = "R-INPLACE", modnames: tuple[str, ...] = ("pyoak.visitor", "pyoak.node", "pyoak.tree")) -> None:
    """A local bound to the value of a node's field (`x = getattr(node, name)` / `x = node.attr`, node a parameter or loop element) *is* the
    container the node holds.  Editing it in place (subscript store / del, append, insert, pop, sort ...) edits the input node, unless the
    local is unconditionally re-bound to a copy in the same block before any edit (positive pattern: the re-binding to a copy is missing
    or conditional)."""
    EDITS = ("append", "extend", "insert", "remove", "pop", "clear", "sort", "reverse", "update", "add", "discard", "setdefault")
    from .state_rules import _raw_functions
    n = 0
    for modname in modnames:
        m_ = ck.repo.mod(modname)
        for q, fn, _cls in _raw_functions(m_):
            params = {a.arg for a in fn.args.args + fn.args.kwonlyargs} - {"cls"}
            nodes = set(params)
            for lp in ast.walk(fn):
                if isinstance(lp, (ast.For, ast.comprehension)):
                    nodes |= {t.id for t in ast.walk(lp.target) if isinstance(t, ast.Name)}

            def field_value(e: ast.expr) -> bool:
                if isinstance(e, ast.Call) and dotted(e.func) == "getattr" and len(e.args) >= 2 and isinstance(e.args[0], ast.Name) and e.args[0].id in nodes:
                    return True
                return False
            blocks = [b for x in ast.walk(fn) for b in ([getattr(x, f_) for f_ in ("body", "orelse", "finalbody") if isinstance(getattr(x, f_, None), list)])]
            for blk in blocks:
                for i, st in enumerate(blk):
                    if not (isinstance(st, ast.Assign) and len(st.targets) == 1 and isinstance(st.targets[0], ast.Name) and field_value(st.value)):
                        continue
                    name = st.targets[0].id
                    n += 1
                    # unconditional re-binding to something else in the rest of this block, before any edit
                    safe_from = None
                    for j, later in enumerate(blk[i + 1:], i + 1):
                        if isinstance(later, ast.Assign) and any(isinstance(t, ast.Name) and t.id == name for t in later.targets):
                            safe_from = later.lineno
                            break
                    edits = [x for x in ast.walk(fn) if ((isinstance(x, ast.Subscript) and isinstance(x.ctx, (ast.Store, ast.Del)) and isinstance(x.value, ast.Name) and x.value.id == name)
                                                        or (isinstance(x, ast.Call) and isinstance(x.func, ast.Attribute) and x.func.attr in EDITS and isinstance(x.func.value, ast.Name) and x.func.value.id == name))
                             and x.lineno > st.lineno and (safe_from is None or x.lineno < safe_from)]
                    what = f"{q}: a container read from a node's field is copied before it is edited"
                    if edits:
                        ck.violation(rule, (m_.rel, q), edits[0], what, positive=True,
                                     construct=f"{q}: `{norm(st)[:50]}` is the container the node holds and {norm(edits[0])[:40]} edits it in place (no unconditional copy in between) — the input node's field changes")
                    else:
                        ck.holds(rule, (m_.rel, q), st, what)
    if n == 0:
        ck.holds(rule, (modnames[0], "*"), None, "no local is bound to a container read from a node's field and then edited in place")


def r_payload_inplace(ck: Checker) -> None:
    """The mapping handed to __post_serialize__ is new, but what sits inside it may be the node's own values (mashumaro passes the
    values of untyped fields through).  A function that edits its argument in place *and* descends into the argument's elements edits
    those values."""
    mods = [ck.repo.mod("pyoak.serialize"), ck.repo.mod("pyoak.node"), ck.repo.mod("pyoak.origin")]
    what = "serialization edits only the top-level mapping it was given, never the values nested inside it (they may be the node's own objects)"
    EDITS = ("pop", "popitem", "clear", "update", "setdefault", "remove", "append", "extend", "insert", "sort", "reverse", "__delitem__", "__setitem__")
    n = 0
    allfns = [(m_, fn_) for m_ in mods for fn_ in ast.walk(m_.tree) if isinstance(fn_, ast.FunctionDef)]  # (helpers of later origin included, as written)
    for m_, fn in allfns:
        f = (m_.rel, fn.name)
        ps = {a.arg for a in fn.args.args + fn.args.kwonlyargs} - {"self", "cls"}
        if not ps:
            continue
        n += 1
        for p_ in sorted(ps):
            edits = [c for c in ast.walk(fn) if (isinstance(c, ast.Call) and isinstance(c.func, ast.Attribute) and c.func.attr in EDITS and norm(c.func.value) == p_)
                     or (isinstance(c, ast.Subscript) and isinstance(c.ctx, (ast.Store, ast.Del)) and norm(c.value) == p_)]
            if not edits:
                continue
            # elements of p_: loop / comprehension variables over p_, p_.values(), p_.items()
            elems: set[str] = set()
            for lp in ast.walk(fn):
                if isinstance(lp, (ast.For, ast.comprehension)) and norm(lp.iter) in (p_, f"{p_}.values()", f"{p_}.items()", f"list({p_})", f"list({p_}.values())"):
                    elems |= {x.id for x in ast.walk(lp.target) if isinstance(x, ast.Name)}
            own = fn.name
            rec = [c for c in ast.walk(fn) if isinstance(c, ast.Call) and (dotted(c.func) or "").split(".")[-1] == own
                   and any(isinstance(x, ast.Name) and x.id in elems for a_ in c.args for x in ast.walk(a_))]
            if rec:
                ck.violation("R-INPLACE", f, edits[0], what, positive=True, construct=f"{fn.name}: edits its argument {p_} in place ({norm(edits[0])[:40]}) and calls itself on the elements of {p_}: "
                             "nested values of the payload (the node's own dict / list values of untyped fields) are changed by serializing")
                return
    ck.holds("R-INPLACE", (ck.repo.mod("pyoak.serialize").rel, "*"), None, what, functions=n)


def run(ck: Checker) -> None:
    ck.explanation = (
        "Effect/ownership analysis over all non-legacy modules: every node class is a frozen dataclass without "
        "__setattr__ overrides; every frozen-bypass write (object.__setattr__, setattr, __dict__) and every plain "
        "attribute store is classified by receiver (object under construction, class object, non-node object, audited fresh "
        "local) and a write whose receiver is an existing node is a violation; in-place container mutation never goes "
        "through a node attribute; generated accessors contain no store (C12's template analysis); the registry entry of an existing node is "
        "removed only by the identity-guarded unregister helper and never overwritten (ownership, identity guard, key freshness, deserialization typestate: shared with C03/C04)."
    )
    ck.rule_text = "one obligation per write / mutation site; distinct = distinct (rule, site)"
    ck.assumptions += ["dataclasses: frozen=True makes __setattr__/__delattr__ raise",
                       "mutation through user-defined property objects is out of scope (README leaves it to the user)"]
    ncls = node_classes(ck)
    ck.guard("R-FROZEN", lambda: r_frozen(ck, ncls))
    ck.guard("R-BYPASS-WRITE", lambda: r_bypass(ck, ncls))
    ck.guard("R-INPLACE", lambda: r_inplace(ck, ncls))
    ck.guard("R-INPLACE", lambda: r_payload_inplace(ck))
    from . import templates_rules
    ck.guard("R-GEN-PURE", lambda: templates_rules.r_gen_pure(ck))
    # registry membership of an existing node changes only as specified for detach / replace
    from .c03 import r_reg_fresh, r_reg_ident, r_reg_own
    from .c04 import r_deser_id
    ck.guard("R-REG-CALLERS", lambda: r_reg_callers(ck, ncls))
    ck.guard("R-REG-OWN", lambda: r_reg_own(ck))
    ck.guard("R-REG-IDENT", lambda: r_reg_ident(ck))
    ck.guard("R-REG-FRESH", lambda: r_reg_fresh(ck))
    ck.guard("R-DESER-ID", lambda: r_deser_id(ck))
    from .c03 import r_reg_pair, r_reg_who
    ck.guard("R-REG-OWN", lambda: r_reg_who(ck))  # construction does not change the registry membership of nodes that existed before
    ck.guard("R-INPLACE", lambda: r_operand_alias_mutation(ck))
    ck.guard("R-INPLACE", lambda: r_field_value_alias_edit(ck))
    ck.guard("R-REG-PAIR", lambda: r_reg_pair(ck))  # a failed replace leaves the receiver registered
    if ck.tier == "thorough":
        ck.explanation += (" Thorough tier: mypy (the repository's own dev dependency, used as a library) infers the type of every write receiver "
                           "as a cross-check of the classification, and a compile-fail witness (a program assigning to node fields must be rejected "
                           "as read-only, its reading twin must type-check) confirms the frozen declaration as the type checker sees it.")
        ck.guard("R-FROZEN", lambda: r_frozen_witness(ck))
        ck.guard("R-BYPASS-TYPED", lambda: r_bypass_typed(ck, ncls))
