"""Rules over the digest input of ASTNode.__post_init__ (C01, C03/R-ID-DET)."""
from __future__ import annotations

import ast
from typing import Any

from ..astutil import dotted, is_const, norm
from ..digest import Dyn, Lit, Loop, Sink, contributions, describe
from ..report import Checker
from ..srcmodel import Func, Unsupported

CLASS_IDENT = {"self.__class__.__name__", "type(self).__name__", "self.__class__.__qualname__", "type(self).__qualname__"}
NONDET = ("time", "random", "uuid", "os.", "id(", "hash(", "getpid", "counter", "secrets", "NODE_REGISTRY", "now(")


def _call_flags(call: ast.Call, sig: ast.FunctionDef) -> dict[str, Any]:
    """Effective boolean flags of a call, resolved against the callee's signature."""
    a = sig.args
    pos = [p.arg for p in a.posonlyargs + a.args][1:]  # drop self
    defaults = {}
    allp = (a.posonlyargs + a.args)
    for p, d in zip(allp[len(allp) - len(a.defaults):], a.defaults):
        defaults[p.arg] = d
    for p, d in zip(a.kwonlyargs, a.kw_defaults):
        if d is not None:
            defaults[p.arg] = d
    eff: dict[str, Any] = {}
    for k, d in defaults.items():
        eff[k] = d.value if isinstance(d, ast.Constant) else norm(d)
    for i, v in enumerate(call.args):
        if i >= len(pos):
            raise Unsupported("too many positional arguments", call)
        eff[pos[i]] = v.value if isinstance(v, ast.Constant) else norm(v)
    for k in call.keywords:
        if k.arg is None:
            raise Unsupported("**kwargs in accessor call", call)
        eff[k.arg] = k.value.value if isinstance(k.value, ast.Constant) else norm(k.value)
    return eff


def _iter_call(lp: Loop) -> tuple[str, ast.Call, str | None]:
    """(method name, call, wrapper) of a loop's iteration source; wrapper is sorted/set/... if wrapped."""
    e = lp.iter
    wrapper = None
    while isinstance(e, ast.Call) and dotted(e.func) in ("sorted", "set", "frozenset", "reversed", "list", "tuple", "enumerate") and e.args:
        if dotted(e.func) in ("sorted", "set", "frozenset"):
            wrapper = dotted(e.func)
        e = e.args[0]
    if isinstance(e, ast.Call) and isinstance(e.func, ast.Attribute) and norm(e.func.value) == "self":
        return e.func.attr, e, wrapper
    raise Unsupported(f"digest loop iterates {norm(lp.iter)[:60]}", lp.node)


def _dyns(segs: list) -> list[Dyn]:
    return [s for s in segs if isinstance(s, Dyn)]


def _mentions(d: Dyn, var: str) -> bool:
    return any(isinstance(n, ast.Name) and n.id == var for n in ast.walk(d.expr))


def _whole(d: Dyn, forms: set[str]) -> bool:
    """The dynamic part renders one of ``forms`` completely (no slice, no format spec, no lossy wrapper)."""
    return d.spec is None and d.src in forms


def check_sink(ck: Checker, f: Func, sink: Sink, kind: str, rule: str) -> None:
    segs = sink.segs
    tops = [s for s in segs if not isinstance(s, Loop)]
    loops = [s for s in segs if isinstance(s, Loop)]
    label = f"{sink.attr} digest input"
    facts = {"contribution_list": describe(segs)}

    def viol(what: str, construct: str, node: ast.AST | None = None, **kw: Any) -> None:
        ck.violation(rule, f, node or sink.node, what, construct=f"{label}: {construct}", **kw)

    # --- class identity
    what = f"{label} contains the class identity, whole"
    cls = [d for d in _dyns(tops) if _whole(d, CLASS_IDENT) and d.conv in ("", "s")]
    if cls:
        ck.holds(rule, f, sink.node, what, source=cls[0].src, **facts)
    else:
        near = [d.src for d in _dyns(tops) if "__class__" in d.src or "type(self)" in d.src]
        viol(what, "class identity missing" + (f" (only {near})" if near else ""))

    # --- hash function
    what = f"{label} is hashed as a whole with a cryptographic digest of the configured size"
    algo_ok = sink.algo in ("hashlib.blake2b", "hashlib.blake2s", "hashlib.sha256", "hashlib.sha512", "hashlib.sha3_256")
    if algo_ok:
        ck.holds(rule, f, sink.call, what, algo=sink.algo)
    else:
        viol(what, f"hashed with {sink.algo}", sink.call)

    # --- the text is turned into bytes injectively
    what = f"{label} is encoded without an error handler that maps different texts to the same bytes"
    lossy = None
    for c in ast.walk(sink.node if sink.node is not None else sink.call):
        if isinstance(c, ast.Call) and isinstance(c.func, ast.Attribute) and c.func.attr == "encode":
            handler = c.args[1] if len(c.args) > 1 else next((k.value for k in c.keywords if k.arg == "errors"), None)
            if handler is not None:
                if isinstance(handler, ast.Constant) and handler.value in ("strict", "surrogatepass"):
                    continue
                if isinstance(handler, ast.Constant) and handler.value in ("ignore", "replace", "backslashreplace", "xmlcharrefreplace", "namereplace"):
                    lossy = f"encode(errors={handler.value!r}): a character that cannot be encoded and its replacement text hash to the same bytes"
                else:
                    raise Unsupported(f"{label}: encode error handler {norm(handler)[:40]}", c)
    if lossy:
        viol(what, lossy, sink.call, positive=True)
    else:
        ck.holds(rule, f, sink.call, what)

    # --- loops
    props = [lp for lp in loops if _iter_call(lp)[0] == "get_properties"]
    kids = [lp for lp in loops if _iter_call(lp)[0] in ("get_child_nodes_with_field", "get_child_nodes", "iter_child_fields", "children")]
    other = [lp for lp in loops if lp not in props and lp not in kids]
    if other:
        raise Unsupported(f"{label}: loop over {norm(other[0].iter)[:60]}", other[0].node)

    what = f"{label} iterates the comparable properties (id, content_id, origin and non-comparable fields excluded), sorted by name"
    if len(props) != 1:
        viol(what, f"{len(props)} property loops")
    else:
        lp = props[0]
        if lp.filters:
            raise Unsupported(f"{label}: a property is skipped when `{lp.filters[0]}`", lp.node)
        meth, call, wrapper = _iter_call(lp)
        sig = ck.repo.func("pyoak.node", "ASTNode.get_properties").node
        eff = _call_flags(call, sig)
        need = {"skip_id": True, "skip_origin": True, "skip_content_id": True, "skip_non_compare": True, "skip_non_init": False}
        wrong = {k: eff.get(k) for k, v in need.items() if eff.get(k) is not v}
        if wrapper == "sorted":
            raise Unsupported(f"{label}: property stream re-sorted by hand", lp.node)
        if wrapper in ("set", "frozenset"):
            viol(what, "property stream collected into an unordered set", lp.node)
        elif wrong:
            viol(what, f"get_properties called with {wrong}", lp.node, effective_flags=eff)
        elif eff.get("sort_keys") is not True:
            viol(what, "properties not enumerated with sort_keys=True (declaration order would influence the digest)", lp.node)
        else:
            ck.holds(rule, f, lp.node, what, effective_flags=eff)
        tg = lp.targets
        if not (isinstance(tg, ast.Tuple) and len(tg.elts) == 2 and all(isinstance(x, ast.Name) for x in tg.elts)):
            raise Unsupported("property loop target", lp.node)
        val, fld = tg.elts[0].id, tg.elts[1].id  # type: ignore[union-attr]
        body = _dyns(lp.body)
        _require(ck, f, rule, label, lp, body, fld, {f"{fld}.name"}, ("", "s"), "the whole field name of each property")
        _require(ck, f, rule, label, lp, body, val, {f"type({val})", f"{val}.__class__"}, ("", "s", "r"),
                 "a type tag of each property value", exclude={f"{val}"})
        _require(ck, f, rule, label, lp, body, val, {val}, ("s", "r"), "the whole rendered value of each property",
                 exclude={f"type({val})", f"{val}.__class__", f"type({val}).__name__", f"type({val}).__qualname__", f"{val}.__class__.__name__"})

    what = f"{label} iterates the child nodes with field and index, sorted by field name"
    if len(kids) != 1:
        viol(what, f"{len(kids)} child loops")
    else:
        lp = kids[0]
        meth, call, wrapper = _iter_call(lp)
        if lp.filters:
            viol(f"{label} receives every child (each position of each child field, whatever the field's flags)",
                 f"a child is left out of the digest when `{lp.filters[0]}` (children always count: only properties may be non-comparable)", lp.node, positive=True)
        if meth != "get_child_nodes_with_field":
            viol(what, f"children enumerated with {meth} (no field / index)", lp.node)
        elif wrapper in ("set", "frozenset"):
            viol(what, "child stream collected into an unordered set", lp.node)
        elif wrapper == "sorted":
            raise Unsupported(f"{label}: child stream re-sorted by hand", lp.node)
        else:
            sig = ck.repo.func("pyoak.node", "ASTNode.get_child_nodes_with_field").node
            eff = _call_flags(call, sig)
            if eff.get("sort_keys") is not True:
                viol(what, "children not enumerated with sort_keys=True (declaration order would influence the digest)", lp.node)
            else:
                ck.holds(rule, f, lp.node, what, effective_flags=eff)
            tg = lp.targets
            if not (isinstance(tg, ast.Tuple) and len(tg.elts) == 3 and all(isinstance(x, ast.Name) for x in tg.elts)):
                raise Unsupported("child loop target", lp.node)
            c, fld, idx = (x.id for x in tg.elts)  # type: ignore[union-attr]
            body = _dyns(lp.body)
            _require(ck, f, rule, label, lp, body, fld, {f"{fld}.name"}, ("", "s"), "the whole field name of each child")
            # index: i, or the enumerated injective idiom `i or <negative constant>`
            idx_ok = None
            for d in body:
                if not _mentions(d, idx):
                    continue
                if d.spec is None and d.conv in ("", "s") and d.src == idx:
                    idx_ok = d
                elif d.spec is None and isinstance(d.expr, ast.BoolOp) and isinstance(d.expr.op, ast.Or) and len(d.expr.values) == 2 \
                        and norm(d.expr.values[0]) == idx and isinstance(d.expr.values[1], ast.UnaryOp) and isinstance(d.expr.values[1].op, ast.USub) \
                        and isinstance(d.expr.values[1].operand, ast.Constant) and isinstance(d.expr.values[1].operand.value, int) \
                        and d.expr.values[1].operand.value > 0:
                    idx_ok = d
            what_i = f"{label} contains the position of each child (index; `i or -K` maps 0/None to a non-index)"
            if idx_ok is not None:
                ck.holds(rule, f, lp.node, what_i, source=idx_ok.src)
            else:
                lossy = [d.src for d in body if _mentions(d, idx)]
                viol(what_i, "child index missing" if not lossy else f"child index rendered lossily: {lossy}", lp.node)
            _require(ck, f, rule, label, lp, body, c, {f"{c}.content_id"}, ("", "s"), "the content_id of each child")
            if kind == "id":
                _require(ck, f, rule, label, lp, body, c, {f"{c}.origin.fqn"}, ("", "s"), "the origin fqn of each child")

    if kind == "id":
        what = f"{label} contains the node's origin fqn"
        o = [d for d in _dyns(tops) if _whole(d, {"self.origin.fqn"})]
        if o:
            ck.holds(rule, f, sink.node, what)
        else:
            viol(what, "origin fqn missing")

    # --- forbidden sources
    all_dyn: list[Dyn] = _dyns(tops) + [d for lp in loops for d in _dyns(lp.body)]
    if kind == "content":
        what = f"{label} depends on nothing derived from origins, ids, the registry, time or randomness"
        bad = [d.src for d in all_dyn if ("origin" in d.src or d.src.endswith(".id") or ".id." in d.src or any(t in d.src for t in NONDET))]
    else:
        what = f"{label} is deterministic: no counter, time, randomness, id() or hash()"
        bad = [d.src for d in all_dyn if any(t in d.src for t in NONDET)]
    if bad:
        viol(what, f"forbidden source {bad}")
    else:
        ck.holds(rule, f, sink.node, what, dynamic_parts=[d.src for d in all_dyn])


def _require(ck: Checker, f: Func, rule: str, label: str, lp: Loop, body: list[Dyn], var: str, forms: set[str],
             convs: tuple[str, ...], desc: str, exclude: set[str] | None = None) -> None:
    what = f"{label} contains {desc}"
    good = [d for d in body if d.spec is None and d.src in forms and d.conv in convs]
    if good:
        ck.holds(rule, f, lp.node, what, source=good[0].src + ("!" + good[0].conv if good[0].conv else ""))
        return
    near = [d for d in body if _mentions(d, var) and d.src not in (exclude or set())]
    if near:
        shown = [d.src + ("!" + d.conv if d.conv else "") + (":" + d.spec if d.spec else "") for d in near]
        ck.violation(rule, f, lp.node, what, construct=f"{label}: {desc} rendered lossily / partially: {shown}")
    else:
        ck.violation(rule, f, lp.node, what, construct=f"{label}: {desc} missing")


def check_encoding(ck: Checker, f: Func, sink: Sink) -> None:
    """R-DIGEST-ENC / R-DIGEST-CANON on the content digest."""
    loops = [s for s in sink.segs if isinstance(s, Loop)]
    for lp in loops:
        if _iter_call(lp)[0] != "get_properties":
            continue
        tg = lp.targets
        val = tg.elts[0].id  # type: ignore[union-attr]
        body = lp.body
        for i, s in enumerate(body):
            if isinstance(s, Dyn) and s.src == val and s.conv in ("s", "r", ""):
                # unrestricted alphabet: needs a length prefix or an escaping renderer
                prev = [x for x in body[:i] if isinstance(x, Dyn)]
                prefixed = any(x.src.startswith("len(") and val in x.src for x in prev)
                what = "content_id digest input is uniquely decodable: an unrestricted value segment is length-prefixed or escaped"
                if prefixed:
                    ck.holds("R-DIGEST-ENC", f, lp.node, what)
                else:
                    ck.violation("R-DIGEST-ENC", f, lp.node, what,
                                 construct="content_id digest input: property value rendered by str() is delimited only by literals it may contain",
                                 following=[x.text for x in body[i + 1:] if isinstance(x, Lit)][:1])
                what = "content_id digest input renders values canonically (unordered collections are admitted by is_valid_property_type)"
                ck.violation("R-DIGEST-CANON", f, lp.node, what,
                             construct="content_id digest input: str() of an unordered collection depends on iteration order") \
                    if s.conv in ("s", "r", "") else None
