"""C14 — duplicate and replace produce faithful, independent copies."""
from __future__ import annotations

import ast

from ..astutil import dotted, norm, walk_body
from ..dtree import decision_tree
from ..report import Checker
from ..srcmodel import Unsupported
from . import templates_rules as T
from .c03 import r_reg_ident, r_reg_pair, reg_mutations

NODE = "pyoak.node"


def _is_dc_replace(c: ast.Call, aliases: dict[str, str]) -> bool:
    n = dotted(c.func)
    return n in ("dataclasses.replace",) or (n == "replace" and aliases.get("replace", "replace") == "replace")


def _node_keyed_mapping(fn: ast.FunctionDef) -> str | None:
    """A local mapping from original nodes to their copies that is keyed by the node object or by its id attribute: node hash is the id
    and node equality is content + origin, so two different node objects of one tree that share an id (a node and the successor
    ASTNode.replace gave its id to) get one entry -- one of the two positions receives the copy of the other node."""
    dicts = {st.targets[0].id for st in walk_body(fn.body) if isinstance(st, ast.Assign) and isinstance(st.targets[0], ast.Name)
             and (isinstance(st.value, ast.Dict) and not st.value.keys or isinstance(st.value, ast.Call) and dotted(st.value.func) in ("dict", "WeakKeyDictionary", "weakref.WeakKeyDictionary") and not st.value.args)}
    dicts |= {st.target.id for st in walk_body(fn.body) if isinstance(st, ast.AnnAssign) and isinstance(st.target, ast.Name) and isinstance(st.value, ast.Dict) and not st.value.keys}
    nodeish: set[str] = {"self"}
    groups: set[str] = set()
    changed = True
    while changed:
        changed = False
        for n in walk_body(fn.body):
            if not isinstance(n, (ast.For, ast.comprehension)):
                continue
            it, tg = n.iter, n.target
            new: set[str] = set()
            if isinstance(it, ast.Call) and isinstance(it.func, ast.Attribute):
                a = it.func.attr
                if a == "iter_child_fields" and isinstance(tg, ast.Tuple) and tg.elts and isinstance(tg.elts[0], ast.Name):
                    if tg.elts[0].id not in groups:
                        groups.add(tg.elts[0].id)
                        new.add(tg.elts[0].id)
                elif a in ("get_child_nodes",) and isinstance(tg, ast.Name):
                    new.add(tg.id)
                elif a == "get_child_nodes_with_field" and isinstance(tg, ast.Tuple) and tg.elts and isinstance(tg.elts[0], ast.Name):
                    new.add(tg.elts[0].id)
            elif isinstance(it, ast.Name) and it.id in groups and isinstance(tg, ast.Name):
                new.add(tg.id)
            elif isinstance(it, ast.Attribute) and it.attr == "children" and isinstance(tg, ast.Name):
                new.add(tg.id)
            if new - nodeish:
                nodeish |= new
                changed = True

    def is_node(e: ast.expr) -> bool:
        if isinstance(e, ast.Name):
            return e.id in nodeish
        if isinstance(e, ast.Attribute) and e.attr == "node":  # NodeTraversalInfo.node
            return True
        return False

    for n in walk_body(fn.body):
        if isinstance(n, ast.Subscript) and isinstance(n.value, ast.Name) and n.value.id in dicts:
            k = n.slice
            if is_node(k):
                return f"the mapping {n.value.id} is keyed by the node object {norm(k)} (hash = id, equality = content and origin): two different node objects of the tree that share an id collapse into one entry"
            if isinstance(k, ast.Attribute) and k.attr == "id" and is_node(k.value):
                return f"the mapping {n.value.id} is keyed by {norm(k)}: two different node objects of the tree that share an id collapse into one entry"
    return None


def r_dup_sanitize(ck: Checker) -> None:
    f = ck.repo.func(NODE, "ASTNode.duplicate")
    fn = f.node
    loops = [s for s in fn.body if isinstance(s, ast.For)]
    if not loops:
        from ..astutil import comp_as_loop
        loops = [lp_ for lp_ in (comp_as_loop(s) for s in fn.body) if lp_ is not None]
    props = [c for c in ast.walk(f.raw or fn) if isinstance(c, ast.Call) and isinstance(c.func, ast.Attribute) and c.func.attr in ("get_properties", "get_property_fields", "to_properties_dict")]
    if props:
        ck.violation("R-DUP-SANITIZE", f, props[0], "duplicate replaces child fields only: every other init field of the copy is the very object the original holds",
                     positive=True, construct=f"duplicate: {norm(props[0])[:50]} — property values are passed through on their way into the copy (a copied / converted value is another object, "
                     "and for a class without value equality not even an equal one)")
        return
    keyed = _node_keyed_mapping(fn)
    if keyed:
        ck.violation("R-DUP-SANITIZE", f, fn, "duplicate pairs every original node object with its own copy (by position or object identity)",
                     positive=True, construct=f"duplicate: {keyed}")
        return
    if len(loops) != 1:
        raise Unsupported("duplicate is not a single loop over the child fields", fn)
    lp = loops[0]
    it = lp.iter
    what = "duplicate iterates every child field of the node (iter_child_fields)"
    if isinstance(it, ast.Call) and isinstance(it.func, ast.Attribute) and it.func.attr == "iter_child_fields" and norm(it.func.value) == "self" \
            and isinstance(lp.target, ast.Tuple) and len(lp.target.elts) == 2:
        ck.holds("R-DUP-SANITIZE", f, lp, what)
    else:
        ck.violation("R-DUP-SANITIZE", f, lp, what, construct=f"duplicate iterates {norm(it)[:60]}")
        return
    obj, fld = norm(lp.target.elts[0]), norm(lp.target.elts[1])
    leaves = decision_tree(lp.body, resolve="calls")
    k_node = f"isinstance({obj}, ASTNode)"
    k_tuple = f"isinstance({obj}, tuple)"
    stored = {"node": False, "tuple": False}
    bad = []
    changes = None
    for lf in leaves:
        stores = [st for st in lf.stmts if isinstance(st, ast.Assign) and isinstance(st.targets[0], ast.Subscript)]
        other = [st for st in lf.stmts if st not in stores and not (isinstance(st, ast.Assign) and isinstance(st.targets[0], ast.Name))]  # locals are resolved into the stores
        if other:
            raise Unsupported(f"statement {norm(other[0])[:50]} in duplicate's loop", other[0])
        unknown = set(lf.assign) - {k_node, k_tuple}
        if unknown:
            bad.append(f"branches on {sorted(unknown)}")
            continue
        for st in stores:
            tgt = st.targets[0]
            changes = dotted(tgt.value)
            if norm(tgt.slice) != f"{fld}.name":
                bad.append(f"change stored under {norm(tgt.slice)}")
            v = st.value
            if lf.assign.get(k_node) is True:
                if norm(v) == f"{obj}.duplicate()":
                    stored["node"] = True
                else:
                    bad.append(f"single child stored as {norm(v)[:50]} (must be {obj}.duplicate())")
            elif lf.assign.get(k_tuple) is True:
                ok = False
                if isinstance(v, ast.Call) and dotted(v.func) == "tuple" and len(v.args) == 1 and isinstance(v.args[0], (ast.GeneratorExp, ast.ListComp)):
                    g = v.args[0]
                    if len(g.generators) == 1 and not g.generators[0].ifs and norm(g.generators[0].iter) == obj \
                            and norm(g.elt) == f"{norm(g.generators[0].target)}.duplicate()":
                        ok = True
                if ok:
                    stored["tuple"] = True
                else:
                    bad.append(f"tuple children stored as {norm(v)[:60]} (every element must be <c>.duplicate())")
            else:
                bad.append(f"change stored on a path that establishes neither node nor tuple: {lf.assign}")
    what = "duplicate: every child value handed to dataclasses.replace derives from the original only through .duplicate() (single nodes and every tuple element)"
    if not stored["node"]:
        bad.append("no path duplicates a single child")
    if not stored["tuple"]:
        bad.append("no path duplicates the elements of a tuple child field")
    if bad:
        ck.violation("R-DUP-SANITIZE", f, lp, what, evaluations=len(leaves), construct=f"duplicate: {bad[0]}")
    else:
        ck.holds("R-DUP-SANITIZE", f, lp, what, evaluations=len(leaves))
    rets = [s for s in walk_body(fn.body) if isinstance(s, ast.Return)]
    what = "duplicate returns dataclasses.replace(self, **changes): all other init fields keep their objects"
    aliases = ck.repo.import_aliases(f.mod)
    ok = len(rets) == 1 and isinstance(rets[0].value, ast.Call) and _is_dc_replace(rets[0].value, aliases) \
        and [norm(a) for a in rets[0].value.args] == ["self"] and [(k.arg, norm(k.value)) for k in rets[0].value.keywords] == [(None, changes)]
    if ok:
        ck.holds("R-DUP-SANITIZE", f, rets[0], what)
    else:
        ck.violation("R-DUP-SANITIZE", f, fn, what, construct=f"duplicate returns {[norm(r.value)[:60] for r in rets if r.value is not None]}")
    what = "duplicate does not touch the registry entry of the original"
    if reg_mutations(fn) or any(isinstance(c, ast.Call) and dotted(c.func) == "_unregister" for c in walk_body(fn.body)):
        ck.violation("R-REPLACE-FORM", f, fn, what, construct="duplicate mutates the registry")
    else:
        ck.holds("R-REPLACE-FORM", f, fn, what)


def r_replace_form(ck: Checker) -> None:
    f = ck.repo.func(NODE, "ASTNode.replace")
    fn = f.node
    aliases = ck.repo.import_aliases(f.mod)
    calls = [c for c in walk_body(fn.body) if isinstance(c, ast.Call) and _is_dc_replace(c, aliases)]
    what = "ASTNode.replace constructs the new node through dataclasses.replace(self, **kwargs) and returns it"
    kwname = fn.args.kwarg.arg if fn.args.kwarg else None
    if kwname is not None:
        # the changes reach dataclasses.replace as they were given: the mapping is not rebuilt or edited on the way
        rebinds = [st for st in walk_body(fn.body) if isinstance(st, (ast.Assign, ast.AugAssign, ast.AnnAssign))
                   and any(isinstance(t, ast.Name) and t.id == kwname for t in (st.targets if isinstance(st, ast.Assign) else [st.target]))]
        edits = [n for n in walk_body(fn.body) if (isinstance(n, ast.Subscript) and isinstance(n.ctx, (ast.Store, ast.Del)) and norm(n.value) == kwname)
                 or (isinstance(n, ast.Call) and isinstance(n.func, ast.Attribute) and norm(n.func.value) == kwname and n.func.attr in ("update", "pop", "setdefault", "clear", "popitem"))]
        what_k = "ASTNode.replace hands the given values to dataclasses.replace unchanged"
        if rebinds or edits:
            conv = [st for st in rebinds if isinstance(getattr(st, "value", None), ast.DictComp)
                    and any(isinstance(c, ast.Call) and dotted(c.func) in ("tuple", "list", "set", "frozenset", "str", "dict") for c in ast.walk(st.value.value))]
            # ... or *called*: `{k: v(...) ...}` stores what the given value returns, not the given value (a callable is a legitimate value)
            conv += [st for st in rebinds if isinstance(getattr(st, "value", None), ast.DictComp) and isinstance(st.value.generators[0].target, ast.Tuple)
                     and len(st.value.generators[0].target.elts) == 2 and isinstance(st.value.generators[0].target.elts[1], ast.Name)
                     and any(isinstance(c, ast.Call) and isinstance(c.func, ast.Name) and c.func.id == st.value.generators[0].target.elts[1].id for c in ast.walk(st.value.value))]
            if conv:
                ck.violation("R-REPLACE-FORM", f, conv[0], what_k, positive=True, construct=f"replace: the given values are converted before they are stored ({norm(conv[0].value.value)[:60]})")
            else:
                raise Unsupported(f"replace: {kwname} is rebuilt or edited before it reaches dataclasses.replace", (rebinds + edits)[0])
        else:
            ck.holds("R-REPLACE-FORM", f, fn, what_k)
    ok = len(calls) == 1 and [norm(a) for a in calls[0].args] == ["self"] and [(k.arg, norm(k.value)) for k in calls[0].keywords] == [(None, kwname)]
    rets = [s for s in walk_body(fn.body) if isinstance(s, ast.Return)]
    if ok:
        var = None
        for st in walk_body(fn.body):
            if isinstance(st, ast.Assign) and st.value is calls[0] and isinstance(st.targets[0], ast.Name):
                var = st.targets[0].id
        ok = len(rets) == 1 and rets[0].value is not None and (norm(rets[0].value) == var or rets[0].value is calls[0])
    if ok:
        ck.holds("R-REPLACE-FORM", f, calls[0], what)
    else:
        ck.violation("R-REPLACE-FORM", f, fn, what, construct=f"replace: dataclasses.replace calls {[norm(c)[:50] for c in calls]}, returns {[norm(r.value)[:40] for r in rets if r.value is not None]}")
    # unregister happens before the construction
    what = "ASTNode.replace unregisters the original before the new node is constructed (so an unchanged id can be re-used)"
    if calls:
        before = [c for c in walk_body(fn.body) if isinstance(c, ast.Call) and dotted(c.func) == "_unregister" and c.lineno < calls[0].lineno]
        before += [n for k, n, key in reg_mutations(fn) if k == "remove" and n.lineno < calls[0].lineno]
        if before:
            ck.holds("R-REPLACE-FORM", f, before[0], what)
        else:
            ck.violation("R-REPLACE-FORM", f, fn, what, construct="replace: original not unregistered before dataclasses.replace")


def r_postinit_derived(ck: Checker, rule: str = "R-REPLACE-FORM") -> None:
    """The constructor hook stores only the derived fields (declared init=False).  A store of a field the caller passes in (an init field
    of ASTNode) replaces the value given to the constructor: dataclasses.replace / duplicate hand the original's value over and the copy
    ends up with a different one (positive pattern: the attribute name is an init field declared in the class body)."""
    c = ck.repo.cls(NODE, "ASTNode")
    init_fields: set[str] = set()
    derived: set[str] = set()
    for st in c.node.body:
        if isinstance(st, ast.AnnAssign) and isinstance(st.target, ast.Name):
            v = st.value
            no_init = isinstance(v, ast.Call) and dotted(v.func) in ("field", "dataclasses.field") and any(k.arg == "init" and isinstance(k.value, ast.Constant) and k.value.value is False for k in v.keywords)
            (derived if no_init else init_fields).add(st.target.id)
    f = ck.repo.func(NODE, "ASTNode.__post_init__")
    n = 0
    for fn in [x for x in (f.raw, f.node) if x is not None]:
        for x in ast.walk(fn):
            name = None
            if isinstance(x, ast.Call) and dotted(x.func) in ("object.__setattr__", "setattr") and len(x.args) == 3 and norm(x.args[0]) == "self" and isinstance(x.args[1], ast.Constant):
                name = str(x.args[1].value)
            elif isinstance(x, ast.Subscript) and isinstance(x.ctx, ast.Store) and norm(x.value) == "self.__dict__" and isinstance(x.slice, ast.Constant):
                name = str(x.slice.value)
            if name is None:
                continue
            n += 1
            what = f"ASTNode.__post_init__ stores the derived field `{name}` only (a field passed to the constructor keeps the value it was given)"
            if name in init_fields:
                ck.violation(rule, f, x, what, positive=True,
                             construct=f"ASTNode.__post_init__: {norm(x)[:70]} overwrites the constructor argument `{name}`; a copy made by replace()/duplicate() does not keep the original's value")
            else:
                ck.holds(rule, f, x, what)
    if n < 2 or not derived:
        ck.incomplete(rule, f, f.node, f"only {n} stores of derived fields found in __post_init__ (2 confirmed by hand)")


def run(ck: Checker) -> None:
    ck.explanation = (
        "Must-pass-through analysis of duplicate (decision tree of the per-field loop body: single children and every tuple element "
        "reach dataclasses.replace only through .duplicate()), form of replace (unregister, then dataclasses.replace(self, **kwargs)), "
        "pop/restore pairing and identity guard of the registry entry (shared with C03), identity presence test of the child enumeration. "
        "Which id results is history dependent and not decided."
    )
    ck.rule_text = "one obligation per decision leaf / call site / exit kind"
    ck.assumptions += ["dataclasses.replace calls __init__ with the current values of the init fields"]
    ck.guard("R-DUP-SANITIZE", lambda: r_dup_sanitize(ck))
    from .c03 import r_reg_fresh
    ck.guard("R-REG-FRESH", lambda: r_reg_fresh(ck))  # a copy is registered under an id no registered node holds
    ck.guard("R-REPLACE-FORM", lambda: r_replace_form(ck))
    ck.guard("R-REPLACE-FORM", lambda: r_postinit_derived(ck))
    ck.guard("R-REINSTALL", lambda: T.r_reinstall(ck))  # duplicate copies the children the class itself declares (no accessor inherited from a base class)
    from . import state_rules as S14
    ck.guard("R-REG-PAIR", lambda: S14.r_flag_pairing(ck, "R-REG-PAIR", (NODE,)))
    from . import state_rules as S_
    ck.guard("R-REPLACE-FORM", lambda: S_.r_unstable_key(ck, "R-REPLACE-FORM", [(NODE, "ASTNode.replace"), (NODE, "ASTNode.duplicate")], "a copy is made from the node as it is now"))
    # a replacement takes the id a fresh construction would take now: the unique-id helper looks at the registry only
    from .c03 import r_unique_id_state
    ck.guard("R-ID-DET", lambda: r_unique_id_state(ck))
    ck.guard("R-REG-PAIR", lambda: r_reg_pair(ck))
    ck.guard("R-REG-IDENT", lambda: r_reg_ident(ck))
    ck.guard("R-PRESENCE", lambda: T.r_presence(ck))
    ck.require_count("R-DUP-SANITIZE", 3)
    ck.require_count("R-REPLACE-FORM", 3)
