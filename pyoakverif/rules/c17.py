"""C17 — XPath and pattern text is either compiled or rejected with the definition error."""
from __future__ import annotations

import ast

from ..astutil import dotted, norm, strip_docstring, unwrap_cast, walk_body, walk_local
from ..dtree import StripCasts
from ..flow import Interp, Semantics, is_catch_all
from ..grammar import lift, load
from ..report import Checker
from ..srcmodel import Func, Unsupported
from .c08 import r_postinit_idemp

XP = "pyoak.match.xpath"
PAT = "pyoak.match.pattern"
GRAM = "pyoak.match.grammar"

SAFE_CALLS = {"isinstance", "len", "str", "repr", "list", "tuple", "dict", "set", "reversed", "cast", "t.cast", "typing.cast",
              "logger.debug", "logger.info", "logger.warning", "logger.isEnabledFor", "super"}
STR_METHODS = {"startswith", "endswith", "strip", "join", "format", "lower", "upper", "split"}


class EscapeSem(Semantics):
    """Normal state: ("ok", handler_type|None).  Exceptional state: ("exc", kind, line)."""

    def __init__(self, allowed: set[str], str_params: set[str], safe_funcs: set[str]) -> None:
        self.allowed = allowed
        self.str_params = str_params
        self.safe_funcs = safe_funcs
        self.handler_vars: set[str] = set()
        self.guarded_calls: list[ast.Call] = []

    helpers = None  # callable: dotted callee name -> Func of a private helper of later origin (not on the pinned tree), or None
    helper_guarded = 0
    _summaries: dict = {}

    def _helper_safe(self, name: str) -> bool | None:
        """A helper that was extracted from an entry point: its own escape analysis decides (memoised, recursion = unsafe)."""
        if self.helpers is None:
            return None
        hf = self.helpers(name)
        if hf is None:
            return None
        key = (hf.key, tuple(sorted(self.allowed)))
        if key not in EscapeSem._summaries:
            EscapeSem._summaries[key] = None  # in progress
            params = {a.arg for a in hf.node.args.args}
            sub = EscapeSem(self.allowed, params, self.safe_funcs)
            sub.helpers = self.helpers
            out = Interp(sub).block(hf.node.body, {("ok", None)})
            kinds = {s[1] for s in out.exc}
            guarded = sum(1 for t in walk_body(hf.node.body) if isinstance(t, ast.Try) for c in walk_body(t.body) if isinstance(c, ast.Call) and not sub._call_safe(c))
            EscapeSem._summaries[key] = (all(k in self.allowed for k in kinds), guarded + sub.helper_guarded)
        res = EscapeSem._summaries[key]
        if res is None:
            return False
        self.helper_guarded += res[1]
        return res[0]

    def _call_safe(self, c: ast.Call) -> bool:
        name = dotted(c.func)
        if name in SAFE_CALLS or name in self.safe_funcs:
            return True
        if name is not None:
            hs = self._helper_safe(name)
            if hs is not None:
                return hs
        if name is not None and name.split(".")[-1] in self.allowed:
            return True  # constructing the definition error itself
        if isinstance(c.func, ast.Attribute):
            recv = c.func.value
            if isinstance(recv, ast.Name) and recv.id in self.handler_vars:
                return True  # e.get_context(...)
            if isinstance(recv, ast.Name) and recv.id in self.str_params and c.func.attr in STR_METHODS:
                return True
            if isinstance(recv, ast.Constant) and isinstance(recv.value, str) and c.func.attr in STR_METHODS:
                return True
            if c.func.attr in ("append", "add", "keys", "items", "values", "get", "extend", "update", "setdefault", "copy") and isinstance(recv, (ast.Name, ast.Attribute)):
                return True
        if isinstance(c.func, ast.Call) and dotted(c.func.func) == "super":
            return True
        return False

    def may_raise_expr(self, e):
        if e is None:
            return False
        for n in walk_local(e):
            if isinstance(n, ast.Call) and not self._call_safe(n):
                return True
        return False

    def may_raise_stmt(self, st):
        return any(self.may_raise_expr(x) for x in ast.iter_child_nodes(st) if isinstance(x, ast.expr)) or \
            (isinstance(st, ast.Expr) and self.may_raise_expr(st.value))

    tainted: set[str] | None = None  # locals that (may) carry the text or something computed from it; None = everything

    def simple_exc(self, state, st):
        if self.tainted is not None:
            unsafe = [c for x in ([st.value] if isinstance(st, ast.Expr) else [y for y in ast.iter_child_nodes(st) if isinstance(y, ast.expr)])
                      for c in walk_local(x) if isinstance(c, ast.Call) and not self._call_safe(c)]
            if unsafe and not any(isinstance(n, ast.Name) and n.id in self.tainted for c in unsafe for n in ast.walk(c)):
                # a call of unknown effect that receives nothing derived from the text: outside the rule's statement, not decided
                return (("exc", "unknown-unrelated", getattr(st, "lineno", 0)),)
        return (("exc", "unknown", getattr(st, "lineno", 0)),)

    def on_raise(self, state, st):
        if st.exc is None:
            kind = state[1] if state[0] == "ok" and state[1] else "unknown"
            return (("exc", kind, st.lineno),)
        name = dotted(st.exc.func) if isinstance(st.exc, ast.Call) else dotted(st.exc)
        if isinstance(st.exc, ast.Name) and st.exc.id in self.handler_vars and state[0] == "ok" and state[1]:
            return (("exc", state[1], st.lineno),)  # raise e
        return (("exc", (name or "unknown").split(".")[-1], st.lineno),)

    def enter_handler(self, state, h):
        if h.name:
            self.handler_vars.add(h.name)
        t = dotted(h.type) if h.type is not None and not isinstance(h.type, ast.Tuple) else None
        kind = state[1]
        caught = (t or "").split(".")[-1]
        # a typed handler only sees exceptions it can match: explicit kinds other than the handler type pass by
        if t is not None and kind not in ("unknown", caught) and not is_catch_all(h, self):
            return ()
        return (("ok", caught if (t and not is_catch_all(h, self)) else (kind if kind != "unknown" else None)),)


def escape_kinds(f: Func, allowed: set[str], str_params: set[str], safe_funcs: set[str], helpers=None) -> tuple[set, int]:
    sem = EscapeSem(allowed, str_params, safe_funcs)
    sem.helpers = helpers
    # flow-insensitive taint: the text parameters and everything assigned from an expression that mentions a tainted name
    tainted = set(str_params) | {"self"} if False else set(str_params)
    changed = True
    while changed:
        changed = False
        for n in walk_body(f.node.body):
            srcs: list[ast.AST] = []
            tgts: list[ast.AST] = []
            if isinstance(n, (ast.Assign, ast.AnnAssign, ast.AugAssign)) and getattr(n, "value", None) is not None:
                srcs, tgts = [n.value], (n.targets if isinstance(n, ast.Assign) else [n.target])
            elif isinstance(n, (ast.For, ast.comprehension)):
                srcs, tgts = [n.iter], [n.target]
            elif isinstance(n, ast.With):
                srcs, tgts = [i_.context_expr for i_ in n.items], [i_.optional_vars for i_ in n.items if i_.optional_vars is not None]
            if any(isinstance(x, ast.Name) and x.id in tainted for s_ in srcs for x in ast.walk(s_)):
                for t_ in tgts:
                    for x in ast.walk(t_):
                        if isinstance(x, ast.Name) and x.id not in tainted:
                            tainted.add(x.id)
                            changed = True
    sem.tainted = tainted
    out = Interp(sem).block(f.node.body, {("ok", None)})
    n_guarded = sum(1 for t in walk_body(f.node.body) if isinstance(t, ast.Try) for c in walk_body(t.body) if isinstance(c, ast.Call) and not sem._call_safe(c))
    sem.helper_guarded = 0
    for c in walk_body(f.node.body):
        if isinstance(c, ast.Call) and dotted(c.func):
            sem._helper_safe(dotted(c.func))  # counts the guarded calls that moved into helpers
    # (a state that reaches an exceptional exit without passing through simple_exc / on_raise carries no kind: unknown)
    return {(s[1], s[2]) if len(s) >= 3 else ("unknown", 0) for s in out.exc}, n_guarded + sem.helper_guarded


SAFE_EXC_ATTRS = {"args", "message", "get_context", "line", "column", "pos_in_stream", "__class__", "__str__", "with_traceback", "__cause__", "__context__", "__traceback__"}


def r_handler_attrs(ck: Checker, entries: list[tuple[str, str, set[str], set[str]]], rule: str = "R-EXC-ESCAPE") -> None:
    """Inside a handler the caught exception is only asked for what *every* exception of the handled type has: an attribute that only
    some subclasses carry (UnexpectedToken.expected, UnexpectedCharacters.allowed ...) raises AttributeError inside the handler, and that
    error escapes instead of the definition error."""
    for modname, q, _allowed, _strp in entries:
        f = ck.repo.func(modname, q)
        what = f"{q}: handlers read only attributes every caught exception has"
        bad = None
        for t in [x for x in ast.walk(f.raw or f.node) if isinstance(x, ast.Try)]:
            for h in t.handlers:
                if not h.name:
                    continue
                typ = dotted(h.type) if h.type is not None and not isinstance(h.type, ast.Tuple) else None
                for x in ast.walk(ast.Module(body=h.body, type_ignores=[])):
                    if isinstance(x, ast.Attribute) and isinstance(x.value, ast.Name) and x.value.id == h.name and x.attr not in SAFE_EXC_ATTRS:
                        under_try = any(isinstance(y, ast.Try) and any(x is z for b_ in y.body for z in ast.walk(b_)) for y in ast.walk(ast.Module(body=h.body, type_ignores=[])))
                        guarded = any(isinstance(y, ast.Call) and dotted(y.func) in ("hasattr", "getattr", "isinstance") and y.args and norm(y.args[0]) == h.name
                                      for y in ast.walk(ast.Module(body=h.body, type_ignores=[])))
                        if not under_try and not guarded:
                            bad = (x, f"{q}: the handler for {typ or 'the caught exception'} reads {h.name}.{x.attr}, which not every such exception has "
                                   "(AttributeError is raised inside the handler and escapes)")
        if bad:
            ck.violation(rule, f, bad[0], what, positive=True, construct=bad[1])
        else:
            ck.holds(rule, f, f.node, what)


def r_exc_escape(ck: Checker, entries: list[tuple[str, str, set[str], set[str]]], rule: str = "R-EXC-ESCAPE", min_guarded: int = 5) -> None:
    safe: set[str] = set()
    total_guarded = 0
    EscapeSem._summaries = {}
    for modname, q, allowed, strp in entries:
        f = ck.repo.func(modname, q)

        def helpers(name: str, modname=modname, f=f):
            # module-level private function or method of the same class that does not exist on the pinned tree
            m = ck.repo.mod(modname)
            cands = [name] if "." not in name else []
            if name.startswith(("self.", "cls.")) and f.cls is not None and name.count(".") == 1:
                cands.append(f"{f.cls.name}.{name.split('.')[1]}")
            for qn in cands:
                if ck.repo.has_func(modname, qn) and ck.repo.is_new_helper(m, qn):
                    return ck.repo.func(modname, qn)
            return None

        kinds, n_guarded = escape_kinds(f, allowed, strp, safe, helpers)
        total_guarded += n_guarded
        bad = sorted((k, l) for k, l in kinds if k not in allowed and k != "unknown-unrelated")
        unrelated = sorted((k, l) for k, l in kinds if k == "unknown-unrelated")
        what = f"{q}: no exception other than {sorted(allowed) or 'none'} escapes (every call on the text's data flow is converted by a catch-all handler)"
        if bad:
            ck.violation(rule, f, f.node, what, construct=f"{q}: {bad[0][0]} exception may escape from line {bad[0][1]}", escaping=bad[:4])
        elif unrelated:
            raise Unsupported(f"{q}: a call of unknown effect that does not receive the text (line {unrelated[0][1]}) may raise; not decided", f.node)
        else:
            ck.holds(rule, f, f.node, what, guarded_calls=n_guarded, escaping=sorted({k for k, _ in kinds}))
            if not allowed:
                safe.add(q.split(".")[-1])
                safe.add(q)
                safe.add("NodeMatcher.from_pattern")
    if total_guarded < min_guarded:
        ck.incomplete(rule, None, None, f"only {total_guarded} guarded calls found in the entry points (>= {min_guarded} expected)")


def _ladder(fn: ast.FunctionDef) -> list[tuple]:
    out = []
    for st in fn.body:
        if isinstance(st, ast.Try):
            calls = []
            for s in st.body:
                v = s.value if isinstance(s, (ast.Assign, ast.Expr, ast.AnnAssign)) else None
                if v is not None:
                    import copy
                    calls.append(norm(ast.fix_missing_locations(StripCasts().visit(copy.deepcopy(v)))))
            hs = []
            for h in st.handlers:
                rets = [r for r in walk_body(h.body) if isinstance(r, ast.Return)]
                kind = []
                for r in rets:
                    if isinstance(r.value, ast.Tuple) and len(r.value.elts) >= 2:
                        first = norm(r.value.elts[0])
                        kind.append(("reject" if first in ("None", "False") else first, norm(r.value.elts[-1])))
                    else:
                        kind.append(("?", norm(r.value) if r.value is not None else "None"))
                hs.append((dotted(h.type) if h.type is not None else "<bare>", tuple(kind)))
            out.append((tuple(calls), tuple(hs)))
    return out


def r_entry_sibling(ck: Checker) -> None:
    v = ck.repo.func(PAT, "validate_pattern")
    f = ck.repo.func(PAT, "NodeMatcher.from_pattern")
    def ladder_of(fn_: Func) -> list[tuple]:
        """The function's try ladder in statement order; a step delegated to an extracted helper contributes the helper's ladder."""
        m_ = ck.repo.mod(PAT)
        out: list[tuple] = []
        for st in fn_.node.body:
            if isinstance(st, ast.Try):
                out += _ladder(ast.FunctionDef(name="x", args=fn_.node.args, body=[st], decorator_list=[], lineno=0, col_offset=0))
                continue
            for c in [n for n in ast.walk(st) if isinstance(n, ast.Call) and isinstance(n.func, ast.Name)]:
                if ck.repo.has_func(PAT, c.func.id) and ck.repo.is_new_helper(m_, c.func.id):
                    hl = _ladder(ck.repo.func(PAT, c.func.id).node)
                    if hl:
                        out += [("via " + c.func.id + "(" + ", ".join(norm(a) for a in c.args) + ")",)] + hl
        return out

    # rejections decided before the text is parsed at all: an entry point that has one the other lacks disagrees with it on some text
    def early_rejections(fn_: Func) -> list[str]:
        out: list[str] = []
        p0 = [a.arg for a in fn_.node.args.args if a.arg not in ("self", "cls")][0]
        for st in fn_.node.body:
            if isinstance(st, ast.Try):
                break
            for iff in [n for n in ast.walk(st) if isinstance(n, ast.If)]:
                if not any(isinstance(x, ast.Name) and x.id == p0 for x in ast.walk(iff.test)):
                    continue  # decided on something computed from the text (a compile step in a helper), not on the text itself
                for r in [x for x in walk_body(iff.body) if isinstance(x, ast.Return) and isinstance(x.value, ast.Tuple) and x.value.elts]:
                    first = x_ = r.value.elts[0]
                    if isinstance(first, ast.Constant) and first.value in (None, False):
                        out.append(norm(iff.test).replace(p0, "<text>"))
        return out

    ev_, ef_ = early_rejections(v), early_rejections(f)
    what_e = "validate_pattern and NodeMatcher.from_pattern reject the same texts before parsing (none, or the same test)"
    if sorted(ev_) != sorted(ef_):
        only = [t_ for t_ in ef_ if t_ not in ev_] or [t_ for t_ in ev_ if t_ not in ef_]
        who = "NodeMatcher.from_pattern" if [t_ for t_ in ef_ if t_ not in ev_] else "validate_pattern"
        ck.violation("R-ENTRY-SIBLING", f, f.node, what_e, positive=True, construct=f"{who} rejects a text when `{only[0][:70]}` without parsing it; the other entry point has no such test "
                     "(the two disagree, e.g. on text with surrounding whitespace)")
    else:
        ck.holds("R-ENTRY-SIBLING", f, f.node, what_e)
    lv, lf = ladder_of(v), ladder_of(f)
    what = "validate_pattern and NodeMatcher.from_pattern have the same ladder: same guarded calls, same handler types, same rejection messages"
    if lv == lf and len(lv) >= 2:
        ck.holds("R-ENTRY-SIBLING", f, f.node, what, ladder_steps=len(lv))
    else:
        diff = next((i for i, (a, b) in enumerate(zip(lv, lf)) if a != b), min(len(lv), len(lf)))
        ck.violation("R-ENTRY-SIBLING", f, f.node, what, also=(v,),
                     construct=f"entry points differ at try block {diff}: validate_pattern {lv[diff] if diff < len(lv) else None} vs from_pattern {lf[diff] if diff < len(lf) else None}")
    m = ck.repo.func(PAT, "MultiPatternMatcher.__init__")
    cs = [c for c in walk_body(m.node.body) if isinstance(c, ast.Call) and dotted(c.func) in ("NodeMatcher.from_pattern",)]
    direct = [c for c in walk_body(m.node.body) if isinstance(c, ast.Call) and (dotted(c.func) or "").endswith((".parse", "PatternDefInterpreter"))]
    what = "MultiPatternMatcher compiles every pattern through NodeMatcher.from_pattern and rejects iff that rejects"
    bad = None
    if direct or not cs:
        bad = "patterns are compiled without NodeMatcher.from_pattern"
    else:
        from ..dtree import decision_tree
        from ..finite import k_none
        loops = [st for st in m.node.body if isinstance(st, ast.For) and any(c in list(ast.walk(st)) for c in cs)]
        if len(loops) != 1 or len(cs) != 1:
            raise Unsupported("MultiPatternMatcher.__init__: not a single loop compiling each pattern once", m.node)
        lp = loops[0]
        unp = [st for st in walk_body(lp.body) if isinstance(st, ast.Assign) and st.value is cs[0] and isinstance(st.targets[0], ast.Tuple) and len(st.targets[0].elts) == 2]
        if not unp:
            raise Unsupported("MultiPatternMatcher.__init__: the from_pattern result is not unpacked into (matcher, message)", lp)
        mv = norm(unp[0].targets[0].elts[0])
        coll = None
        for lf in decision_tree(lp.body):
            if set(lf.assign) - {k_none(mv)}:
                raise Unsupported(f"MultiPatternMatcher.__init__: loop decides on {sorted(lf.assign)}", lp)
            apps = [c for st in lf.stmts for c in ast.walk(st) if isinstance(c, ast.Call) and isinstance(c.func, ast.Attribute) and c.func.attr in ("append", "add")]
            regs = [st for st in lf.stmts if isinstance(st, ast.Assign) and isinstance(st.targets[0], ast.Subscript) and norm(st.targets[0].value) == "self._name_to_matcher"]
            if k_none(mv) not in lf.assign:
                bad = bad or "the compiled matcher is used without testing for rejection"
            elif lf.assign[k_none(mv)]:
                if regs:
                    bad = bad or "a rejected pattern is registered"
                if len(apps) != 1:
                    bad = bad or "a rejected pattern is not collected"
                else:
                    coll = norm(apps[0].func.value)
            else:
                if apps:
                    bad = bad or "an accepted pattern is collected as incorrect"
                if len(regs) != 1 or norm(regs[0].value) != mv:
                    bad = bad or "an accepted pattern is not registered under its name"
        if not bad:
            if coll is None:
                raise Unsupported("MultiPatternMatcher.__init__: collection of rejected patterns not identified", lp)
            tail = m.node.body[m.node.body.index(lp) + 1:]
            tl = decision_tree(tail, sized=(coll,))
            for lf in tl:
                nrej = lf.assign.get(f"len({coll})")
                if nrej is None:
                    bad = bad or "the collected rejections are not inspected"
                elif nrej > 0 and not (lf.outcome == "raise" and "ASTPatternDefinitionError" in (lf.val() or "")):
                    bad = bad or "rejected patterns do not raise ASTPatternDefinitionError"
                elif nrej == 0 and lf.outcome == "raise":
                    bad = bad or "raises although every pattern was accepted"
    (ck.holds if not bad else ck.violation)("R-ENTRY-SIBLING", m, m.node, what, **({} if not bad else {"construct": f"MultiPatternMatcher.__init__: {bad}"}))


def r_gram_exh(ck: Checker) -> None:
    g = load(lift(ck.repo, GRAM, "PATTERN_DEF_GRAMMAR"))
    c = ck.repo.cls(PAT, "PatternDefInterpreter")
    methods = {st.name: st for st in c.node.body if isinstance(st, ast.FunctionDef)}
    by_name: set[str] = set()
    for st0 in methods.values():
        st = ck.repo.func(PAT, f"PatternDefInterpreter.{st0.name}").node if ck.repo.has_func(PAT, f"PatternDefInterpreter.{st0.name}") else st0  # normalised (match -> if)
        for n in ast.walk(st):
            if isinstance(n, ast.Compare) and len(n.ops) == 1 and isinstance(n.left, ast.Attribute) and n.left.attr == "data" \
                    and isinstance(n.comparators[0], ast.Constant) and isinstance(n.comparators[0].value, str):
                by_name.add(n.comparators[0].value)
    n = 0
    for name, r in g.rules.items():
        n += 1
        what = f"pattern grammar rule `{name}` is handled by the interpreter (method or consumed by name in a containing rule)"
        if name in methods:
            ck.holds("R-GRAM-EXH", (c.mod.rel, f"PatternDefInterpreter.{name}"), methods[name], what, how="method")
        elif name in by_name:
            ck.holds("R-GRAM-EXH", (c.mod.rel, "class PatternDefInterpreter"), c.node, what, how="consumed by name")
        else:
            ck.violation("R-GRAM-EXH", (c.mod.rel, "class PatternDefInterpreter"), c.node, what, construct=f"grammar rule {name} has no handler")
    for m in methods:
        if m.startswith("_") or m in ("reset",):
            continue
        if m not in g.rules:
            ck.violation("R-GRAM-EXH", (c.mod.rel, f"PatternDefInterpreter.{m}"), methods[m], "every interpreter method names a grammar rule",
                         construct=f"interpreter method {m} names no rule")
    for nm in by_name:
        if nm not in g.rules:
            ck.violation("R-GRAM-EXH", (c.mod.rel, "class PatternDefInterpreter"), c.node, "rule names compared with .data exist in the grammar",
                         construct=f"interpreter compares .data with unknown rule {nm!r}")
    p = ck.repo.mod(PAT)
    starts = [norm(st.value) for st in p.tree.body if isinstance(st, ast.Assign) and norm(st.targets[0]) == "pattern_def_parser"]
    what = "the pattern parser starts at rule `tree`, which the interpreter handles"
    ok = len(starts) == 1 and "start='tree'" in starts[0] and "grammar=PATTERN_DEF_GRAMMAR" in starts[0]
    (ck.holds if ok else ck.violation)("R-GRAM-EXH", p, None, what, **({} if ok else {"construct": f"pattern_def_parser = {starts}"}))
    what = "the pattern grammar ignores whitespace between tokens"
    (ck.holds if "WS" in g.ignore else ck.violation)("R-WS", (ck.repo.mod(GRAM).rel, "PATTERN_DEF_GRAMMAR"), None, what,
                                                     **({} if "WS" in g.ignore else {"construct": "PATTERN_DEF_GRAMMAR does not %ignore WS"}))
    # whitespace is ignored *between tokens*: a terminal glued together from a token that also stands on its own in a rule hides a
    # token boundary (e.g. VAR: "$" CAPTURE_KEY makes `$ name` a syntax error although `-> name` may be spaced)
    for gname, gram in (("PATTERN_DEF_GRAMMAR", g), ("xpath_grammar", load(lift(ck.repo, XP, "xpath_grammar")))):
        used_in_rules = {s_.name for r_ in gram.rules.values() for s_ in r_.symbols if s_.kind == "term"}
        glued = sorted((t_, sorted(refs & used_in_rules)) for t_, refs in getattr(gram, "term_refs", {}).items() if refs & used_in_rules and t_ not in refs)
        what_ws = f"{gname}: whitespace may separate any two tokens (no terminal swallows a token that also occurs on its own)"
        if glued:
            ck.violation("R-WS", (ck.repo.mod(GRAM if gname == "PATTERN_DEF_GRAMMAR" else XP).rel, gname), None, what_ws,
                         construct=f"{gname}: terminal {glued[0][0]} is built from the token {glued[0][1][0]} (no whitespace allowed inside it)")
        else:
            ck.holds("R-WS", (ck.repo.mod(GRAM if gname == "PATTERN_DEF_GRAMMAR" else XP).rel, gname), None, what_ws)
    gx = load(lift(ck.repo, XP, "xpath_grammar"))
    what = "the xpath grammar ignores whitespace between tokens"
    (ck.holds if "WS" in gx.ignore else ck.violation)("R-WS", (ck.repo.mod(XP).rel, "xpath_grammar"), None, what,
                                                      **({} if "WS" in gx.ignore else {"construct": "xpath_grammar does not %ignore WS"}))
    if n < 7:
        ck.incomplete("R-GRAM-EXH", None, None, f"only {n} grammar rules (7 expected)")



def r_all_names_resolved(ck: Checker) -> None:
    """Every class name of a pattern's alternation is resolved against the registry (an unknown / non-node name anywhere in it rejects the
    pattern).  Positive pattern: the loop that resolves the names can be left early (`break`, or `return` of a result) before the
    remaining names were looked at."""
    f = ck.repo.func(PAT, "PatternDefInterpreter.tree")
    n = 0
    for fn in [x for x in (f.raw,) if x is not None] or [f.node]:
        for lp in [x for x in ast.walk(fn) if isinstance(x, ast.For)]:
            if not any(isinstance(c, ast.Call) and (dotted(c.func) or "").split(".")[-1] in ("check_and_get_ast_node_type", "_resolve_class_spec") for c in ast.walk(lp)):
                continue
            n += 1
            what = "PatternDefInterpreter.tree resolves every class name of the alternation (no early exit from the resolving loop)"
            # (a `break` on a path that resolved nothing — the lone `*` of the grammar — is not an early exit from resolving): path by path
            from ..dtree import decision_tree
            early = []
            for lf in decision_tree(lp.body, max_atoms=8):
                if lf.outcome != "break":
                    continue
                resolved_here = any(isinstance(c, ast.Call) and (dotted(c.func) or "").split(".")[-1] in ("check_and_get_ast_node_type", "_resolve_class_spec")
                                    for st_ in lf.stmts for c in ast.walk(st_))
                resolved_here = resolved_here or any("check_and_get_ast_node_type(" in k or "_resolve_class_spec(" in k for k in lf.assign)
                if resolved_here:
                    early.append(lf.stmts[-1] if lf.stmts else lp)
            if early:
                ck.violation("R-GRAM-EXH", f, early[0], what, positive=True,
                             construct="PatternDefInterpreter.tree: `break` in the loop over the class names — the names after it are never checked, so `(ASTNode | NoSuchClass)` compiles")
            else:
                ck.holds("R-GRAM-EXH", f, lp, what)
    if n == 0:
        raise Unsupported("PatternDefInterpreter.tree: the loop that resolves the class names was not found", f.node)


def r_regex_verbatim(ck: Checker) -> None:
    """Whether a quoted regex is accepted is decided by re.compile on the text the user wrote.  Wrapping it ((?:...), anchors, flags
    prefixes) changes which texts compile: a leading global flag group is no longer at the start, an unbalanced `a)(b` becomes balanced
    (positive pattern: the argument of re.compile in RegexMatcher is an expression built around the text, not the text itself)."""
    c = ck.repo.cls(PAT, "RegexMatcher")
    n = 0
    for st in c.node.body:
        if not isinstance(st, ast.FunctionDef):
            continue
        for x in ast.walk(st):
            if isinstance(x, ast.Call) and dotted(x.func) in ("re.compile", "compile") and x.args:
                n += 1
                a = x.args[0]
                what = "RegexMatcher compiles exactly the text of the quoted regex"
                plain = isinstance(a, ast.Name) or (isinstance(a, ast.Attribute) and isinstance(a.value, ast.Name))
                if plain and len(x.args) == 1 and not x.keywords:
                    ck.holds("R-GRAM-EXH", (c.mod.rel, f"RegexMatcher.{st.name}"), x, what)
                elif isinstance(a, (ast.JoinedStr, ast.BinOp)) or (isinstance(a, ast.Call) and isinstance(a.func, ast.Attribute) and a.func.attr in ("format", "join")):
                    ck.violation("R-GRAM-EXH", (c.mod.rel, f"RegexMatcher.{st.name}"), x, what, positive=True,
                                 construct=f"RegexMatcher.{st.name}: re.compile({norm(a)[:40]}) compiles a text built around the user's regex — valid regexes (leading inline flags) stop compiling, invalid ones (`a)(b`) start to")
                else:
                    raise Unsupported(f"RegexMatcher.{st.name}: re.compile({norm(a)[:40]}, ...) not recognised", x)
    if n == 0:
        ck.incomplete("R-GRAM-EXH", None, None, "no re.compile call found in RegexMatcher (1 confirmed by hand)")


def r_regex_text_verbatim(ck: Checker, rule: str = "R-GRAM-EXH") -> None:
    """The text between the quotes of a pattern is the regex: the grammar's escapes (\\" and \\\\) are regex escapes as well, so the
    interpreter hands the text over untouched.  Positive pattern: the value given to RegexMatcher in the interpreter goes through a text
    transformation (replace / re.sub / decode / literal_eval / translate), directly or in a one-expression helper — `\\\\d` (a literal
    backslash and a d) becomes `\\d` (a digit)."""
    c = ck.repo.cls(PAT, "PatternDefInterpreter")
    mod_ = c.mod
    helpers = {st.name: st for st in ast.walk(mod_.tree) if isinstance(st, ast.FunctionDef)}
    EDITS = ("replace", "decode", "translate", "sub", "literal_eval", "unescape", "strip", "lstrip", "rstrip", "lower", "upper", "casefold", "escape")
    n = 0
    for st in c.node.body:
        if not isinstance(st, ast.FunctionDef):
            continue
        for fn in (st,):
            for x in ast.walk(fn):
                if not (isinstance(x, ast.Call) and dotted(x.func) == "RegexMatcher"):
                    continue
                n += 1
                args = list(x.args) + [k.value for k in x.keywords if k.arg in ("_re_str", "re_str", "pattern")]
                hit = None
                work = list(args)
                seen = 0
                while work and seen < 40:
                    e = work.pop()
                    seen += 1
                    for y in ast.walk(e):
                        if isinstance(y, ast.Call):
                            name = (dotted(y.func) or "").split(".")[-1] if dotted(y.func) else (y.func.attr if isinstance(y.func, ast.Attribute) else "")
                            if name in EDITS:
                                hit = y
                            elif isinstance(y.func, ast.Name) and y.func.id in helpers:
                                work.extend(r.value for r in ast.walk(helpers[y.func.id]) if isinstance(r, ast.Return) and r.value is not None)
                            elif isinstance(y.func, ast.Attribute) and norm(y.func.value) == "self" and y.func.attr in helpers:
                                work.extend(r.value for r in ast.walk(helpers[y.func.attr]) if isinstance(r, ast.Return) and r.value is not None)
                        elif isinstance(y, ast.Name) and isinstance(y.ctx, ast.Load):
                            # a local bound once in this callback
                            binds = [a.value for a in ast.walk(fn) if isinstance(a, ast.Assign) and len(a.targets) == 1 and isinstance(a.targets[0], ast.Name) and a.targets[0].id == y.id]
                            if len(binds) == 1 and not any(b is e for b in binds) and seen < 30:
                                work.append(binds[0])
                what = f"PatternDefInterpreter.{st.name}: the quoted text reaches RegexMatcher as the user wrote it"
                if hit is not None:
                    ck.violation(rule, (mod_.rel, f"PatternDefInterpreter.{st.name}"), hit, what, positive=True,
                                 construct=f"PatternDefInterpreter.{st.name}: the regex text goes through `{norm(hit)[:50]}` before it is compiled — escapes the user wrote for the regex engine are rewritten")
                else:
                    ck.holds(rule, (mod_.rel, f"PatternDefInterpreter.{st.name}"), x, what)
    if n == 0:
        ck.incomplete(rule, None, None, "no RegexMatcher(...) construction found in PatternDefInterpreter (1 confirmed by hand)")


def r_capture_names_checked(ck: Checker, rule: str = "R-VAR-ORDER") -> None:
    """A capture name is registered (and rejected when it was used before) by `_check_unique_and_get_capture`, and by nothing else.
    Every `name=` an interpreter callback gives to a matcher (constructor or `replace`) must therefore be a value that call returned.
    Positive pattern: a `name=` whose value is read off the parse tree (`….children[…]`, `str(…)` of a token) without passing the
    check — `(A @x=[$a, * -> a])`-style duplicates and variables that precede such a capture are no longer definition errors."""
    c = ck.repo.cls(PAT, "PatternDefInterpreter")
    methods = {st.name: st for st in c.node.body if isinstance(st, ast.FunctionDef)}
    CHECK = "_check_unique_and_get_capture"
    if CHECK not in methods:
        # the registering helper was renamed: find it by role (adds to the seen-set and raises the definition error)
        cands = [m for m in methods.values() if any(isinstance(x, ast.Raise) for x in ast.walk(m))
                 and any(isinstance(x, ast.Call) and isinstance(x.func, ast.Attribute) and x.func.attr == "add" and norm(x.func.value).startswith("self.") for x in ast.walk(m))
                 and any(isinstance(x, ast.Return) and x.value is not None and not (isinstance(x.value, ast.Constant) and x.value.value is None) for x in ast.walk(m))]
        if len(cands) != 1:
            raise Unsupported("PatternDefInterpreter: the helper that registers a capture name and rejects a duplicate was not found", c.node)
        CHECK = cands[0].name

    def is_check_call(e: ast.AST) -> bool:
        return isinstance(e, ast.Call) and isinstance(e.func, ast.Attribute) and e.func.attr == CHECK and norm(e.func.value) == "self"

    def bindings(fn: ast.FunctionDef, name: str) -> list[ast.expr | None]:
        out: list[ast.expr | None] = []
        for a in ast.walk(fn):
            if isinstance(a, ast.Assign) and any(isinstance(t, ast.Name) and t.id == name for t in a.targets):
                out.append(a.value)
            elif isinstance(a, ast.AnnAssign) and isinstance(a.target, ast.Name) and a.target.id == name and a.value is not None:
                out.append(a.value)
            elif isinstance(a, ast.NamedExpr) and a.target.id == name:
                out.append(a.value)
            elif isinstance(a, (ast.For, ast.comprehension)) and any(isinstance(t, ast.Name) and t.id == name for t in ast.walk(a.target)):
                out.append(None)
            elif isinstance(a, ast.Assign) and any(isinstance(t, (ast.Tuple, ast.List)) and any(isinstance(y, ast.Name) and y.id == name for y in ast.walk(t)) for t in a.targets):
                out.append(None)
            elif isinstance(a, ast.withitem) and a.optional_vars is not None and any(isinstance(y, ast.Name) and y.id == name for y in ast.walk(a.optional_vars)):
                out.append(None)
        return out

    def reads_tree(e: ast.AST) -> bool:
        return any((isinstance(y, ast.Attribute) and y.attr in ("children", "value", "data")) or (isinstance(y, ast.Subscript)) for y in ast.walk(e))

    def verdict(e: ast.expr | None, fn: ast.FunctionDef, depth: int = 0) -> str:
        """'ok' (a result of the check, or None), 'raw' (read off the parse tree), '?' (not recognised)"""
        if e is None or depth > 6:
            return "?"
        if isinstance(e, ast.Constant) and e.value is None:
            return "ok"
        if is_check_call(e):
            return "ok"
        if isinstance(e, ast.NamedExpr):
            return verdict(e.value, fn, depth + 1)
        if isinstance(e, ast.IfExp):
            vs = {verdict(e.body, fn, depth + 1), verdict(e.orelse, fn, depth + 1)}
            return "raw" if "raw" in vs else ("?" if "?" in vs else "ok")
        if isinstance(e, ast.BoolOp):
            vs = {verdict(v, fn, depth + 1) for v in e.values}
            return "raw" if "raw" in vs else ("?" if "?" in vs else "ok")
        if isinstance(e, ast.Call) and isinstance(e.func, ast.Name) and e.func.id in ("cast", "str") and e.args:
            return verdict(e.args[-1], fn, depth + 1)
        if isinstance(e, ast.Call) and isinstance(e.func, ast.Attribute) and norm(e.func.value) == "self" and e.func.attr in methods and e.func.attr != CHECK:
            h = methods[e.func.attr]
            rets = [r.value for r in ast.walk(h) if isinstance(r, ast.Return)]
            vs = {verdict(r, h, depth + 1) if r is not None else "ok" for r in rets} or {"?"}
            return "raw" if "raw" in vs else ("?" if "?" in vs else "ok")
        if isinstance(e, ast.Name):
            params = {a.arg for a in fn.args.args + fn.args.kwonlyargs}
            bs = bindings(fn, e.id)
            if not bs:
                if e.id in params:
                    # a helper that receives the name: decided at its call sites
                    sites = [x for m in methods.values() for x in ast.walk(m) if isinstance(x, ast.Call) and isinstance(x.func, ast.Attribute)
                             and x.func.attr == fn.name and norm(x.func.value) == "self"]
                    idx = [a.arg for a in fn.args.args if a.arg != "self"].index(e.id) if e.id in [a.arg for a in fn.args.args] else None
                    vs = set()
                    for s_ in sites:
                        arg = next((k.value for k in s_.keywords if k.arg == e.id), None)
                        if arg is None and idx is not None and idx < len(s_.args):
                            arg = s_.args[idx]
                        owner = next((m for m in methods.values() if any(y is s_ for y in ast.walk(m))), None)
                        vs.add(verdict(arg, owner, depth + 1) if arg is not None and owner is not None else "?")
                    if not vs:
                        return "?"
                    return "raw" if "raw" in vs else ("?" if "?" in vs else "ok")
                return "?"
            vs = {verdict(b, fn, depth + 1) for b in bs}
            return "raw" if "raw" in vs else ("?" if "?" in vs else "ok")
        if reads_tree(e) and not any(is_check_call(y) for y in ast.walk(e)):
            return "raw"
        return "?"

    n = 0
    for st in methods.values():
        if st.name == CHECK:
            continue
        for x in ast.walk(st):
            if not isinstance(x, ast.Call):
                continue
            callee = (dotted(x.func) or "").split(".")[-1]
            if not (callee.endswith("Matcher") or callee == "replace"):
                continue
            for k in x.keywords:
                if k.arg != "name":
                    continue
                n += 1
                what = f"PatternDefInterpreter.{st.name}: the capture name given to {callee}(name=…) passed the duplicate check"
                v = verdict(k.value, st)
                if v == "ok":
                    ck.holds(rule, (c.mod.rel, f"PatternDefInterpreter.{st.name}"), x, what)
                elif v == "raw":
                    ck.violation(rule, (c.mod.rel, f"PatternDefInterpreter.{st.name}"), x, what, positive=True,
                                 construct=f"PatternDefInterpreter.{st.name}: {callee}(name={norm(k.value)[:40]}) takes the capture name from the parse tree without self.{CHECK} — "
                                           "a name used twice, or a variable placed before this capture, is no longer a definition error")
                else:
                    raise Unsupported(f"PatternDefInterpreter.{st.name}: the origin of {callee}(name={norm(k.value)[:40]}) was not recognised", x)
    if n < 3:
        ck.incomplete(rule, None, None, f"only {n} `name=` arguments found in the pattern interpreter (3 confirmed by hand: field_spec 2, sequence 1)")


def r_format_on_text(ck: Checker, entries, rule: str = "R-EXC-ESCAPE") -> None:
    """`T.format(...)` parses T as a template: braces in T that are not fields of the call raise IndexError / KeyError / ValueError.  In a
    compile entry point the messages quote the user's text, so a template must be a literal.  Positive pattern: the receiver of `.format`
    in an entry point is (or is a local bound to) an expression that contains run-time text — an f-string with a field, a `join`, a
    concatenation with a non-constant part — and the call is not under a catch-all handler that converts the error."""
    n = 0
    for modname, q, _allowed, _params in entries:
        f = ck.repo.func(modname, q)
        fn = f.raw or f.node
        consts = {t.id for st in ck.repo.mod(modname).tree.body if isinstance(st, (ast.Assign, ast.AnnAssign)) and isinstance(getattr(st, "value", None), ast.Constant)
                  for t in (st.targets if isinstance(st, ast.Assign) else [st.target]) if isinstance(t, ast.Name)}

        def runtime_text(e: ast.AST, depth: int = 0) -> bool:
            if isinstance(e, ast.Constant):
                return False
            if isinstance(e, ast.Name):
                if e.id in consts:
                    return False
                binds = [a.value for a in ast.walk(fn) if isinstance(a, ast.Assign) and len(a.targets) == 1 and isinstance(a.targets[0], ast.Name) and a.targets[0].id == e.id]
                if len(binds) == 1 and depth < 4:
                    return runtime_text(binds[0], depth + 1)
                return True
            if isinstance(e, ast.BinOp) and isinstance(e.op, ast.Add):
                return runtime_text(e.left, depth + 1) or runtime_text(e.right, depth + 1)
            if isinstance(e, ast.JoinedStr):
                return any(isinstance(v, ast.FormattedValue) for v in e.values)
            return True

        guarded: set[int] = set()
        for t in ast.walk(fn):
            if isinstance(t, ast.Try) and any(h.type is None or (dotted(h.type) or "") in ("Exception", "BaseException") for h in t.handlers):
                for st in t.body:
                    guarded |= {id(y) for y in ast.walk(st)}
        for x in ast.walk(fn):
            if isinstance(x, ast.Call) and isinstance(x.func, ast.Attribute) and x.func.attr in ("format", "format_map") and not isinstance(x.func.value, ast.Constant):
                n += 1
                what = f"{q}: a message template given to str.format is a literal (user text is never parsed as a template)"
                if runtime_text(x.func.value) and id(x) not in guarded:
                    ck.violation(rule, f, x, what, positive=True,
                                 construct=f"{q}: `{norm(x)[:60]}` parses a text assembled at run time (it quotes the user's pattern) as a format template — braces in it raise IndexError / KeyError / ValueError, which is not the definition error")
                else:
                    ck.holds(rule, f, x, what)
    if n == 0:
        ck.holds(rule, None, None, "no str.format on a non-literal receiver in the compile entry points (positive pattern: nothing to match)")


def r_every_subtree_visited(ck: Checker, rule: str = "R-VAR-ORDER") -> None:
    """Compiling a sub-pattern is not a pure function of its parse tree: visiting it registers the capture names it contains, and that
    registration is what rejects a capture name used twice / a variable used before its capture.  Positive pattern: a callback of the
    interpreter looks its parse tree up in a table kept on the interpreter (lark trees compare structurally) — an equal sub-pattern met
    later is answered from the table and never visited."""
    c = ck.repo.cls(PAT, "PatternDefInterpreter")
    n = 0
    for st in c.node.body:
        if not isinstance(st, ast.FunctionDef) or st.name.startswith("__"):
            continue
        params = [a.arg for a in st.args.args if a.arg != "self"]
        if not params:
            continue
        n += 1
        t = params[0]
        hit = None
        local_names = {y.id for y in ast.walk(st) if isinstance(y, ast.Name) and isinstance(y.ctx, ast.Store)} | {a.arg for a in st.args.args}
        for x in ast.walk(st):
            def persistent(e: ast.expr) -> bool:
                # a table kept on the interpreter, or at module level (a name that is not a local of this callback)
                return norm(e).startswith("self.") or (isinstance(e, ast.Name) and e.id not in local_names)
            if isinstance(x, ast.Call) and isinstance(x.func, ast.Attribute) and x.func.attr in ("get", "setdefault", "__contains__") and persistent(x.func.value) \
                    and x.args and norm(x.args[0]) == t:
                hit = x
            elif isinstance(x, ast.Subscript) and isinstance(x.ctx, ast.Load) and persistent(x.value) and norm(x.slice) == t:
                hit = x
            elif isinstance(x, ast.Compare) and len(x.ops) == 1 and isinstance(x.ops[0], (ast.In, ast.NotIn)) and norm(x.left) == t and persistent(x.comparators[0]):
                hit = x
        what = f"PatternDefInterpreter.{st.name}: every occurrence of a sub-pattern is visited (its captures are registered where they occur)"
        if hit is not None:
            ck.violation(rule, (c.mod.rel, f"PatternDefInterpreter.{st.name}"), hit, what, positive=True,
                         construct=f"PatternDefInterpreter.{st.name}: {norm(hit)[:50]} answers an equal parse tree from a table — the second copy of a sub-pattern is not visited and its capture names escape the duplicate check")
        else:
            ck.holds(rule, (c.mod.rel, f"PatternDefInterpreter.{st.name}"), st, what)
    if n < 4:
        ck.incomplete(rule, None, None, f"only {n} callbacks of the pattern interpreter found (>= 4 confirmed by hand)")


def r_var_order(ck: Checker) -> None:
    """`@field=<value> -> name`: the capture exists only after <value> matched, so a `$name` inside <value> is a variable used before
    its capture and must be rejected.  The interpreter rejects a variable that is not yet in the registered captures; hence the capture
    attached to a compiled value must be registered *after* that value was compiled (self.visit) on every path."""
    from ..dtree import decision_tree
    f = ck.repo.func(PAT, "PatternDefInterpreter.field_spec")
    # the registering helper, by role: the private method of the interpreter that adds a name to a set kept on self; when it is a helper of
    # later origin it is inlined and the registration shows as `self.<set>.add(<name>)` in field_spec itself
    def is_add(c: ast.AST) -> bool:
        return isinstance(c, ast.Call) and isinstance(c.func, ast.Attribute) and c.func.attr == "add" and isinstance(c.func.value, ast.Attribute) \
            and norm(c.func.value.value) == "self" and len(c.args) == 1

    cands = [g for g in ck.repo.functions([ck.repo.mod(PAT)]) if g.cls is not None and g.cls.name == "PatternDefInterpreter"
             and g.qualname.split(".")[-1] not in ("__init__", "reset", "field_spec") and any(is_add(c) for c in walk_body(g.node.body))]
    regnames = {g.qualname.split(".")[-1] for g in cands}
    inline_adds = [c for c in walk_body(f.node.body) if is_add(c)]
    if not regnames and not inline_adds:
        raise Unsupported("no registration of capture names found in or below field_spec", f.node)

    def pos(n: ast.AST) -> tuple[int, int]:
        return (getattr(n, "lineno", 0), getattr(n, "col_offset", 0))

    def events(stmts: list[ast.stmt], value: ast.expr | None) -> list[tuple[str, ast.AST, str | None]]:
        """("compile" | "register", node, key): key = the text under which the registered name is known afterwards"""
        ev: list[tuple[str, ast.AST, str | None]] = []
        seq: list[ast.AST] = list(stmts) + ([ast.Expr(value=value)] if value is not None else [])
        for k_, st in enumerate(seq):
            tgt = st.targets[0].id if isinstance(st, ast.Assign) and len(st.targets) == 1 and isinstance(st.targets[0], ast.Name) else None
            calls = [c for c in ast.walk(st) if isinstance(c, ast.Call) and isinstance(c.func, ast.Attribute)]
            # source order inside one statement is evaluation order for call arguments; statements come in execution order
            for c in sorted(calls, key=pos) if len({pos(c) for c in calls}) == len(calls) else calls:
                if norm(c.func.value) == "self" and c.func.attr in ("visit", "value", "tree", "sequence"):
                    ev.append(("compile", c, None))
                elif norm(c.func.value) == "self" and c.func.attr in regnames:
                    ev.append(("register", c, tgt if isinstance(st, ast.Assign) and st.value is c else norm(c)))
                elif is_add(c):
                    ev.append(("register", c, norm(c.args[0])))
        return ev

    leaves = decision_tree(f.node.body, domain=lambda k: (1, 2, 3) if k.startswith("len(") else (True, False), resolve=True, max_atoms=14)
    what = "field_spec: a capture attached to a compiled value is registered after the value was compiled (a `$name` inside the value it names is rejected)"
    bad = None
    n_named = 0
    for lf in leaves:
        if lf.outcome != "return" or lf.value is None:
            continue
        ev = events(lf.stmts, lf.value)
        comp = [i_ for i_, e in enumerate(ev) if e[0] == "compile"]
        if not comp:
            continue
        names = [k.value for c in ast.walk(lf.value) if isinstance(c, ast.Call) for k in c.keywords if k.arg == "name"]
        for nm in names:
            key = norm(nm)
            idx = [i_ for i_, e in enumerate(ev) if e[0] == "register" and (e[2] == key or e[1] is nm)]
            if not idx:
                raise Unsupported(f"field_spec: the registration of the capture name {key[:40]} was not found on its path", lf.value)
            n_named += 1
            if idx[-1] < comp[-1]:
                bad = (f"field_spec: on the path [{', '.join(f'{k}={v}' for k, v in lf.assign.items())}] the capture {key[:40]} is registered (line {getattr(ev[idx[-1]][1], 'lineno', '?')}) "
                       f"before the value it follows is compiled (line {getattr(ev[comp[-1]][1], 'lineno', '?')}): `@f=$x -> x` is accepted although x is used before its capture")
    if bad:
        ck.violation("R-VAR-ORDER", f, f.node, what, evaluations=len(leaves), construct=bad)
    elif n_named == 0:
        raise Unsupported("field_spec: no path attaches a capture to a compiled value", f.node)
    else:
        ck.holds("R-VAR-ORDER", f, f.node, what, evaluations=len(leaves), named_paths=n_named)


ONE_SHOT = ("reversed", "iter", "map", "filter", "zip", "enumerate", "chain", "itertools.chain", "islice", "itertools.islice")


def r_reusable(ck: Checker, modname: str = XP, cls: str = "ASTXpath", rule: str = "R-XP-ELEMENTS") -> None:
    """What __init__ stores on the compiled object is used by every later call: a one-shot iterator (reversed(), map(), a generator
    expression ...) is exhausted by the first one."""
    init = ck.repo.func(modname, f"{cls}.__init__")
    what = f"{cls}: the state kept by __init__ can be iterated by every later findall / match (no one-shot iterator is stored)"
    stored: dict[str, ast.expr] = {}
    for st in walk_body(init.node.body):
        if isinstance(st, ast.Assign) and len(st.targets) == 1 and isinstance(st.targets[0], ast.Attribute) and norm(st.targets[0].value) == "self":
            v = st.value
            if isinstance(v, ast.GeneratorExp) or (isinstance(v, ast.Call) and dotted(v.func) in ONE_SHOT):
                stored[st.targets[0].attr] = v
    for g in ck.repo.functions([ck.repo.mod(modname)]):
        if g.cls is None or g.cls.name != cls or g.qualname.endswith(".__init__"):
            continue
        for n in ast.walk(g.node):
            its = [n.iter] if isinstance(n, (ast.For, ast.comprehension)) else []
            for it in its:
                if isinstance(it, ast.Attribute) and norm(it.value) == "self" and it.attr in stored:
                    ck.violation(rule, init, init.node, what, positive=True, construct=f"{cls}.__init__ stores self.{it.attr} = {norm(stored[it.attr])[:50]} (a one-shot iterator) and "
                                 f"{g.qualname} iterates it: the second call on the same compiled object sees nothing")
                    return
    ck.holds(rule, init, init.node, what)


def r_unquote(ck: Checker) -> None:
    """The regex of a string literal is the token text without its first and last character (the quotes): stripping quote characters
    also eats an escaped quote at the end of the regex."""
    f = ck.repo.func(PAT, "PatternDefInterpreter.value")
    what = "PatternDefInterpreter.value: the regex of a string literal is the token without exactly its enclosing quotes"
    strips = [c for c in ast.walk(f.node) if isinstance(c, ast.Call) and isinstance(c.func, ast.Attribute) and c.func.attr in ("strip", "lstrip", "rstrip", "removeprefix", "removesuffix", "replace")
              and c.args and isinstance(c.args[0], ast.Constant) and isinstance(c.args[0].value, str) and ("\"" in c.args[0].value or "'" in c.args[0].value)]
    slices = [n for n in ast.walk(f.node) if isinstance(n, ast.Subscript) and isinstance(n.slice, ast.Slice) and norm(n.slice) == "1:-1"]
    if strips and strips[0].func.attr in ("strip", "lstrip", "rstrip"):
        ck.violation("R-GRAM-EXH", f, strips[0], what, positive=True, construct=f"value: the literal is unquoted with {norm(strips[0])[:50]}: every quote character at the ends is removed, "
                     "so a regex that ends in an escaped quote loses it and no longer compiles / means something else")
    elif slices:
        ck.holds("R-GRAM-EXH", f, slices[0], what)
    else:
        raise Unsupported("PatternDefInterpreter.value: how the string literal is unquoted was not recognised", f.node)


def mutable_globals(ck: Checker) -> dict[str, set[str]]:
    out: dict[str, set[str]] = {}
    for m in ck.repo.mods.values():
        names = set()
        for st in m.tree.body:
            tg = val = None
            if isinstance(st, ast.Assign) and len(st.targets) == 1 and isinstance(st.targets[0], ast.Name):
                tg, val = st.targets[0].id, st.value
            elif isinstance(st, ast.AnnAssign) and isinstance(st.target, ast.Name):
                tg, val = st.target.id, st.value
            if tg and val is not None and (isinstance(val, (ast.Dict, ast.List, ast.Set)) or (
                    isinstance(val, ast.Call) and (dotted(val.func) or "").split(".")[-1] in ("dict", "list", "set", "WeakValueDictionary", "defaultdict", "OrderedDict", "deque"))):
                names.add(tg)
        out[m.name] = names
    return out


def r_no_memo(ck: Checker, rule: str = "R-NO-MEMO") -> None:
    """A memoised function must not read a mutable registry: its answer would go stale when the registry changes
    (a class defined after a first failed lookup would stay unknown for ever)."""
    mg = mutable_globals(ck)
    all_mutable = set().union(*mg.values())
    n = 0
    for f in ck.repo.functions(list(ck.repo.mods.values())):
        memo = [dotted(d.func if isinstance(d, ast.Call) else d) or "" for d in f.node.decorator_list]
        memo = [d for d in memo if d.split(".")[-1] in ("lru_cache", "cache", "cached", "cached_property")]
        if not memo:
            continue
        n += 1
        aliases = ck.repo.import_aliases(f.mod)
        reads = set()
        for nn in walk_body(f.node.body):
            if isinstance(nn, ast.Name) and isinstance(nn.ctx, ast.Load):
                real = aliases.get(nn.id, nn.id)
                if real in mg.get(f.mod.name, set()) or (nn.id in aliases and real in all_mutable):
                    reads.add(nn.id)
        what = "memoised functions read no mutable registry (their answers cannot go stale)"
        if reads:
            ck.violation(rule, f, f.node, what, positive=True, construct=f"{f.qualname} is memoised ({memo[0]}) but reads the mutable registry {sorted(reads)}")
        else:
            ck.holds(rule, f, f.node, what, decorator=memo[0])
    for q in (("pyoak.match.helpers", "check_and_get_ast_node_type"), ("pyoak.legacy.match.helpers", "check_and_get_ast_node_type")):
        f = ck.repo.func(*q)
        what = "class names are resolved against the live TYPES registry on every compilation"
        reads_types = any(isinstance(nn, ast.Name) and nn.id == "TYPES" for nn in walk_body(f.node.body))
        if reads_types and not f.node.decorator_list:
            ck.holds(rule, f, f.node, what)
        elif not reads_types:
            ck.violation(rule, f, f.node, what, construct=f"{f.qualname} does not consult TYPES")
    if n < 15:
        ck.incomplete(rule, None, None, f"only {n} memoised functions found (>= 15 expected)")


ENTRIES = [
    (XP, "ASTXpath.__init__", {"ASTXpathDefinitionError"}, {"xpath"}),
    (PAT, "NodeMatcher.from_pattern", set(), {"pattern_def"}),
    (PAT, "validate_pattern", set(), {"pattern_def"}),
    (PAT, "MultiPatternMatcher.__init__", {"ASTPatternDefinitionError"}, set()),
]


def run(ck: Checker) -> None:
    ck.explanation = (
        "Exception-escape analysis of the four compile entry points (flow interpreter with exceptional edges: every call on the text's data "
        "flow must sit under a catch-all handler that converts to the definition error / an error tuple; handlers call only the caught "
        "exception, logging and the error constructor), sibling comparison of validate_pattern and from_pattern (same ladder), exhaustiveness "
        "of the interpreter against the pattern grammar (loaded with lark's grammar loader), post-init idempotence of the matcher classes "
        "(a grammatical text must not be rejected by a re-run __post_init__), %ignore WS in both grammars. Totality of lark is assumed."
    )
    ck.rule_text = "one obligation per entry point / grammar rule / matcher class"
    ck.assumptions += ["lark raises only UnexpectedInput subclasses or other Exception subclasses from parse()",
                       "str methods on the str argument and dict operations keyed by it do not raise"]
    ck.guard("R-EXC-ESCAPE", lambda: r_exc_escape(ck, ENTRIES))
    ck.guard("R-EXC-ESCAPE", lambda: r_handler_attrs(ck, ENTRIES))
    ck.guard("R-EXC-ESCAPE", lambda: r_format_on_text(ck, ENTRIES))
    ck.guard("R-ENTRY-SIBLING", lambda: r_entry_sibling(ck))
    ck.guard("R-GRAM-EXH", lambda: r_gram_exh(ck))
    ck.guard("R-VAR-ORDER", lambda: r_var_order(ck))
    ck.guard("R-VAR-ORDER", lambda: r_every_subtree_visited(ck))
    ck.guard("R-VAR-ORDER", lambda: r_capture_names_checked(ck))
    ck.guard("R-GRAM-EXH", lambda: r_regex_verbatim(ck))
    ck.guard("R-GRAM-EXH", lambda: r_regex_text_verbatim(ck))
    ck.guard("R-GRAM-EXH", lambda: r_all_names_resolved(ck))
    from .c07 import r_xp_cache_key
    ck.guard("R-NO-MEMO", lambda: r_xp_cache_key(ck, rule="R-NO-MEMO"))
    from . import state_rules as S17b
    ck.guard("R-NO-MEMO", lambda: S17b.r_memo_of_live_view(ck, "R-NO-MEMO", (XP, PAT, "pyoak.match.helpers")))
    from . import state_rules as S17
    ck.guard("R-NO-MEMO", lambda: S17.r_shared_defaults(ck, "R-NO-MEMO", PAT, ("MultiPatternMatcher", "PatternDefInterpreter", "NodeMatcher", "SequenceMatcher")))
    ck.guard("R-GRAM-EXH", lambda: r_unquote(ck))
    ck.guard("R-XP-ELEMENTS", lambda: r_reusable(ck))
    from . import state_rules as S
    ck.guard("R-NO-MEMO", lambda: S.r_stateless(ck, "R-NO-MEMO", XP, "XPathTransformer", None, "one transformer instance serves every parse, also after a failed one"))
    ck.guard("R-NO-MEMO", lambda: S.r_stateless(ck, "R-NO-MEMO", XP, "ASTXpath", ("match", "findall"), "compiling a text again yields an object with the same behaviour"))
    ck.guard("R-POSTINIT-IDEMP", lambda: r_postinit_idemp(ck))
    from .c07 import r_xp_elements
    ck.guard("R-XP-ELEMENTS", lambda: r_xp_elements(ck))
    from .c07 import r_xp_compile_each
    ck.guard("R-NO-MEMO", lambda: r_xp_compile_each(ck, "R-NO-MEMO"))
    ck.guard("R-NO-MEMO", lambda: r_no_memo(ck))
    from .c08 import r_cache_discipline
    ck.guard("R-NO-MEMO", lambda: r_cache_discipline(ck, "R-NO-MEMO"))  # what a text compiles to does not depend on which other texts were compiled before
    ck.require_count("R-EXC-ESCAPE", 4)
    ck.require_count("R-GRAM-EXH", 8)
